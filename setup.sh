#!/bin/bash
# Offline setup after a fresh restore: contract libraries beside the repo's interpreter,
# and a warm numba cache for the current /repo sources (both git-ignored).
cd "$(dirname "$(readlink -f "$0")")" || exit 1
export PIP_NO_INDEX=1
/venv/bin/python - <<'P'
from vf import common
common.ensure_deps()
env, cdir = common.worker_env()
import sys
print('warm', common.warm(env, cdir, sys.stdout))
P
