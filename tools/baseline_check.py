#!/venv/bin/python
"""Run the pinned test suite (guard off) and compare with BASELINE stable_pass."""
import json, subprocess, sys, tempfile, os, xml.etree.ElementTree as ET
base = json.load(open('/root/.vp/BASELINE.json'))
fd, xml = tempfile.mkstemp(suffix='.xml'); os.close(fd)
env = {k: v for k, v in os.environ.items() if k != 'EMG3D_VERIF'}
cmd = ['/venv/bin/python', '-m', 'pytest', '-q', '-p', 'no:cacheprovider', '--timeout=900',
       '--continue-on-collection-errors', '-n', sys.argv[1] if len(sys.argv) > 1 else "0",
       f'--junitxml={xml}']
subprocess.run(cmd, cwd='/repo', env=env, stdout=subprocess.DEVNULL)
passed = set()
for tc in ET.parse(xml).getroot().iter('testcase'):
    if not any(ch.tag in ('failure', 'error', 'skipped') for ch in tc):
        passed.add(f"{tc.get('classname')}::{tc.get('name')}")
os.unlink(xml)
want = set(base['stable_pass'])
missing = sorted(want - passed)
print(f'stable_pass={len(want)} passed_now={len(passed)} missing={len(missing)}')
for m in missing:
    print('  NOT PASSING:', m)
sys.exit(1 if missing else 0)
