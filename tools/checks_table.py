"""One row per claimed property (source of MANIFEST.json)."""
CHECKS = [
    {'id': 'C02', 'ref': 'DESIGN.md section 3 C02',
     'technique': 'runtime monitoring: full edge-basis extraction through the '
                  'live amat_x kernel (compiled and py_func) compared with an '
                  'independently assembled sparse FIT operator; '
                  'NUMBA_BOUNDSCHECK sanitizer build',
     'text': 'Every column of the matrix-free operator is observed on every '
             'sampled grid/model (the map is linear, so the basis enumeration '
             'is complete per grid) and compared entry by entry with an '
             'independent assembly; held on the grids/models executed, which '
             'include all shapes 2..5 per direction.',
     'note': 'Trusted: vf/refop.py (cross-checked against discretize), '
             'scipy.constants, numpy/scipy. Grids beyond 5 cells sampled.'},
]
NOT_APPLICABLE = []
