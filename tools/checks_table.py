"""One row per claimed property (source of MANIFEST.json)."""
CHECKS = [
    {'id': 'C01', 'ref': 'DESIGN.md section 3 C01',
     'technique': 'runtime monitoring at the client boundary of emg3d.solve/'
                  'solve_source: residual of the returned (or in-place '
                  'updated) field recomputed with an independently assembled '
                  'operator; status read from info dict, stdout and a wrapped '
                  'MGParameters; NUMBA_BOUNDSCHECK sanitizer build (thorough)',
     'text': 'Thousands of real solves over random grids, models, sources and '
             'solver configurations; for each the implication success => '
             'residual below tol (and its contrapositive), PEC zeros, dtype, '
             'return protocol and the reported error figures are judged by an '
             'oracle that shares no code with the solver. Held on the '
             'executions observed (both sides of the implication populated).',
     'note': 'Trusted: vf/refop.py (tied to the kernel by C02), numpy/scipy. '
             'tol >= 1e-10; sources touching the outermost cells excluded as '
             'in the property.'},
    {'id': 'C02', 'ref': 'DESIGN.md section 3 C02',
     'technique': 'runtime monitoring: full edge-basis extraction through the '
                  'live amat_x kernel (compiled and py_func) compared with an '
                  'independently assembled sparse FIT operator; '
                  'NUMBA_BOUNDSCHECK sanitizer build',
     'text': 'Every column of the matrix-free operator is observed on every '
             'sampled grid/model (the map is linear, so the basis enumeration '
             'is complete per grid) and compared entry by entry with an '
             'independent assembly; held on the grids/models executed, which '
             'include all shapes 2..5 per direction.',
     'note': 'Trusted: vf/refop.py (cross-checked against discretize), '
             'scipy.constants, numpy/scipy. Grids beyond 5 cells sampled.'},
]
NOT_APPLICABLE = []
