"""One row per claimed property (source of MANIFEST.json)."""
CHECKS = [
    {'id': 'C01', 'ref': 'DESIGN.md section 3 C01',
     'technique': 'runtime monitoring at the client boundary of emg3d.solve/'
                  'solve_source: residual of the returned (or in-place '
                  'updated) field recomputed with an independently assembled '
                  'operator; status read from info dict, stdout and a wrapped '
                  'MGParameters; NUMBA_BOUNDSCHECK sanitizer build (thorough)',
     'text': 'Thousands of real solves over random grids, models, sources and '
             'solver configurations; for each the implication success => '
             'residual below tol (and its contrapositive), PEC zeros, dtype, '
             'return protocol and the reported error figures are judged by an '
             'oracle that shares no code with the solver. Held on the '
             'executions observed (both sides of the implication populated).',
     'note': 'Trusted: vf/refop.py (tied to the kernel by C02), numpy/scipy. '
             'tol >= 1e-10; sources touching the outermost cells excluded as '
             'in the property.'},
    {'id': 'C03', 'ref': 'DESIGN.md section 3 C03',
     'technique': 'runtime monitoring of solver.smoothing and the four '
                  'Gauss-Seidel kernels (compiled and py_func) with a '
                  'reference-operator oracle: fixed point, searched last-block '
                  'exactness, affinity, boundary sentinels, kernel-selection '
                  'wrappers; recorded banded systems vs dense solve; '
                  'NUMBA_BOUNDSCHECK build (thorough)',
     'text': 'Each smoother variant is executed on thousands of random small '
             'systems with a known exact solution and judged against the '
             'independently assembled operator; every banded system the real '
             'line smoothers build (captured in py_func mode) and random ones '
             'are re-solved densely. Held on the executions observed.',
     'note': 'Trusted: vf/refop.py, numpy.linalg.solve. Tolerances are '
             'rounding bounds scaled with a conditioning proxy (eps*kappa), '
             'so ill-conditioned cases are judged less sharply.'},
    {'id': 'C04', 'ref': 'DESIGN.md section 3 C04',
     'technique': 'runtime monitoring: complete fine/coarse edge bases pushed '
                  'through solver.restriction/prolongation for all 7 '
                  'patterns, compared with each other and with 1-D reference '
                  'interpolation weights; in-situ adjoint probes and '
                  'conservation sums on every level of live solves',
     'text': 'R and P are extracted column by column from the real functions '
             '(linear maps: complete per sampled grid) and the transpose, '
             'additivity, boundary, weight and conservation clauses are '
             'checked exactly or to a derived rounding bound; wrappers repeat '
             'the adjoint/conservation test on the grids live solves visit.',
     'note': 'Trusted: own 1-D linear interpolation weights. Grids sampled '
             '(coarsened directions 4..12, others 2..7).'},
    {'id': 'C05', 'ref': 'DESIGN.md section 3 C05',
     'technique': 'online trace checker: wrappers on multigrid/smoothing/'
                  'restriction/prolongation/_terminate and the smoother '
                  'kernels record the ordered event trace of real solver '
                  'control code (skeleton mode with no-op kernels and full '
                  'mode), compared event by event with a textbook V/W/F '
                  'schedule; verb=5 log and level_all as second channel',
     'text': 'The trace of every run must equal the finite reference schedule '
             '(termination as bounded progress), including coarsening '
             'arithmetic, kernel selection and direction cycling. Thorough '
             'tier enumerates all shapes in {2..40}^3 (configurations sampled '
             'per shape) and all single-direction sizes to 1024.',
     'note': 'Skeleton mode trusts that kernels influence control flow only '
             'through the residual norm; full mode samples that. '
             'Configuration product is sampled, not exhaustive.'},
    {'id': 'C02', 'ref': 'DESIGN.md section 3 C02',
     'technique': 'runtime monitoring: full edge-basis extraction through the '
                  'live amat_x kernel (compiled and py_func) compared with an '
                  'independently assembled sparse FIT operator; '
                  'NUMBA_BOUNDSCHECK sanitizer build',
     'text': 'Every column of the matrix-free operator is observed on every '
             'sampled grid/model (the map is linear, so the basis enumeration '
             'is complete per grid) and compared entry by entry with an '
             'independent assembly; held on the grids/models executed, which '
             'include all shapes 2..5 per direction.',
     'note': 'Trusted: vf/refop.py (cross-checked against discretize), '
             'scipy.constants, numpy/scipy. Grids beyond 5 cells sampled.'},
    {'id': 'C11', 'ref': 'DESIGN.md section 3 C11',
     'technique': 'schedule-forcing runtime monitor: a wrapper around '
                  'emg3d._multiprocessing.solve (inherited by the forked pool '
                  'workers) takes a ticket, injects adversarial delays before '
                  'the real solve and logs start/end events (O_APPEND); '
                  'offline checker compares every source-frequency slot of '
                  'every observable bit-by-bit with the sequential in-memory '
                  'reference and checks exactly-once + that the completion '
                  'order really differed',
     'text': 'Forward, back-propagation and J v runs of 3-4 x 2-3 task '
             'surveys under max_workers 1..16, tqdm on/off, file_dir on/off '
             'and reverse/random/straggler/equal delay schedules gave '
             'bit-identical fields, responses, misfit, gradient and J v in '
             'every slot; every task started and ended exactly once; dozens '
             'of distinct non-identity completion orders were observed.',
     'note': 'BLAS/numba threads pinned to 1; only a forced sample of the n! '
             'completion orders; relies on the fork start method (otherwise '
             'inconclusive).'},
    {'id': 'C12', 'ref': 'DESIGN.md section 3 C12',
     'technique': 'history monitor: logged random sequences of public '
                  'Simulation operations on up to three live objects '
                  '(original, copies, reloads); after every operation the '
                  'observables are compared with a memoised fresh simulation '
                  'of the current model/survey/options (reference model = '
                  'fresh run)',
     'text': 'About 1500 operations per quick run (thorough ~30 000) over '
             'compute/misfit/gradient/jvec/jtvec/get_*field/clean/copy/dict/'
             'file/model-update; synthetic data, misfit, gradient, J v, J^T w '
             'and fields must equal those of a fresh simulation to 1e-6 and '
             'no operation of a valid history may raise. Five mechanisms were '
             'found (four repaired, one recorded).',
     'note': 'Fresh simulation evaluated once is the model; solver tol 1e-9; '
             'sequences in which an object shares file_dir with a sibling '
             'that wrote/cleaned are keyed to that one known mechanism.'},
    {'id': 'C13', 'ref': 'DESIGN.md section 3 C13',
     'technique': 'shadow-model runtime monitor over random operation '
                  'histories on Survey/Simulation (client-boundary read-back '
                  'after every public operation) + independent reference '
                  'noise model, sub-cube/cut/offset/misfit oracles, seeded '
                  'replacement of the RNG used by add_noise, pooled moment '
                  'tests, enumerated add_noise option table',
     'text': 'For thousands of random histories of assignments, add_noise, '
             'select, copy, dict/file round trips and misfit evaluations on '
             'surveys from 1x1x1 to 6x8x5 every read-back of noise_floor, '
             'relative_error, standard_deviation, data sets, weights and '
             'misfit agreed with an independently written shadow of the '
             'documented noise model (bitwise for stored parameters and '
             'sub-cubes, 16 eps for std, 1e-12 for misfit and its '
             'permutation invariance).',
     'note': 'Trusted: reference model in vf/c13.py, numpy. Bulk misfit '
             'evaluations go through Simulation.from_dict of a results '
             'dictionary; statistical checks use 10-sigma bounds.'},
    {'id': 'C14', 'ref': 'DESIGN.md section 3 C14',
     'technique': 'runtime monitoring at the client boundary with reference '
                  'models: own six property maps + complex-step derivative '
                  '(Map* calls), closed-form eta/zeta from widths and sigma '
                  '(VolumeModel), enumerated validation contract (Model '
                  'constructor/setters), independent FIT residual + sextuple '
                  'agreement (emg3d.solve, Simulation data and gradient)',
     'text': 'For thousands of conductivity models over twelve decades '
             'expressed in all six mappings the solver coefficients equal '
             'those computed independently from sigma (1e-13), every Map* '
             'call matches an independent model, every invalid value of a '
             'complete enumeration is rejected at construction and on '
             'assignment, and for sextuples of real solves fields, data and '
             'chain-ruled gradients agree across mappings.',
     'note': 'Trusted: reference maps in vf/c14.py (guarded by central '
             'differences), vf/refop.py, scipy.constants. The 100*tol '
             'agreement bound for fields/data/gradients is calibrated; '
             'automatic gridding and extract_1d are not exercised here.'},
    {'id': 'C06', 'ref': 'DESIGN.md section 3 C06',
     'technique': 'runtime monitoring of info[error_at_cycle]/it_mg/exit of '
                  'deterministic stand-alone multigrid solves; calibrated '
                  'regression oracle (calib/c06.json measured on the pinned '
                  'tree): per-cycle reduction factor vs cap and vs the 16^3 '
                  'member of each family',
     'text': 'All 36 (cycle, nu, medium, domain) families are solved on '
             '8..32 (64) cells (thorough to 128 and non-cubic shapes) and the '
             'observed per-cycle reduction factor must stay below 1.5 x the '
             'largest factor measured on the pinned tree and within max(1.30, '
             '1.25 x measured ratio) of the 16^3 factor; cycle counts within '
             '+3. A calibrated regression monitor of a documented '
             'performance claim, not a bound from theory.',
     'note': 'Thresholds and margins are measured (calib/c06.json), not '
             'derived; inputs deterministic; no wall-clock.'},
    {'id': 'C07', 'ref': 'DESIGN.md section 3 C07',
     'technique': 'client-boundary monitor on Simulation.misfit/gradient; '
                  'oracle = central differences of the misfit of fresh '
                  'simulations at h, h/2, h/4 with second-order convergence '
                  'test and (double) Richardson extrapolation; '
                  'NUMBA_BOUNDSCHECK build (thorough)',
     'text': 'For random small survey problems over all mappings, anisotropy '
             'cases, source and receiver kinds, noise forms and NaN gaps the '
             'inner product <gradient, v> matched the extrapolated finite-'
             'difference directional derivative to 1e-5 (2e-6 double '
             'Richardson) with error ratios of 4 per halving; shape and '
             'finiteness per case.',
     'note': 'Finite differences of fresh simulations define the derivative; '
             'solver tol 1e-11; magnetic receivers two cells inside; cases '
             'with a non-converged solve are skipped and counted.'},
    {'id': 'C08', 'ref': 'DESIGN.md section 3 C08',
     'technique': 'client-boundary monitor on Simulation.jvec/jtvec/gradient: '
                  'adjoint (dot-product) identity with random real v and '
                  'complex w in all seven gridding modes, in memory and '
                  'file-based; Richardson finite differences of '
                  'data.synthetic for J v; jtvec(residual*weights) vs fresh '
                  'gradient',
     'text': 'Re<w,Jv> = <J^T w,v> held to 1e-6 relative on every observed '
             'case in the modes same/single/frequency/source/both/input/dict; '
             'J v equalled the extrapolated data derivative (gridding same) '
             'and jtvec of the weighted residual reproduced the gradient.',
     'note': 'Solver tolerance 1e-10; only converged cases judged; automatic '
             'grids are small (8..32 cells) with fully specified '
             'gridding_opts.'},
    {'id': 'C09', 'ref': 'DESIGN.md section 3 C09',
     'technique': 'runtime monitoring at the boundaries of get_receiver / '
                  'get_source_field / get_magnetic_field / '
                  'Rx*._adjoint_source / solve: every sampled value and every '
                  'point-source vector compared with an independent reference '
                  '(trilinear weights on staggered edge/face grids, own '
                  'rotation, slice-based curl + hand-written adjoint, '
                  'documented Faraday relation); NaN policy over labelled '
                  'boundary classes; reciprocity of solved responses against '
                  'the bound implied by the solver tolerance; '
                  'NUMBA_BOUNDSCHECK build (thorough)',
     'text': 'On thousands of random stretched grids, fields, models, '
             'positions (also exactly on nodes, cell centres, inner limit '
             'planes) and orientations, linear receiver sampling, the point-'
             'source vectors and the adjoint-source mapping agreed with an '
             'independent transpose/Faraday reference to rounding; NaN exactly '
             'outside / in the outermost cells; reciprocity within the '
             'solver-tolerance bound on every converged pair.',
     'note': 'Trusted: reference model in vf/c09.py (self-checked against '
             'discretize edge_curl), scipy.constants. emg3d\'s documented '
             '1e-10 component cut-off in get_receiver granted as slack. '
             'Magnetic clauses mu_r=1; magnetic reciprocity points half a '
             'cell further inside (otherwise the solve does not converge).'},
    {'id': 'C10', 'ref': 'DESIGN.md section 3 C10',
     'technique': 'client-boundary monitor on get_source_field / electrodes '
                  'conversions with an independent geometric reference model '
                  '(vector sums, slab-clipping support oracle, trigonometric '
                  'and cross-product formulas); seeded hostile inputs plus '
                  'complete lattice enumeration on a small grid',
     'text': 'Every observed source vector summed per component to strength x '
             '(last - first electrode) (unit direction for points, 0 for '
             'closed loops), field = -s mu0 vec to 16 eps, support only on '
             'cells touched by the wire; conversions round-trip; magnetic '
             'loop closed/planar/square/right-handed with area = length. One '
             'input class (segment inside an upper boundary plane) is a '
             'recorded known finding.',
     'note': 'Trusted: reference formulas in vf/c10.py, scipy.constants. '
             'Weight distribution inside touched cells, TxMagneticPoint '
             '(C09) and complex strength in real-valued calls not judged.'},
    {'id': 'C15', 'ref': 'DESIGN.md section 3 C15',
     'technique': 'runtime monitoring: reference-model oracle (independent '
                  'overlap-length volume-average operator) at the client '
                  'boundary of maps.interpolate / Model.interpolate_to_grid / '
                  'maps._interp_volume_average_adj on generated and '
                  'exhaustively enumerated lattice grid pairs; '
                  'NUMBA_BOUNDSCHECK build (thorough)',
     'text': 'On every generated pair of tensor grids (nine relations per '
             'direction, 1-12 cells, eight decades; all 1-D integer-lattice '
             'pairs enumerated) the real volume average equalled the '
             'independent operator in linear and log mode to a derived '
             'rounding bound, conserved the integral, stayed in range, was '
             'the identity on equal grids, nearest-filled outside, and the '
             'gradient\'s adjoint routine was its exact transpose.',
     'note': 'Trusted: w1d/RefAvg in vf/c15.py (~40 lines), numpy. Grids that '
             'TensorMesh.__eq__ (allclose) regards as equal are excluded from '
             'the Model route; a 4-ulp sliver envelope is granted where nodes '
             'of the two grids coincide only up to rounding.'},
    {'id': 'C16', 'ref': 'DESIGN.md section 3 C16',
     'technique': 'runtime contract (recording wrapper + postcondition) on '
                  'meshes.origin_and_widths / construct_mesh judged by an '
                  'independent re-implementation of the documented gridding '
                  'rules, under seeded random direction calls, construct_mesh '
                  'calls in all argument formats and Simulation-driven '
                  'estimate_gridding_opts',
     'text': 'Every mesh that automatic gridding returned in the observed '
             'runs had a permitted cell count, positive widths, covered the '
             'survey domain plus the documented buffer, kept generated widths '
             'within max(stretching) (sea-surface allowance included), '
             'honoured centre / vector / sea-surface clauses; every failure '
             'was a RuntimeError.',
     'note': 'Trusted: docstrings of construct_mesh/origin_and_widths as '
             'specification and their re-implementation in vf/c16.py; '
             'RuntimeError accepted without proving that no mesh exists; '
             'Laplace convention pinned.'},
    {'id': 'C17', 'ref': 'DESIGN.md section 3 C17',
     'technique': 'client-boundary monitor on save/load/convert/to_file/'
                  'from_file with an independent canonical-form reference '
                  'model (attribute-level, not to_dict), seeded random '
                  'composition of all registered classes and nested dicts, '
                  'labelled hazard classes, __eq__ and public-result '
                  'observables',
     'text': 'Hundreds (thorough: thousands) of randomly composed payloads '
             'covering every registered class and variant, scalars, arrays '
             'and nested dicts are written and read in h5, npz and json, '
             'converted between all six format pairs and passed through '
             'to_file/from_file; the loaded object must have exactly the same '
             'attribute-level canonical form, compare equal where __eq__ '
             'exists, and give the same misfit/gradient/grid info.',
     'note': 'Trusted: canonical-form extractor in vf/c17.py, numpy/h5py/'
             'json/xarray as storage libraries. Scalars compared by kind and '
             'value only; keys restricted to identifier-like names.'},
    {'id': 'C18', 'ref': 'DESIGN.md section 3 C18',
     'technique': 'runtime monitoring: in-process (and subprocess) CLI runs on '
                  'generated config files with API-boundary wrappers '
                  '(Simulation.__init__/from_file/to_file/compute/clean, '
                  'Survey.select/add_noise, random_noise replay); oracle = '
                  'independently transcribed option table -> expected API '
                  'calls executed on the same files (differential CLI vs API)',
     'text': 'For every documented configuration key and command-line option '
             '(alone, enumerated every run) and for random combinations, '
             'override pairs, unknown options, dry runs and save/load/cache/'
             'clean sequences in all three file formats, the CLI handed '
             'exactly the documented arguments to the API and wrote the same '
             'data, misfit, n_observations and gradient as the equivalent API '
             'calls, rejected every unknown key/option, and computed nothing '
             'in dry runs.',
     'note': 'Trusted: the option table in vf/ref_c18.py (transcribed from '
             'docs/manual/cli.rst and --help, cross-checked against the rst '
             'at run time), the Simulation/Survey API as comparison partner, '
             'recorded-and-replayed random noise.'},
    {'id': 'C19', 'ref': 'DESIGN.md section 3 C19',
     'technique': 'client-boundary monitor on Simulation(layered=True) / '
                  'Model.extract_1d with an independent reference model '
                  '(layer table + direct empymod.bipole call), differential '
                  'across the five extraction methods, finite-difference '
                  'consistency oracle for the layered gradient',
     'text': 'On seeded laterally invariant isotropic/VTI models every '
             'layered datum of all five extraction methods (random ellipse/'
             'merge settings, with/without observed data and NaN gaps) '
             'equalled a direct empymod.bipole call built from the generating '
             'layer table and the documented electrode semantics; extraction '
             'weights were a partition of unity; the layered gradient per '
             'z-cell matched the misfit change under a uniform perturbation.',
     'note': 'Trusted: the pinned empymod as the 1D reference modeller and '
             'the documented semantics of the electrode classes; ~1 % of '
             'runs judged at the measured (reduced) resolution of the '
             'reference; data below ~8 skin depths only.'},
    {'id': 'C20', 'ref': 'DESIGN.md section 3 C20',
     'technique': 'runtime monitor on emg3d.Fourier (constructor, setters, '
                  'interpolate, freq2time) and on empymod.model.tem with '
                  'independent reference models (own not-a-knot log-f cubic '
                  'spline with Lebesgue-scaled tolerance, own PCHIP, '
                  'check_time/tem as reference transform, error bound from '
                  'the extracted linear operator); seeded configurations and '
                  'setter histories',
     'text': 'On every sampled configuration the three frequency groups were '
             'a disjoint cover defined by fmin/fmax, computed frequencies lay '
             'in band, the filled spectrum equalled the independent '
             'spline/PCHIP fill (pass-through, zeros above fmax, constant '
             'real / monotone-to-zero imaginary below fmin) and freq2time '
             'equalled the reference transform of that fill within a derived '
             'bound.',
     'note': 'Trusted: empymod.utils.check_time / empymod.model.tem as the '
             'reference transform, reference models in vf/c20.py (guarded '
             'against scipy). Spectra/times/bands sampled.'},
]
NOT_APPLICABLE = []

# Monitors of the same clause at the Simulation boundary (DESIGN.md 7.2, 9.4)
SIM_LEVEL = {
    'C01': 'Simulations under random histories of compute / misfit / gradient '
           '/ jvec / clean (tol_gradient != tol, in memory and file based): '
           'every stored forward field reported converged is checked with the '
           'same oracle against the forward tolerance the user requested.',
    'C02': 'A second operator (other frequency or Laplace value) built from '
           'the same Model object is compared with the reference as well, and '
           'the model must be left untouched.',
    'C06': 'Families with homogeneous mu_r = 2 and 0.5 are part of the '
           'calibrated set.',
    'C07': 'The base simulation runs in memory or file based, with default or '
           'user-named frequencies, and in 40 % of the multi-pair cases gets '
           'the observations of one source-frequency pair only after a first '
           'gradient (written in place, then clean).',
    'C09': 'For Simulations with receivers of mixed kind, order and '
           'relative/absolute position, the residual source field that is '
           'back-propagated pairs with random probe fields exactly as the '
           'weighted sum of the receiver samplings.',
    'C11': 'Two thirds of the problems use a relaxed tol_gradient; a second '
           'forward run after gradient and J v is a fourth phase of every '
           'configuration.',
    'C12': 'Operations include replacing the model and replacing the observed '
           'data in place (other values, other missing-data pattern), each '
           'followed by clean.',
    'C14': 'Layered-mode Simulations: derived options (default averaging '
           'radius) identical and data equal, up to a measured conditioning '
           'probe, across the six mappings.',
    'C15': 'Simulation.gradient with per-pair computational grids of equal '
           'shape equals the sum over pairs of the reference transpose of '
           'that pair applied to the cell-averaged field product.',
    'C16': 'At the user level (repr / html / print_grid_info / get_grid '
           'first) the sea surface of every mesh handed over is a node or a '
           'warning has reached the caller.',
    'C17': 'Computed simulations are saved in forward, misfit and gradient '
           'state, with tol_gradient different from tol.',
}
for _c in CHECKS:
    if _c['id'] in SIM_LEVEL:
        _c['text'] = _c['text'] + ' ' + SIM_LEVEL[_c['id']]
