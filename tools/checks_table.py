"""One row per claimed property (source of MANIFEST.json)."""
CHECKS = [
    {'id': 'C01', 'ref': 'DESIGN.md section 3 C01',
     'technique': 'runtime monitoring at the client boundary of emg3d.solve/'
                  'solve_source: residual of the returned (or in-place '
                  'updated) field recomputed with an independently assembled '
                  'operator; status read from info dict, stdout and a wrapped '
                  'MGParameters; NUMBA_BOUNDSCHECK sanitizer build (thorough)',
     'text': 'Thousands of real solves over random grids, models, sources and '
             'solver configurations; for each the implication success => '
             'residual below tol (and its contrapositive), PEC zeros, dtype, '
             'return protocol and the reported error figures are judged by an '
             'oracle that shares no code with the solver. Held on the '
             'executions observed (both sides of the implication populated).',
     'note': 'Trusted: vf/refop.py (tied to the kernel by C02), numpy/scipy. '
             'tol >= 1e-10; sources touching the outermost cells excluded as '
             'in the property.'},
    {'id': 'C03', 'ref': 'DESIGN.md section 3 C03',
     'technique': 'runtime monitoring of solver.smoothing and the four '
                  'Gauss-Seidel kernels (compiled and py_func) with a '
                  'reference-operator oracle: fixed point, searched last-block '
                  'exactness, affinity, boundary sentinels, kernel-selection '
                  'wrappers; recorded banded systems vs dense solve; '
                  'NUMBA_BOUNDSCHECK build (thorough)',
     'text': 'Each smoother variant is executed on thousands of random small '
             'systems with a known exact solution and judged against the '
             'independently assembled operator; every banded system the real '
             'line smoothers build (captured in py_func mode) and random ones '
             'are re-solved densely. Held on the executions observed.',
     'note': 'Trusted: vf/refop.py, numpy.linalg.solve. Tolerances are '
             'rounding bounds scaled with a conditioning proxy (eps*kappa), '
             'so ill-conditioned cases are judged less sharply.'},
    {'id': 'C04', 'ref': 'DESIGN.md section 3 C04',
     'technique': 'runtime monitoring: complete fine/coarse edge bases pushed '
                  'through solver.restriction/prolongation for all 7 '
                  'patterns, compared with each other and with 1-D reference '
                  'interpolation weights; in-situ adjoint probes and '
                  'conservation sums on every level of live solves',
     'text': 'R and P are extracted column by column from the real functions '
             '(linear maps: complete per sampled grid) and the transpose, '
             'additivity, boundary, weight and conservation clauses are '
             'checked exactly or to a derived rounding bound; wrappers repeat '
             'the adjoint/conservation test on the grids live solves visit.',
     'note': 'Trusted: own 1-D linear interpolation weights. Grids sampled '
             '(coarsened directions 4..12, others 2..7).'},
    {'id': 'C05', 'ref': 'DESIGN.md section 3 C05',
     'technique': 'online trace checker: wrappers on multigrid/smoothing/'
                  'restriction/prolongation/_terminate and the smoother '
                  'kernels record the ordered event trace of real solver '
                  'control code (skeleton mode with no-op kernels and full '
                  'mode), compared event by event with a textbook V/W/F '
                  'schedule; verb=5 log and level_all as second channel',
     'text': 'The trace of every run must equal the finite reference schedule '
             '(termination as bounded progress), including coarsening '
             'arithmetic, kernel selection and direction cycling. Thorough '
             'tier enumerates all shapes in {2..40}^3 (configurations sampled '
             'per shape) and all single-direction sizes to 1024.',
     'note': 'Skeleton mode trusts that kernels influence control flow only '
             'through the residual norm; full mode samples that. '
             'Configuration product is sampled, not exhaustive.'},
    {'id': 'C02', 'ref': 'DESIGN.md section 3 C02',
     'technique': 'runtime monitoring: full edge-basis extraction through the '
                  'live amat_x kernel (compiled and py_func) compared with an '
                  'independently assembled sparse FIT operator; '
                  'NUMBA_BOUNDSCHECK sanitizer build',
     'text': 'Every column of the matrix-free operator is observed on every '
             'sampled grid/model (the map is linear, so the basis enumeration '
             'is complete per grid) and compared entry by entry with an '
             'independent assembly; held on the grids/models executed, which '
             'include all shapes 2..5 per direction.',
     'note': 'Trusted: vf/refop.py (cross-checked against discretize), '
             'scipy.constants, numpy/scipy. Grids beyond 5 cells sampled.'},
    {'id': 'C14', 'ref': 'DESIGN.md section 3 C14',
     'technique': 'runtime monitoring at the client boundary with reference '
                  'models: own six property maps + complex-step derivative '
                  '(Map* calls), closed-form eta/zeta from widths and sigma '
                  '(VolumeModel), enumerated validation contract (Model '
                  'constructor/setters), independent FIT residual + sextuple '
                  'agreement (emg3d.solve, Simulation data and gradient)',
     'text': 'For thousands of conductivity models over twelve decades '
             'expressed in all six mappings the solver coefficients equal '
             'those computed independently from sigma (1e-13), every Map* '
             'call matches an independent model, every invalid value of a '
             'complete enumeration is rejected at construction and on '
             'assignment, and for sextuples of real solves fields, data and '
             'chain-ruled gradients agree across mappings.',
     'note': 'Trusted: reference maps in vf/c14.py (guarded by central '
             'differences), vf/refop.py, scipy.constants. The 100*tol '
             'agreement bound for fields/data/gradients is calibrated; '
             'automatic gridding and extract_1d are not exercised here.'},
]
NOT_APPLICABLE = []
