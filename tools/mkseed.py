#!/venv/bin/python
"""Prepare scratch worktrees + prompts for independent 'seeded breakage' sub-agents.

Usage: tools/mkseed.py C01 C03 ...   (worktrees under /tmp/seed/<id>, prompts /tmp/seed/<id>.prompt)
The prompt contains only the property text - nothing from /verif.
"""
import json
import os
import shutil
import subprocess
import sys

T = '''You are a software engineer asked to produce ONE realistic, subtle regression ("seeded defect") in the Python package emsig/emg3d, for the purpose of evaluating a verification effort you know nothing about. You work ONLY inside the scratch git worktree {wt} (a checkout of the repository). Do not read, list or use anything under /verif, /repo or /root/.vp; do not use the network.

Environment: run Python as `cd {wt} && PYTHONPATH={wt} /venv/bin/python ...` (the PYTHONPATH is essential: without it `import emg3d` resolves to a different copy). Check with `PYTHONPATH={wt} /venv/bin/python -c "import emg3d; print(emg3d.__file__)"`. The test suite runs with `cd {wt} && PYTHONPATH={wt} /venv/bin/python -m pytest -q -p no:cacheprovider --timeout=900 tests/<file>.py` (the whole suite takes 10+ minutes; two tests named test_main*[subprocess] fail in this sandbox regardless, and tests/test_cli.py::TestRun::test_expand only passes when the whole file tests/test_cli.py is run in order - ignore those). Set NUMBA_CACHE_DIR={wt}/.nbcache in your commands so compiled kernels are cached per worktree.

The property your change must BREAK (a behavioural guarantee users rely on):

  id: {id}
  title: {title}
  statement: {statement}
  it is meant to hold: {quant}

Your task
 1. Read the relevant emg3d source ({files}) and its tests.
 2. Design a change to the emg3d source (NOT the tests) that violates the property for SOME inputs / configurations / histories / schedules, but
      - still imports, compiles (numba) and runs,
      - leaves the existing test suite passing (run at least every test file that touches the code you changed; ideally the full suite),
      - looks like a plausible refactoring, optimisation, clean-up or "small fix" a real contributor might make (no sabotage markers, no comments announcing the bug, no giveaway names),
      - needs something SPECIFIC to manifest: a particular interleaving or completion order, a fault at a particular point, a multi-step sequence of operations, an unusual-but-valid input (shape, parity, boundary position, option combination, anisotropy case, dtype, mapping, ...), or two cooperating sites that each look fine alone. It must NOT be something that ordinary use or the obvious default call would expose at once, and it must not be detectable merely because results change by rounding.
 3. Write a demonstration: a small stand-alone script `demo.py` (or pytest file `demo_test.py`) that FAILS (non-zero exit / failing assert) with your change applied and PASSES on the unmodified worktree. It must exercise the real emg3d API and assert the property on the specific triggering input. Verify both directions yourself (`git diff > /tmp/x.diff; git checkout .; run; git apply /tmp/x.diff; run`).
 4. Deliver into the directory {out} (create it):
      - patch.diff   : `git diff` of your change (paths relative to the repo root, applies with `git apply`),
      - demo.py or demo_test.py,
      - notes.md     : what the change does, why it breaks the property, exactly what is needed for it to manifest (the trigger), which existing tests you ran and their result, and the exact commands to see the demo fail/pass.
    Leave the worktree clean (`git checkout .`) when you are done; do not commit.
 5. Your final message: a short summary (what, trigger, tests run, demo commands).

Quality bar: the subtler and more realistic, the better - think of an off-by-one that only matters for odd sizes, a cache that is not invalidated on one path, a result keyed by the wrong index only when tasks finish out of order, a boundary case handled by the wrong branch, a flag that is honoured by one code path and not by another. One change (it may touch two places). Keep the diff small (< 40 changed lines).'''

props = {}
for line in open('/verif/properties.jsonl'):
    p = json.loads(line)
    props[p['id']] = p
os.makedirs('/tmp/seed', exist_ok=True)
WAVE2 = '''

Additional requirement for this round: another engineer has already produced one seeded defect for this property (you do not know which). To maximise diversity, prefer a mechanism that is NOT the first thing that comes to mind: e.g. a defect in a helper / secondary code path (a different file than the most obvious one), an interaction between two options, state that leaks between calls or objects, an input format variant, a boundary between two regimes (first/last index, exactly-equal comparison, empty or single-element collections), or an error path that now returns silently. The same rules apply (tests must still pass, demo must fail/pass).'''
WAVE3 = '''

Additional requirement for this round: two other engineers have already produced seeded defects for this property (you do not know which). Choose a defect that only manifests through an INTERACTION of the code behind this property with another feature of the package - for instance file-based execution (file_dir), copies / reloaded objects, layered mode, automatic gridding, the CLI, noise settings, relative receivers, magnetic sources/receivers, a particular anisotropy case, the Laplace domain, mu_r / epsilon_r, user-named (dict) sources/receivers/frequencies, verbosity / logging options, or reuse of one object for several calls. Avoid the most direct code path. The same rules apply (tests must still pass, demo must fail/pass).'''
for pid in sys.argv[1:]:
    tag = pid
    base = pid.split('-')[0]
    wt = f'/tmp/seed/{tag}'
    if os.path.exists(wt):
        subprocess.run(['git', '-C', '/repo', 'worktree', 'remove', '--force', wt])
        shutil.rmtree(wt, ignore_errors=True)
    subprocess.run(['git', '-C', '/repo', 'worktree', 'add', '-q', '--detach', wt, 'HEAD'], check=True)
    shutil.copy('/repo/emg3d/version.py', f'{wt}/emg3d/version.py')
    p = props[base]
    open(f'/tmp/seed/{tag}.prompt', 'w').write(T.format(
        wt=wt, out=f'/tmp/seed/{tag}.out', id=p['id'], title=p['title'],
        statement=p['statement'], quant=p['quantifier']['text'],
        files=', '.join(p['anchors']['files'])) + (WAVE3 if pid.endswith('-w3') else WAVE2 if '-' in pid else ''))
    print('prepared', wt)
