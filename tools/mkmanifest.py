#!/venv/bin/python
"""Regenerate MANIFEST.json from the table below (keeps it valid at all times)."""
import json
import os
import sys
HERE = os.path.dirname(os.path.dirname(os.path.abspath(__file__)))
sys.path.insert(0, HERE)
from tools.checks_table import CHECKS, NOT_APPLICABLE  # noqa

man = {
    "version": 1,
    "setup_cmd": "./setup.sh",
    "hooks": {
        "guard": "EMG3D_VERIF",
        "enable": "no source hooks: monitors attach from the harness by "
                  "wrapping module attributes of the emg3d imported from "
                  "/repo's working tree (PYTHONPATH=/repo); EMG3D_VERIF=1 is "
                  "set in the worker environment only",
        "baseline_off_cmd": "cd /repo && /venv/bin/python -m pytest -ra -q -p "
                            "no:cacheprovider --timeout=900 "
                            "--continue-on-collection-errors",
        "source_commits": [],
        "add_only": True,
    },
    "engines": [{
        "name": "vf", "path": "vf/",
        "serves_properties": [c['id'] for c in CHECKS],
        "kind_free_text": "runtime monitors + reference-model oracles over "
                          "generated workloads, run in worker subprocesses; "
                          "NUMBA_BOUNDSCHECK=1 sanitizer build in thorough "
                          "tiers",
    }],
    "checks": [],
    "not_applicable": NOT_APPLICABLE + [
        {"property_id": f"C{i:02d}", "reason": "check not built yet (work in "
         "progress; runtime monitoring applies, see DESIGN.md)"}
        for i in range(1, 21)
        if f"C{i:02d}" not in [c['id'] for c in CHECKS]
        and f"C{i:02d}" not in [n['property_id'] for n in NOT_APPLICABLE]],
    "notes": "See DESIGN.md. Exit codes: 0 held on everything observed, 1 "
             "violation (VIOLATION line + replay file), 2 inconclusive "
             "(monitor not reached / watchdog). KNOWN_FINDINGS.txt lists "
             "recorded defects by mechanism key.",
}
for c in CHECKS:
    man["checks"].append({
        "property_id": c['id'],
        "quick_cmd": f"./check {c['id']} --tier quick",
        "thorough_cmd": f"./check {c['id']} --tier thorough",
        "evidence_file": f"evidence/{c['id']}.json",
        "replay_cmd_template": f"./check {c['id']} --replay {{path}}",
        "engine": "vf",
        "level_claimed": {"category": "exploration", "text": c['text'],
                          "design_ref": c['ref']},
        "level_note": c['note'],
        "technique": c['technique'],
    })
with open(os.path.join(HERE, 'MANIFEST.json'), 'w') as f:
    json.dump(man, f, indent=1)
    f.write('\n')
import subprocess  # noqa
subprocess.run(['python3-vt', '-c', (
    "import json,jsonschema;"
    "jsonschema.validate(json.load(open('%s/MANIFEST.json')),"
    "json.load(open('/root/.vp/MANIFEST.schema.json')))" % HERE)], check=True)
print('MANIFEST.json written,', len(CHECKS), 'checks')
