#!/bin/bash
# tools/recheck_seeds.sh <seed id> ...   e.g. C05 C05-w2 C05-w3
# Re-runs the quick check of the seed's property against a scratch copy of /repo with
# seeded/<id>/patch.diff applied (the demo is not repeated) and prints CAUGHT / MISSED(rc).
cd "$(dirname "$(readlink -f "$0")")/.." || exit 2
for id in "$@"; do
  prop=${id%%-*}
  d=$(mktemp -d /tmp/vf-reseed-XXXXXX)
  rsync -a --exclude .git --exclude __pycache__ --exclude docs /repo/ "$d/"
  if ! (cd "$d" && patch -p1 -s < "$OLDPWD/seeded/$id/patch.diff") >/dev/null 2>&1; then
    echo "PATCH-FAILED $id"; rm -rf "$d"; continue; fi
  VERIF_REPO="$d" VERIF_NPROC=${VERIF_NPROC:-5} ./check "$prop" --tier quick > "$d/check.log" 2>&1; rc=$?
  keys=$(grep -o 'key=[^ ]*' "$d/check.log" | sort -u | tr '\n' ' ')
  if [ $rc -eq 1 ]; then echo "CAUGHT   $id  $keys"; else echo "MISSED($rc) $id"; fi
  rm -rf "$d"
done
