#!/bin/bash
# tools/tryseed.sh <dir with patch.diff + demo(.py|_test.py)> <Cxx> [tier] [--suite]
# Confirms a seeded change in a scratch copy of /repo (never in /repo itself, other jobs
# read it concurrently): patch applies, demo fails with it / passes without, optionally the
# pinned suite still passes, then runs the property's check against the copy.
cd "$(dirname "$(readlink -f "$0")")/.." || exit 2
dir="$1"; prop="$2"; tier="${3:-quick}"; suite="$4"
d=$(mktemp -d /tmp/vf-seed-XXXXXX)
rsync -a --exclude .git --exclude __pycache__ --exclude docs /repo/ "$d/"
if ! (cd "$d" && patch -p1 -s < "$dir/patch.diff"); then echo "PATCH-FAILED"; rm -rf "$d"; exit 3; fi
demo=$(ls "$dir"/demo.py "$dir"/demo_test.py 2>/dev/null | head -1)
run_demo() { # $1 = repo root
  if [[ "$demo" == *_test.py ]]; then (cd "$1" && PYTHONPATH="$1" NUMBA_CACHE_DIR="$d/.nbcache" /venv/bin/python -m pytest -q -p no:cacheprovider "$demo" >/dev/null 2>&1)
  else (cd "$1" && PYTHONPATH="$1" NUMBA_CACHE_DIR="$d/.nbcache" /venv/bin/python "$demo" >/dev/null 2>&1); fi; echo $?; }
echo "demo on unchanged /repo : exit $(run_demo /repo)   (expected 0)"
echo "demo on changed copy    : exit $(run_demo "$d")   (expected != 0)"
if [ "$suite" == "--suite" ]; then
  (cd "$d" && PYTHONPATH="$d" NUMBA_CACHE_DIR="$d/.nbcache" /venv/bin/python -m pytest -q -p no:cacheprovider --timeout=900 -x --deselect "tests/test_cli.py::test_main" --deselect "tests/test_cli.py::test_main2" 2>&1 | tail -2)
fi
VERIF_REPO="$d" VERIF_NPROC=${VERIF_NPROC:-6} ./check "$prop" --tier "$tier" > "$d/check.log" 2>&1; rc=$?
grep -E "^VIOLATION|^  key=|^KNOWN|^INCONCL|^\[$prop\] tier" "$d/check.log" | cut -c1-400
echo "check exit: $rc"
rm -rf "$d"
