#!/bin/bash
# tools/seedpipe.sh <tag> ...  e.g. C05-w2 : try seeded change /tmp/seed/<tag>.out against the quick check of its property
cd "$(dirname "$(readlink -f "$0")")/.." || exit 2
for tag in "$@"; do
  prop=${tag%%-*}
  echo "##### $tag"
  VERIF_NPROC=${VERIF_NPROC:-5} tools/tryseed.sh /tmp/seed/$tag.out $prop quick
done
