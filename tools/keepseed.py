#!/venv/bin/python
"""tools/keepseed.py <id> <src dir> '<json meta fragment>' - keep a confirmed seeded change under seeded/<id>/."""
import json, os, shutil, sys
pid, src, frag = sys.argv[1], sys.argv[2], json.loads(sys.argv[3])
dst = f'/verif/seeded/{pid}'
os.makedirs(dst, exist_ok=True)
for f in ('patch.diff', 'demo.py', 'demo_test.py', 'notes.md'):
    if os.path.exists(f'{src}/{f}'):
        shutil.copy(f'{src}/{f}', f'{dst}/{f}')
meta = {'property': pid.split('-')[0], 'origin': 'independent sub-agent given only the property text and a scratch worktree'}
meta.update(frag)
json.dump(meta, open(f'{dst}/meta.json', 'w'), indent=1)
print('kept', dst)
