#!/venv/bin/python
"""tools/suite_seed.py <id> ... : run the pinned test suite against /repo + seeded/<id>/patch.diff
(in a scratch copy) and record in seeded/<id>/suite.txt how many of BASELINE's stable_pass tests pass."""
import json, os, shutil, subprocess, sys, tempfile, xml.etree.ElementTree as ET
base = json.load(open('/root/.vp/BASELINE.json'))
want = set(base['stable_pass'])
for pid in sys.argv[1:]:
    d = tempfile.mkdtemp(prefix='vf-suite-')
    subprocess.run(['rsync', '-a', '--exclude', '.git', '--exclude', '__pycache__', '--exclude', 'docs', '/repo/', d + '/'], check=True)
    r = subprocess.run(['patch', '-p1', '-s', '-i', f'/verif/seeded/{pid}/patch.diff'], cwd=d)
    if r.returncode:
        open(f'/verif/seeded/{pid}/suite.txt', 'w').write('patch failed\n'); shutil.rmtree(d); continue
    xml = d + '/junit.xml'
    env = dict(os.environ, PYTHONPATH=d, NUMBA_CACHE_DIR=d + '/.nbcache')
    env.pop('EMG3D_VERIF', None)
    subprocess.run(['/venv/bin/python', '-m', 'pytest', '-q', '-p', 'no:cacheprovider', '--timeout=900',
                    '--continue-on-collection-errors', f'--junitxml={xml}'], cwd=d, env=env,
                   stdout=subprocess.DEVNULL, stderr=subprocess.DEVNULL)
    passed = set()
    for tc in ET.parse(xml).getroot().iter('testcase'):
        if not any(ch.tag in ('failure', 'error', 'skipped') for ch in tc):
            passed.add(f"{tc.get('classname')}::{tc.get('name')}")
    missing = sorted(want - passed)
    msg = (f"pinned suite with seeded/{pid}/patch.diff applied to /repo HEAD (scratch copy): "
           f"{len(want & passed)} of {len(want)} stable_pass tests pass; not passing: {missing}\n")
    open(f'/verif/seeded/{pid}/suite.txt', 'w').write(msg)
    print(pid, msg.strip()[-120:], flush=True)
    shutil.rmtree(d, ignore_errors=True)
