"""R1 - independent finite-integration operator (DESIGN section 2).

Assembled with Kronecker products of 1-D difference/averaging matrices from
cell widths and per-cell material arrays only.  Shares no code with
emg3d.core / emg3d.models.  Field ordering follows emg3d.fields.Field:
[ex (nx,ny+1,nz+1), ey (nx+1,ny,nz+1), ez (nx+1,ny+1,nz)], each raveled in
Fortran order (x fastest).

    A = De G^T Df^-1 Mf Df^-1 G De  +  s mu0 Me

with G the edge->face incidence matrix, De/Df edge lengths / face areas,
Mf the two-cell face average of V/mu_r and Me the four-cell edge average of
V (sigma_dir + s eps0 eps_r).  The residual of emg3d is  r = s_field - A e  on
interior edges (tangential boundary edges carry no equation: PEC).
"""
import numpy as np
import scipy.sparse as sp
from scipy.constants import mu_0, epsilon_0


def _D(n):
    """nodes(n+1) -> cells(n): v[i+1]-v[i]."""
    return sp.diags([-np.ones(n), np.ones(n)], [0, 1], shape=(n, n+1),
                    format='csr')


def _Av(n):
    """cells(n) -> nodes(n+1): mean of the two neighbours (one at the ends)."""
    A = sp.lil_matrix((n+1, n))
    for i in range(n+1):
        if i == 0:
            A[i, 0] = 1.0
        elif i == n:
            A[i, n-1] = 1.0
        else:
            A[i, i-1] = 0.5
            A[i, i] = 0.5
    return A.tocsr()


def _I(n):
    return sp.identity(n, format='csr')


def _k3(az, ay, ax):
    return sp.kron(az, sp.kron(ay, ax, format='csr'), format='csr')


def sval(frequency):
    """Laplace parameter: s = 2 i pi f (f>0) or s = -f (f<0)."""
    if frequency > 0:
        return 2j*np.pi*frequency
    return float(-frequency)


class RefOp:
    """Reference operator for one grid / model / Laplace parameter."""

    def __init__(self, hx, hy, hz, sigx, sigy, sigz, s, mu_r=None, eps_r=None,
                 volume_arrays=None):
        hx, hy, hz = (np.asarray(h, dtype=float) for h in (hx, hy, hz))
        nx, ny, nz = len(hx), len(hy), len(hz)
        self.shape = (nx, ny, nz)
        self.s = s
        shp = (nx, ny, nz)

        def cell(a):
            return np.broadcast_to(np.asarray(a, dtype=float), shp)

        V = hx[:, None, None]*hy[None, :, None]*hz[None, None, :]
        if volume_arrays is not None:
            # Level operator given directly by volume-integrated coefficients
            # (as a multigrid level holds them): zeta = V/mu_r and
            # eta_d = -s mu0 V (sigma_d + s eps); then s mu0 Me = -avg(eta).
            Z = np.asarray(volume_arrays['zeta'], dtype=float)
            vx, vy, vz = (-np.asarray(volume_arrays[k])/(s*mu_0)
                          for k in ('eta_x', 'eta_y', 'eta_z'))
            V = 1.0
            sigx, sigy, sigz = vx, vy, vz
            disp = 0.0

            def cell(a):          # noqa - keep complex values
                return np.broadcast_to(np.asarray(a), shp)
        else:
            Z = V if mu_r is None else V/cell(mu_r)
            disp = 0.0 if eps_r is None else s*epsilon_0*cell(eps_r)

        self.nex = nx*(ny+1)*(nz+1)
        self.ney = (nx+1)*ny*(nz+1)
        self.nez = (nx+1)*(ny+1)*nz
        self.n = self.nex + self.ney + self.nez

        Dx, Dy, Dz = _D(nx), _D(ny), _D(nz)
        Icx, Icy, Icz = _I(nx), _I(ny), _I(nz)
        Inx, Iny, Inz = _I(nx+1), _I(ny+1), _I(nz+1)
        Ax, Ay, Az = _Av(nx), _Av(ny), _Av(nz)

        # incidence G (faces x edges); blocks [fx; fy; fz] x [ex, ey, ez]
        G = sp.bmat([
            [None, -_k3(Dz, Icy, Inx), _k3(Icz, Dy, Inx)],
            [_k3(Dz, Iny, Icx), None, -_k3(Icz, Iny, Dx)],
            [-_k3(Inz, Dy, Icx), _k3(Inz, Icy, Dx), None],
        ], format='csr')

        def rav(a):
            return np.asarray(a).ravel(order='F')

        one = np.ones
        # edge lengths
        le = np.r_[rav(hx[:, None, None]*one((nx, ny+1, nz+1))),
                   rav(hy[None, :, None]*one((nx+1, ny, nz+1))),
                   rav(hz[None, None, :]*one((nx+1, ny+1, nz)))]
        # face areas
        af = np.r_[rav(hy[None, :, None]*hz[None, None, :]*one((nx+1, ny, nz))),
                   rav(hx[:, None, None]*hz[None, None, :]*one((nx, ny+1, nz))),
                   rav(hx[:, None, None]*hy[None, :, None]*one((nx, ny, nz+1)))]
        # face average of Z (two cells across the face)
        zc = rav(Z)
        mf = np.r_[_k3(Icz, Icy, Ax) @ zc,
                   _k3(Icz, Ay, Icx) @ zc,
                   _k3(Az, Icy, Icx) @ zc]
        # edge average of V*(sigma_dir + s eps) (four cells around the edge)
        me = np.r_[_k3(Az, Ay, Icx) @ rav(V*(cell(sigx) + disp)),
                   _k3(Az, Icy, Ax) @ rav(V*(cell(sigy) + disp)),
                   _k3(Icz, Ay, Ax) @ rav(V*(cell(sigz) + disp))]

        self.le, self.af, self.mf = le, af, mf
        De = sp.diags(le)
        curl = sp.diags(1.0/af) @ G @ De           # circulation / area
        self.C = (curl.T @ sp.diags(mf) @ curl).tocsr()
        self.Me = me
        self.A = (self.C + sp.diags(s*mu_0*me)).tocsr()
        self.curl = curl
        self.G = G

        # interior (non-PEC) edge mask
        mx = np.zeros((nx, ny+1, nz+1), bool)
        mx[:, 1:-1, 1:-1] = True
        my = np.zeros((nx+1, ny, nz+1), bool)
        my[1:-1, :, 1:-1] = True
        mz = np.zeros((nx+1, ny+1, nz), bool)
        mz[1:-1, 1:-1, :] = True
        self.interior = np.r_[rav(mx), rav(my), rav(mz)]

    def residual(self, sfield, efield):
        """r = s - A e on interior edges, r = s on boundary edges."""
        r = np.array(sfield, dtype=complex if (np.iscomplexobj(sfield) or
                     np.iscomplexobj(efield) or np.iscomplexobj(self.s))
                     else float)
        ae = self.A @ efield
        r[self.interior] -= ae[self.interior]
        return r

    def grad_nodes(self):
        """Discrete gradient: nodes -> edges (differences, no lengths)."""
        nx, ny, nz = self.shape
        return sp.vstack([
            _k3(_I(nz+1), _I(ny+1), _D(nx)),
            _k3(_I(nz+1), _D(ny), _I(nx+1)),
            _k3(_D(nz), _I(ny+1), _I(nx+1)),
        ], format='csr')


def conductivity(prop, mapping):
    """My own inverse maps (not emg3d.maps)."""
    p = np.asarray(prop, dtype=float)
    if mapping == 'Conductivity':
        return p
    if mapping == 'Resistivity':
        return 1.0/p
    if mapping == 'LgConductivity':
        return 10.0**p
    if mapping == 'LgResistivity':
        return 10.0**(-p)
    if mapping == 'LnConductivity':
        return np.exp(p)
    if mapping == 'LnResistivity':
        return np.exp(-p)
    raise ValueError(mapping)


def from_conductivity(sig, mapping):
    s = np.asarray(sig, dtype=float)
    return {'Conductivity': lambda: s, 'Resistivity': lambda: 1.0/s,
            'LgConductivity': lambda: np.log10(s),
            'LgResistivity': lambda: -np.log10(s),
            'LnConductivity': lambda: np.log(s),
            'LnResistivity': lambda: -np.log(s)}[mapping]()
