"""C03 - every smoother is a consistent relaxation of the same linear system.

Monitors: calls of solver.smoothing and of the four Gauss-Seidel kernels
(compiled and .py_func), every (amat, bvec) pair handed to core.solve by the
line smoothers (recorded through the patched module attribute in .py_func
mode) and direct calls of core.solve.  Oracle: vf.refop (R1) + dense
numpy.linalg.solve for the banded systems.
"""
import numpy as np
from vf import common, gen

PROP = 'C03'
NEEDS_JIT = True
TIMEOUT = {'quick': 1200, 'thorough': 3400}
RULE = ("random grids with 2..6 (some to 10) cells per direction, stretching "
        "<= 2 per cell, sigma contrast <= 1e4, four anisotropy cases, mu_r, "
        "real and complex, every line-relaxation code 0..7 and nu 1..4; per "
        "case: fixed point, last-block exactness (block searched, not "
        "assumed), affinity, boundary sentinels, kernel selection, compiled "
        "vs py_func; banded solver on random 11-diagonal complex-symmetric "
        "systems n=1..80 and on all systems captured from the real line "
        "smoothers; distinct = (shape class, lr code, nu parity, dtype, case)")
ASSUMPTIONS = [
    "vf/refop.py defines 'the same linear system' (tied to amat_x by C02)",
    "fixed-point / block-residual thresholds: 1e-9 / 1e-10 relative "
    "(measured worst on the pinned tree are printed as margins)",
    "py_func runs only on tiny grids (pure Python loops)",
]
LRSET = {0: (), 1: (0,), 2: (1,), 3: (2,), 4: (1, 2), 5: (0, 2), 6: (0, 1),
         7: (0, 1, 2)}
TAU_FIX = 1e-9
TAU_BLK = 1e-10


def plan(tier, seed):
    if tier == 'quick':
        b = [{'id': f's{k}', 'mode': 'smooth', 'k': k, 'n': 40}
             for k in range(48)]
        b += [{'id': f'p{k}', 'mode': 'pyfunc', 'k': k, 'n': 6}
              for k in range(16)]
        b += [{'id': f'b{k}', 'mode': 'banded', 'k': k, 'n': 400}
              for k in range(8)]
        b += [{'id': f'i{k}', 'mode': 'insitu', 'k': k, 'n': 5}
              for k in range(8)]
        return b
    b = [{'id': f's{k}', 'mode': 'smooth', 'k': k, 'n': 220}
         for k in range(180)]
    b += [{'id': f'p{k}', 'mode': 'pyfunc', 'k': k, 'n': 20}
          for k in range(48)]
    b += [{'id': f'b{k}', 'mode': 'banded', 'k': k, 'n': 3000}
          for k in range(16)]
    b += [{'id': f'bc{k}', 'mode': 'smooth', 'k': 7000+k, 'n': 60,
           'boundscheck': True} for k in range(16)]
    b += [{'id': f'bcb{k}', 'mode': 'banded', 'k': 7100+k, 'n': 300,
           'boundscheck': True} for k in range(4)]
    b += [{'id': f'i{k}', 'mode': 'insitu', 'k': k, 'n': 16}
          for k in range(48)]
    b += [{'id': f'bci{k}', 'mode': 'insitu', 'k': 7200+k, 'n': 5,
           'boundscheck': True} for k in range(8)]
    return b


# -------------------------------------------------------------- helpers
def gen_problem(r, big=False):
    sizes = [2, 3, 3, 4, 4, 5, 5, 6] + ([7, 8, 10] if big else [])
    shape = tuple(int(gen.choice(r, sizes)) for _ in range(3))

    def w(n):
        kind = gen.choice(r, ['uniform', 'ratio2', 'jitter'])
        if kind == 'uniform':
            h = np.ones(n)
        elif kind == 'ratio2':
            h = np.cumprod(r.uniform(0.5, 2, n))
        else:
            h = r.uniform(0.5, 2.0, n)
        return h*10.0**r.uniform(0, 2.5)
    base = 10.0**r.uniform(0, 2.5)
    gs = {'hx': w(shape[0])*0+w(shape[0]), 'hy': w(shape[1]),
          'hz': w(shape[2]), 'origin': [0.0, 0.0, 0.0]}
    _ = base
    ms = gen.model_spec(r, shape, decades=gen.choice(r, [0, 2, 4]), eps=False)
    freq = gen.frequency(r)
    return shape, gs, ms, freq


def node_blocks(shape):
    """For every interior node the indices of its six edges."""
    nx, ny, nz = shape
    ex = np.arange(nx*(ny+1)*(nz+1)).reshape((nx, ny+1, nz+1), order='F')
    o = ex.size
    ey = o + np.arange((nx+1)*ny*(nz+1)).reshape((nx+1, ny, nz+1), order='F')
    o += ey.size
    ez = o + np.arange((nx+1)*(ny+1)*nz).reshape((nx+1, ny+1, nz), order='F')
    blocks = {}
    for i in range(1, nx):
        for j in range(1, ny):
            for k in range(1, nz):
                blocks[(i, j, k)] = np.array([
                    ex[i-1, j, k], ex[i, j, k], ey[i, j-1, k], ey[i, j, k],
                    ez[i, j, k-1], ez[i, j, k]])
    return blocks


def line_blocks(shape, d):
    """Blocks of a line smoother along direction d: union over the line."""
    nb = node_blocks(shape)
    out = {}
    for (i, j, k), idx in nb.items():
        key = tuple(v for a, v in enumerate((i, j, k)) if a != d)
        out.setdefault(key, []).append(idx)
    return {k: np.unique(np.concatenate(v)) for k, v in out.items()}


def effective_dirs(lr, shape):
    return tuple(d for d in LRSET[lr] if shape[d] != 2)


def setup(gs, ms, freq):
    import emg3d
    from emg3d import models
    grid, model = gen.build_emg3d(gs, ms)
    ref = gen.build_refop(gs, ms, freq)
    sf = emg3d.Field(grid, frequency=freq)
    vm = models.VolumeModel(model, sf)
    return grid, vm, ref, sf.field.dtype


def kappa(ref):
    """Conditioning proxy: the curl-curl null space (gradients) is only
    regularised by the mass term, so rounding residuals eps*|A||e| are
    amplified by at most ~ max_i sum_j|A_ij| / min_i |s mu0 Me_i|."""
    from scipy.constants import mu_0
    rows = np.asarray(abs(ref.A).sum(axis=1)).ravel()[ref.interior]
    mass = np.abs(ref.s*mu_0*ref.Me)[ref.interior]
    return float(rows.max()/mass.min())


def rtol(kap, floor, cap=1e-5, c=200):
    """Rounding bound c*eps*kappa (never below floor, never above cap)."""
    return float(min(cap, floor + c*np.finfo(float).eps*kap))


def rand_pec(r, ref, dtype, n):
    v = gen.random_field(r, n, dtype == np.complex128).astype(dtype)
    v[~ref.interior] = 0
    return v


def smooth(grid, vm, svec, evec, nu, lr, freq, fn=None):
    """Apply solver.smoothing (or given kernels) and return the new field."""
    import emg3d
    from emg3d import solver
    s = emg3d.Field(grid, data=np.array(svec), frequency=freq)
    e = emg3d.Field(grid, data=np.array(evec), frequency=freq)
    solver.smoothing(vm, s, e, nu, lr)
    return np.array(e.field)


# ---------------------------------------------------------------- checks
def check_smoother(rec, r, tag, big):
    from emg3d import core
    shape, gs, ms, freq = gen_problem(r, big)
    grid, vm, ref, dtype = setup(gs, ms, freq)
    n = grid.n_edges
    lr = int(r.integers(0, 8))
    nu = int(r.integers(1, 5))
    case = {'tag': tag, 'shape': shape, 'lr': lr, 'nu': nu, 'frequency': freq,
            'case': ms['case'], 'mu_r': ms['mu_r'] is not None,
            'grid': gen.summarize_grid(gs)}
    rec.case()
    interior = ref.interior
    if not interior.any():
        rec.event('no_interior')
        return
    A = ref.A
    absA = abs(A)
    kap = kappa(ref)
    case['kappa'] = kap
    tol_fix = rtol(kap, 1e-12)

    # ---- (e) kernel selection, observed through wrappers on core.*
    called = []
    saved = {}
    for name in ('gauss_seidel', 'gauss_seidel_x', 'gauss_seidel_y',
                 'gauss_seidel_z'):
        saved[name] = getattr(core, name)

        def mk(name, orig):
            def k(*a):
                called.append(name)
                return orig(*a)
            return k
        setattr(core, name, mk(name, saved[name]))
    try:
        # ---- (a) fixed point
        estar = rand_pec(r, ref, dtype, n)
        s = np.zeros(n, dtype)
        s[interior] = (A @ estar)[interior]
        out = smooth(grid, vm, s, estar, nu, lr, freq)
    finally:
        for name, f in saved.items():
            setattr(core, name, f)
    rec.event('smoothing_calls')
    dirs = effective_dirs(lr, shape)
    want = (('gauss_seidel',) if not dirs else
            tuple('gauss_seidel_'+'xyz'[d] for d in dirs))
    rec.event('kernel_selection_checks')
    if tuple(called) != want:
        rec.violation('C03:kernel-selection', f'lr={lr} on shape {shape}: '
                      f'kernels {called}, expected {want}', case)
        return
    if not np.all(np.isfinite(out)):
        rec.violation('C03:nonfinite', 'smoother produced non-finite values',
                      case)
        return
    d = float(np.abs(out - estar).max()/np.abs(estar).max())
    rec.margin('fixed_point_rel', d)
    rec.margin('fixed_point_over_eps_kappa', d/(2.2e-16*kap))
    rec.event('fixed_point_checks')
    if tol_fix < 1e-6:
        rec.event('fixed_point_checks_sharp')
    if not (d <= tol_fix):
        rec.violation('C03:exact-solution-not-fixed-point',
                      f'exact solution moved by {d:.3e} (relative) under '
                      f'lr={lr}, nu={nu}, kernels {want}', case)

    # ---- (b) last block exact, sweep direction alternates
    e0 = rand_pec(r, ref, dtype, n)
    s0 = rand_pec(r, ref, dtype, n)*np.abs(A.diagonal()).mean()
    last_d = dirs[-1] if dirs else None
    blocks = node_blocks(shape) if last_d is None else line_blocks(shape,
                                                                   last_d)
    found = {}
    for nn in (nu, nu+1):
        o = smooth(grid, vm, s0, e0, nn, lr, freq)
        res = s0 - A @ o
        scale = float((absA @ np.abs(o) + np.abs(s0)).max())
        best = None
        exact = []
        for key, idx in blocks.items():
            br = float(np.abs(res[idx]).max()/scale)
            if best is None or br < best[1]:
                best = (key, br)
            if br <= TAU_BLK:
                exact.append(key)
        rec.event('last_block_checks')
        rec.margin('best_block_residual_rel', best[1])
        if not exact:
            rec.violation('C03:last-block-not-exact', f'after nu={nn} sweeps '
                          f'(lr={lr}, kernels {want}) no block satisfies its '
                          f'equations: best block {best[0]} residual '
                          f'{best[1]:.3e}', case)
            return
        found[nn] = exact
    # corners of the block index space
    keys = sorted(blocks)
    lo = tuple(min(k[a] for k in keys) for a in range(len(keys[0])))
    hi = tuple(max(k[a] for k in keys) for a in range(len(keys[0])))
    rec.event('sweep_alternation_checks')
    if lo != hi:
        c1 = {k for k in found[nu] if k in (lo, hi)}
        c2 = {k for k in found[nu+1] if k in (lo, hi)}
        ok = ((lo in c1 and hi in c2) or (hi in c1 and lo in c2))
        # forward for odd nu ends at the high corner
        if not ok:
            rec.violation('C03:sweep-direction-not-alternating',
                          f'exact blocks after nu={nu}: {found[nu][:4]}, after '
                          f'nu={nu+1}: {found[nu+1][:4]}; corners {lo}/{hi}',
                          case)
    # ---- (c) affine / linear in (field, source)
    e1, e2 = rand_pec(r, ref, dtype, n), rand_pec(r, ref, dtype, n)
    s1, s2 = s0, rand_pec(r, ref, dtype, n)*np.abs(A.diagonal()).mean()
    al = float(r.uniform(-2, 3))
    be = 1.0 - al
    o1 = smooth(grid, vm, s1, e1, nu, lr, freq)
    o2 = smooth(grid, vm, s2, e2, nu, lr, freq)
    oc = smooth(grid, vm, al*s1+be*s2, al*e1+be*e2, nu, lr, freq)
    wantc = al*o1 + be*o2
    dd = float(np.abs(oc - wantc).max()/max(np.abs(o1).max(),
                                             np.abs(o2).max()))
    rec.margin('affine_rel', dd)
    rec.margin('affine_over_eps_kappa', dd/(2.2e-16*kap))
    rec.event('affine_checks')
    if not (dd <= rtol(kap, 1e-12)):
        rec.violation('C03:not-affine', f'S(a e1+b e2, a s1+b s2) differs '
                      f'from a S(e1,s1)+b S(e2,s2) by {dd:.3e}', case)
    # ---- (d) boundary sentinels
    eb = gen.random_field(r, n, dtype == np.complex128).astype(dtype)
    ob = smooth(grid, vm, s0, eb, nu, lr, freq)
    rec.event('sentinel_checks')
    if not np.array_equal(ob[~interior], eb[~interior]):
        nbad = int(np.count_nonzero(ob[~interior] != eb[~interior]))
        rec.violation('C03:boundary-written', f'{nbad} tangential boundary '
                      f'values changed by lr={lr} kernels {want}', case)
    rec.distinct((tuple(min(s_, 4) for s_ in shape), lr, nu % 2, str(dtype),
                  ms['case']))
    rec.extra_set('lr_codes', [lr])
    rec.extra_set('kernel_sets', ['+'.join(want)])
    rec.sample({'shape': shape, 'lr': lr, 'nu': nu, 'kernels': want,
                'frequency': freq, 'case': ms['case'],
                'exact_block_after_nu': found[nu][:2],
                'exact_block_after_nu_plus_1': found[nu+1][:2],
                'fixed_point_rel': d})


def dense_from_band(amat, n):
    M = np.zeros((n, n), dtype=amat.dtype)
    for j in range(n):
        for i in range(j, min(n, j+6)):
            M[i, j] = amat[i+5*j]
            M[j, i] = amat[i+5*j]
    return M


def check_band_solve(rec, amat, bvec, fn, tag, case):
    n = len(bvec)
    M = dense_from_band(amat, n)
    a2, b2 = amat.copy(), bvec.copy()
    fn(a2, b2)
    want = np.linalg.solve(M, bvec)
    rec.event('banded_solves')
    if not np.all(np.isfinite(b2)):
        rec.violation('C03:banded-solver-wrong', f'{tag}: non-finite solution '
                      f'for n={n}', case)
        return
    cond = np.linalg.cond(M)
    err = float(np.abs(b2 - want).max()/np.abs(want).max())
    rec.margin('banded_rel_err_over_cond_eps', err/(cond*2.2e-16))
    if not (err <= 1e-10 + 100*cond*2.2e-16):
        rec.violation('C03:banded-solver-wrong', f'{tag}: solution differs '
                      f'from dense solve by {err:.3e} (n={n}, cond '
                      f'{cond:.2e})', case)


def run_banded(rec, r, tag):
    from emg3d import core
    n = int(r.integers(1, 81))
    cplx = r.random() < 0.7
    dt = complex if cplx else float
    amat = np.zeros(6*n, dtype=dt)
    for j in range(n):
        for i in range(j, min(n, j+6)):
            v = r.standard_normal() + (1j*r.standard_normal() if cplx else 0)
            if i == j:
                v = (8 + r.random()) * (1 + (0.3j if cplx else 0))
            elif r.random() < 0.2:
                v = 0
            amat[i+5*j] = v
    bvec = (r.standard_normal(n) + (1j*r.standard_normal(n) if cplx else 0)
            ).astype(dt)
    fn = core.solve if r.random() < 0.8 else core.solve.py_func
    rec.case()
    check_band_solve(rec, amat, bvec, fn, tag, {'tag': tag, 'n': n,
                                                'complex': cplx})
    rec.distinct(('band', min(n, 12), cplx))


def run_pyfunc(rec, r, tag):
    """compiled == py_func, and all banded systems of the real smoothers."""
    import emg3d
    from emg3d import core
    shape = tuple(int(gen.choice(r, [2, 3, 3, 4])) for _ in range(3))
    _, gs, ms, freq = gen_problem(r)
    gs = {'hx': gs['hx'][:1].repeat(shape[0])*r.uniform(0.5, 2, shape[0]),
          'hy': gs['hy'][:1].repeat(shape[1])*r.uniform(0.5, 2, shape[1]),
          'hz': gs['hz'][:1].repeat(shape[2])*r.uniform(0.5, 2, shape[2]),
          'origin': [0., 0., 0.]}
    ms = gen.model_spec(r, shape, eps=False)
    grid, vm, ref, dtype = setup(gs, ms, freq)
    n = grid.n_edges
    if not ref.interior.any():
        return
    nu = int(r.integers(1, 4))
    e0 = rand_pec(r, ref, dtype, n)
    s0 = rand_pec(r, ref, dtype, n)*np.abs(ref.A.diagonal()).mean()
    case = {'tag': tag, 'shape': shape, 'nu': nu, 'frequency': freq,
            'case': ms['case'], 'grid': gen.summarize_grid(gs)}
    captured = []
    orig_solve = core.solve

    def rec_solve(amat, bvec):
        a0, b0 = amat.copy(), bvec.copy()
        orig_solve.py_func(amat, bvec)
        captured.append((a0, b0, bvec.copy()))
    for name, d in (('gauss_seidel', None), ('gauss_seidel_x', 0),
                    ('gauss_seidel_y', 1), ('gauss_seidel_z', 2)):
        if d is not None and shape[d] == 2:
            continue
        kern = getattr(core, name)
        outs = []
        for fn in (kern, kern.py_func):
            s = emg3d.Field(grid, data=s0.copy(), frequency=freq)
            e = emg3d.Field(grid, data=e0.copy(), frequency=freq)
            if fn is kern.py_func:
                core.solve = rec_solve
            try:
                fn(e.fx, e.fy, e.fz, s.fx, s.fy, s.fz, vm.eta_x, vm.eta_y,
                   vm.eta_z, vm.zeta, grid.h[0], grid.h[1], grid.h[2], nu)
            finally:
                core.solve = orig_solve
            outs.append(np.array(e.field))
        rec.case()
        rec.event('pyfunc_kernel_runs')
        dd = float(np.abs(outs[0]-outs[1]).max()/np.abs(outs[1]).max())
        rec.margin('jit_vs_pyfunc_rel', dd)
        kap = kappa(ref)
        rec.margin('jit_vs_pyfunc_over_eps_kappa', dd/(2.2e-16*kap))
        if not (dd <= rtol(kap, 1e-13)):
            rec.violation('C03:jit-differs-from-source', f'{name}: compiled '
                          f'and py_func differ by {dd:.3e}', case)
        # py_func result also has an exact last block w.r.t. the reference
        res = s0 - ref.A @ outs[1]
        scale = float((abs(ref.A) @ np.abs(outs[1]) + np.abs(s0)).max())
        blocks = node_blocks(shape) if d is None else line_blocks(shape, d)
        best = min(float(np.abs(res[idx]).max()/scale)
                   for idx in blocks.values())
        rec.event('last_block_checks')
        if not (best <= TAU_BLK):
            rec.violation('C03:last-block-not-exact', f'{name}.py_func: best '
                          f'block residual {best:.3e}', case)
        rec.distinct(('pyfunc', name, shape, str(dtype)))
    # every banded system the real smoothers produced
    for a0, b0, x in captured[:400]:
        check_band_solve(rec, a0, b0, core.solve, 'captured', case)
        rec.event('captured_systems')


def insitu(rec, seed, k, i, tier):
    """Judge every 4th smoothing() call of a live solve on the level it
    happens on: last block exact w.r.t. the operator assembled from the
    level's own coefficients, tangential boundary values untouched."""
    import contextlib
    import io
    import emg3d
    from emg3d import solver
    from vf import refop
    r = gen.rng(seed, 'C03', 'insitu', k, i)
    sizes = [4, 6, 8, 8, 12, 16] if tier == 'quick' else [4, 6, 8, 12, 16, 20,
                                                          24]
    shape = tuple(int(gen.choice(r, sizes)) for _ in range(3))
    gs = gen.grid_spec(r, shape)
    ms = gen.model_spec(r, shape, eps=False)
    freq = gen.frequency(r)
    grid, model = gen.build_emg3d(gs, ms)
    src = (float(np.mean(grid.nodes_x[1:-1])), float(np.mean(grid.nodes_y[1:-1])),
           float(np.mean(grid.nodes_z[1:-1])), 30.0, 20.0)
    sf = emg3d.get_source_field(grid, src, freq)
    kw = {'sslsolver': gen.choice(r, [False, False, True]),
          'semicoarsening': gen.choice(r, [False, True, 1, 2, 3, 123]),
          'linerelaxation': gen.choice(r, [False, True, 1, 2, 3, 4, 5, 6, 7]),
          'cycle': gen.choice(r, ['F', 'V', 'W']), 'maxit': 2, 'verb': -1,
          'nu_pre': int(r.integers(1, 4)), 'nu_post': int(r.integers(1, 4))}
    case = {'k': k, 'i': i, 'shape': shape, 'kw': kw, 'frequency': freq,
            'case': ms['case']}
    orig = solver.smoothing
    state = {'n': 0}

    def w_smoothing(model_, sfield_, efield_, nu, lr_dir):
        state['n'] += 1
        if state['n'] % 4 != 1 or nu < 1:
            return orig(model_, sfield_, efield_, nu, lr_dir)
        lshape = tuple(model_.grid.shape_cells)
        if np.prod(lshape) > 4500:            # keep the level oracle cheap
            return orig(model_, sfield_, efield_, nu, lr_dir)
        e0 = np.array(efield_.field)
        orig(model_, sfield_, efield_, nu, lr_dir)
        e1 = np.array(efield_.field)
        ref = refop.RefOp(*model_.grid.h, None, None, None, 1.0,
                          volume_arrays={'eta_x': model_.eta_x,
                                         'eta_y': model_.eta_y,
                                         'eta_z': model_.eta_z,
                                         'zeta': model_.zeta})
        inn = ref.interior
        rec.event('insitu_smoothing_calls')
        if not np.array_equal(e1[~inn], e0[~inn]):
            rec.violation('C03:boundary-written', f'in situ: smoothing on '
                          f'level grid {lshape} changed tangential boundary '
                          f'values (lr_dir={lr_dir})', case)
            return
        sv = np.array(sfield_.field)
        res = sv - ref.A @ e1
        scale = float((abs(ref.A) @ np.abs(e1) + np.abs(sv)).max()) + 1e-300
        dirs = effective_dirs(int(lr_dir), lshape)
        blocks = (node_blocks(lshape) if not dirs else
                  line_blocks(lshape, dirs[-1]))
        if not blocks:
            return
        best = min(float(np.abs(res[idx]).max()/scale)
                   for idx in blocks.values())
        rec.event('last_block_checks')
        rec.margin('insitu_best_block_residual_rel', best)
        rec.distinct(('insitu', lshape, int(lr_dir), nu % 2, str(e1.dtype)))
        if not (best <= TAU_BLK):
            rec.violation('C03:last-block-not-exact', f'in situ: after '
                          f'smoothing(nu={nu}, lr_dir={lr_dir}) on level grid '
                          f'{lshape} no block satisfies its equations (best '
                          f'{best:.3e})', case)

    solver.smoothing = w_smoothing
    try:
        with contextlib.redirect_stdout(io.StringIO()):
            emg3d.solve(model, sf, **kw)
    finally:
        solver.smoothing = orig
    rec.case()
    rec.event('insitu_solves')


def run_batch(batch):
    rec = common.Rec()
    big = batch['tier'] == 'thorough'
    if batch['mode'] == 'insitu':
        for i in range(batch['n']):
            insitu(rec, batch['seed'], batch['k'], i, batch['tier'])
        return rec.result()
    for i in range(batch['n']):
        r = gen.rng(batch['seed'], 'C03', batch['mode'], batch['k'], i)
        tag = f"{batch['mode']}:{batch['k']}:{i}"
        if batch['mode'] == 'smooth':
            check_smoother(rec, r, tag, big)
        elif batch['mode'] == 'banded':
            run_banded(rec, r, tag)
        else:
            run_pyfunc(rec, r, tag)
    return rec.result()


def finalize(merged, tier):
    common.require_events(merged, {
        'fixed_point_checks': 1000, 'last_block_checks': 2000,
        'affine_checks': 1000, 'sentinel_checks': 1000,
        'banded_solves': 2000, 'captured_systems': 300,
        'pyfunc_kernel_runs': 100, 'sweep_alternation_checks': 1000,
        'insitu_smoothing_calls': 100})
    if len(merged['extra'].get('set:lr_codes', [])) < 8:
        merged['inconclusive'].append({'reason': 'not all lr codes 0..7 seen',
                                       'case': None})
