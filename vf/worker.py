"""Worker subprocess: run one batch of one property, write a JSON result."""
import faulthandler
import importlib
import json
import os
import sys
import traceback

faulthandler.enable()


def bootstrap():
    """Make the repo under test and the contract libraries importable."""
    from vf import common
    deps = str(common.DEPS)
    if deps not in sys.path:
        sys.path.append(deps)       # after site-packages: never shadow /venv
    import emg3d
    here = os.path.realpath(os.path.dirname(emg3d.__file__))
    want = os.path.realpath(str(common.REPO / 'emg3d'))
    if here != want:
        raise RuntimeError(f'emg3d imported from {here}, expected {want}')


def main():
    prop, specf, outf = sys.argv[1:4]
    from vf import common
    batch = json.loads(open(specf).read())
    try:
        bootstrap()
        mod = importlib.import_module('vf.' + prop.lower())
        res = mod.run_batch(batch)
    except BaseException:  # noqa - also KeyboardInterrupt/SystemExit
        res = common.new_result()
        tb = traceback.format_exc()
        key = None
        # An index error escaping a JIT kernel in the bounds-checking build is
        # a finding of the property whose oracle relies on that kernel.
        if batch.get('boundscheck') and 'IndexError' in tb:
            res['violations'].append({
                'key': f'{prop}:boundscheck-indexerror',
                'msg': 'IndexError under NUMBA_BOUNDSCHECK=1: ' + tb[-600:],
                'case': {'batch': batch.get('id')}})
        else:
            res['inconclusive'].append(
                {'reason': 'worker exception: ' + tb[-1500:],
                 'case': {'batch': batch.get('id')}})
    with open(outf + '.tmp', 'w') as f:
        f.write(common.dumps(res))
    os.replace(outf + '.tmp', outf)


if __name__ == '__main__':
    main()
