"""C18 - the command-line interface is equivalent to the Python API.

The real CLI (emg3d.cli.main.main with a patched sys.argv, a few times as a
real ``python -m emg3d`` subprocess) is run on generated configuration files;
wrappers on Simulation / Survey record what the CLI hands to the API.  The
oracle is the table of documented options in vf/ref_c18.py (transcribed from
docs/manual/cli.rst and --help, independent of emg3d.cli): the expected API
calls are built from it, executed on the same files and compared with what
the CLI did and wrote.
"""
import contextlib
import importlib
import io
import logging
import os
import shutil
import subprocess
import sys
import tempfile
import traceback
import warnings
import numpy as np
from vf import common, gen
from vf import ref_c18 as R

PROP = 'C18'
NEEDS_JIT = True
TIMEOUT = {'quick': 3000, 'thorough': 7000}
RULE = ("generated configuration files + command lines on generated 8x8x8 "
        "worlds (1-3 sources, 3-5 receivers, 1-2 frequencies, observed data "
        "with NaNs, six mappings, four anisotropy cases): every documented "
        "key and terminal option alone (enumerated), random combinations, "
        "file-vs-terminal override pairs, unknown keys/options, dry runs, "
        "save/load/cache/clean sequences, h5/npz/json, gridding 'same' and "
        "automatic; distinct = (class, function, dry/real, set of options "
        "given) of runs that reached the API-equivalence oracle")
ASSUMPTIONS = [
    "the specification is the option table in vf/ref_c18.py, transcribed from "
    "docs/manual/cli.rst and `emg3d --help` of the pinned tree (compared "
    "with the rst at run time when the docs directory is present)",
    "emg3d.load/save and Survey/Model/Simulation themselves are the API the "
    "CLI is compared with (their own correctness is C12/C13/C17)",
    "random noise is recorded at emg3d.surveys.random_noise during the CLI "
    "run and replayed in the API run (the generator is unseeded)",
    "arguments the documentation leaves to the CLI (name, verb, tqdm_opts, "
    "receiver_interpolation when not given) are taken from the CLI's call",
    "string values of sslsolver/semicoarsening/linerelaxation, the "
    "deprecated `expand`, undocumented `center_on_edge` and noise keys in "
    "[simulation] are not probed",
]
RTOL = 1e-9      # CLI and API run the same deterministic code: expected 0

SINGLE_TERM = ['nproc', 'forward', 'misfit', 'gradient', 'path', 'survey',
               'model', 'output', 'save', 'load', 'cache', 'clean', 'layered',
               'dry_run', 'verbosity', 'verbose', 'quiet', 'config']


def all_singles():
    out = [('cfg', s, k) for s, items in R.SPEC.items() for k, _, _ in items
           if (s, k) != ('gridding_opts', 'cell_number')]
    out += [('term', 'term', k) for k in SINGLE_TERM]
    return out


# --------------------------------------------------------------------------
# Plan
def plan(tier, seed):
    singles = all_singles()
    if tier == 'quick':
        nb = 16
        out = []
        for b in range(nb):
            out.append({'id': f'q{b}', 'k': b,
                        'singles': singles[b::nb], 'single_rep': 1,
                        'n_combo': 7, 'n_override': 3, 'n_unknown': 5,
                        'n_seq': 2, 'n_known': 3,
                        'misc': ['verbosity', 'version', 'subprocess',
                                 'docsync'][b % 4]})
        return out
    # sized for ~2100 cases (~2500 CLI runs): every single option twice per
    # ten batches (real and dry), four complete sets over the run
    nb = 40
    out = []
    for b in range(nb):
        out.append({'id': f't{b}', 'k': 1000+b,
                    'singles': singles[b % 10::10], 'single_rep': 2,
                    'n_combo': 14, 'n_override': 4, 'n_unknown': 7,
                    'n_seq': 3, 'n_known': 4,
                    'misc': ['verbosity', 'version', 'subprocess',
                             'docsync'][b % 4], 'n_sub': 1})
    return out


# --------------------------------------------------------------------------
# Worlds (survey + model), all JSON-free: regenerated from (seed, k, i, tag)
def make_world(r, lay_ok, small=False, nrec=None):
    import emg3d
    shape = (8, 8, 8)
    h = 200.0
    gs = {'hx': np.full(8, h), 'hy': np.full(8, h), 'hz': np.full(8, h),
          'origin': [-800.0, -800.0, -1400.0]}
    if r.random() < 0.4:
        gs['hz'] = np.array([300., 250., 200., 150., 150., 150., 200., 200.])
    case = gen.choice(r, ['isotropic', 'VTI'] if lay_ok else gen.CASES)
    ms = gen.model_spec(r, shape, case=case, mu=False, eps=False, decades=1,
                        homogeneous=False)
    grid, model = gen.build_emg3d(gs, ms)

    nsrc = int(r.integers(1, 3 if small else 4))
    nrec = nrec or int(r.integers(3, 6))
    nfreq = int(r.integers(1, 3))
    sources = []
    for _ in range(nsrc):
        x, y, z = (float(np.round(r.uniform(-350, -50))),
                   float(np.round(r.uniform(-150, 150))),
                   float(np.round(r.uniform(-650, -450))))
        u = r.random()
        if u < 0.4:
            sources.append(emg3d.TxElectricDipole(
                (x, y, z, float(np.round(r.uniform(-90, 90))),
                 float(np.round(r.uniform(-20, 20)))),
                strength=float(gen.choice(r, [1.0, 1.0, 50.0]))))
        elif u < 0.7:
            sources.append(emg3d.TxElectricDipole(
                (x-40, x+40, y-10, y+25, z, z+5)))
        else:
            sources.append(emg3d.TxElectricPoint(
                (x, y, z, float(np.round(r.uniform(-90, 90))), 0.0)))
    receivers = []
    for j in range(nrec):
        x, y, z = (float(np.round(r.uniform(0, 400))),
                   float(np.round(r.uniform(-200, 200))),
                   float(np.round(r.uniform(-600, -300))))
        azm, elv = float(np.round(r.uniform(-90, 90))), float(
            np.round(r.uniform(-15, 15)))
        u = r.random()
        if u < 0.7:
            receivers.append(emg3d.RxElectricPoint((x, y, z, azm, elv)))
        elif u < 0.85:
            receivers.append(emg3d.RxMagneticPoint((x, y, z, azm, elv)))
        else:
            receivers.append(emg3d.RxElectricPoint(
                (x+300, y, z+500, azm, elv), relative=True))
    freqs = sorted({float(f'{10**r.uniform(-0.2, 0.6):.3g}')
                    for _ in range(nfreq)})
    sh = (nsrc, nrec, len(freqs))
    obs = (r.standard_normal(sh) + 1j*r.standard_normal(sh)) * \
        10.0**r.uniform(-13, -11, sh)
    if nrec > 3 and r.random() < 0.6:
        obs[:, int(r.integers(nrec)), :] = np.nan      # an empty receiver
    if r.random() < 0.5:
        obs[int(r.integers(nsrc)), int(r.integers(nrec)),
            int(r.integers(len(freqs)))] = np.nan
    if not np.isfinite(obs).any():
        obs[0, 0, 0] = 1e-12+2e-12j
    u = r.random()
    nf = float(f'{10**r.uniform(-15, -14):.2g}') if u < 0.7 else None
    re = float(f'{r.uniform(0.01, 0.1):.2g}') if (u >= 0.7 or
                                                  r.random() < 0.6) else None
    survey = emg3d.Survey(sources=sources, receivers=receivers,
                          frequencies=freqs, data=obs, noise_floor=nf,
                          relative_error=re, name='C18 world')
    sig0 = float(np.median(ms['sigx']))
    center = np.array([s.center for s in sources]).mean(0)
    info = {'case': case, 'mapping': ms['mapping'], 'nsrc': nsrc,
            'nrec': nrec, 'nfreq': len(freqs), 'freqs': freqs,
            'noise_floor': nf, 'relative_error': re, 'sig0': sig0,
            'src_names': list(survey.sources.keys()),
            'rec_names': list(survey.receivers.keys()),
            'freq_names': list(survey.frequencies.keys()),
            'center': [float(c) for c in center]}
    return {'survey': survey, 'model': model, 'grid': grid, 'info': info}


def save_world(world, fsurvey=None, fmodel=None):
    import emg3d
    if fsurvey:
        world['survey'].to_file(fsurvey, verb=0)
    if fmodel:
        if len(os.path.basename(fmodel)) % 2:
            emg3d.save(fmodel, model=world['model'], verb=0)
        else:       # with the mesh as a second entry, as the gallery does
            emg3d.save(fmodel, model=world['model'], mesh=world['grid'],
                       verb=0)


def model_sig(model):
    out = []
    for n in ('property_x', 'property_y', 'property_z'):
        v = getattr(model, n)
        out.append(None if v is None else float(np.sum(np.asarray(v))))
    return [model.map.name, list(model.shape), out]


def survey_sig(survey):
    return [list(survey.sources.keys()), list(survey.receivers.keys()),
            list(survey.frequencies.keys()),
            float(np.nansum(np.abs(survey.data.observed.data)))]


# --------------------------------------------------------------------------
# Monitors at the API boundary
class Mon:
    installed = False
    phase = None          # 'cli' | 'api' | None
    events = []
    depth_from_file = 0
    depth_select = 0
    noise_record = []     # noise arrays produced during the CLI run
    noise_replay = None   # list to hand out during the API run
    noise_problem = None

    @classmethod
    def reset(cls, phase):
        cls.phase = phase
        cls.events = []
        cls.depth_from_file = 0
        cls.depth_select = 0
        cls.noise_problem = None
        if phase == 'cli':
            cls.noise_record = []


def install_monitors():
    if Mon.installed:
        return
    from emg3d import simulations, surveys
    Sim, Sur = simulations.Simulation, surveys.Survey

    o_init = Sim.__init__

    def init(self, survey, model, *args, **kwargs):
        if Mon.phase:
            kw = dict(kwargs)
            for n, a in zip(('max_workers', 'gridding'), args):
                kw[n] = a
            ev = {'call': 'Simulation', 'raw': kw, 'obj': self,
                  'in_from_file': Mon.depth_from_file > 0}
            try:        # a monitor must never disturb the monitored call
                ev.update(survey=survey_sig(survey), model=model_sig(model))
            except Exception as e:  # noqa
                ev.update(survey=None, model=None, monitor_error=repr(e))
            Mon.events.append(ev)
        return o_init(self, survey, model, *args, **kwargs)
    Sim.__init__ = init

    o_from_file = Sim.from_file.__func__

    def from_file(cls, fname, *args, **kwargs):
        Mon.depth_from_file += 1
        try:
            out = o_from_file(cls, fname, *args, **kwargs)
        finally:
            Mon.depth_from_file -= 1
        if Mon.phase:
            sim = out[0] if isinstance(out, tuple) else out
            Mon.events.append({'call': 'from_file', 'fname': str(fname),
                               'obj': sim})
        return out
    Sim.from_file = classmethod(from_file)

    o_to_file = Sim.to_file

    def to_file(self, fname, *args, **kwargs):
        if Mon.phase:
            Mon.events.append({'call': 'to_file', 'fname': str(fname),
                               'what': kwargs.get('what', args[0] if args
                                                  else 'computed')})
        return o_to_file(self, fname, *args, **kwargs)
    Sim.to_file = to_file

    o_compute = Sim.compute

    def compute(self, *args, **kwargs):
        if Mon.phase and 'source' not in kwargs:
            kw = dict(kwargs)
            if args:
                kw['observed'] = args[0]
            Mon.events.append({'call': 'compute', 'kwargs': R.canon(kw)})
        return o_compute(self, *args, **kwargs)
    Sim.compute = compute

    o_clean = Sim.clean

    def clean(self, *args, **kwargs):
        if Mon.phase:
            Mon.events.append({'call': 'clean', 'what': kwargs.get(
                'what', args[0] if args else 'computed')})
        return o_clean(self, *args, **kwargs)
    Sim.clean = clean

    o_select = Sur.select

    def select(self, *args, **kwargs):
        if Mon.phase and Mon.depth_select == 0:
            kw = dict(kwargs)
            for n, a in zip(('sources', 'receivers', 'frequencies',
                             'remove_empty'), args):
                kw[n] = a
            Mon.events.append({'call': 'select', 'kwargs': R.canon(kw)})
        Mon.depth_select += 1
        try:
            return o_select(self, *args, **kwargs)
        finally:
            Mon.depth_select -= 1
    Sur.select = select

    o_add_noise = Sur.add_noise

    def add_noise(self, *args, **kwargs):
        if Mon.phase:
            kw = dict(kwargs)
            for n, a in zip(('min_offset', 'min_amplitude', 'add_to'), args):
                kw[n] = a
            Mon.events.append({'call': 'add_noise', 'kwargs': R.canon(kw)})
        return o_add_noise(self, *args, **kwargs)
    Sur.add_noise = add_noise

    o_noise = surveys.random_noise

    def random_noise(standard_deviation, *args, **kwargs):
        kw = dict(kwargs)
        for n, a in zip(('mean_noise', 'ntype'), args):
            kw[n] = a
        if Mon.phase == 'api' and Mon.noise_replay is not None:
            if not Mon.noise_replay:
                Mon.noise_problem = 'API run asks for more noise than CLI'
                return o_noise(standard_deviation, *args, **kwargs)
            std, ckw, noise = Mon.noise_replay.pop(0)
            if (std.shape != np.shape(standard_deviation) or
                    not np.array_equal(std, standard_deviation,
                                       equal_nan=True)):
                Mon.noise_problem = 'standard deviation differs'
            if not R.same(ckw, kw):
                Mon.noise_problem = f'random_noise kwargs {ckw} vs {kw}'
            return noise.copy()
        noise = o_noise(standard_deviation, *args, **kwargs)
        if Mon.phase == 'cli':
            Mon.noise_record.append(
                (np.array(standard_deviation, copy=True), kw, noise.copy()))
        return noise
    surveys.random_noise = random_noise

    # Harness-side speed-up only: every CLI run logs a scooby report, which
    # re-reads the metadata of all installed distributions (0.5 s).
    try:
        import scooby.report as sr
        o_inst = sr.Report.installed_packages.fget
        cache = {}

        def installed_packages(self):
            if 'v' not in cache:
                cache['v'] = o_inst(self)
            return dict(cache['v'])
        sr.Report.installed_packages = property(installed_packages)
        import functools
        import platform
        platform.architecture = functools.lru_cache(None)(
            platform.architecture)      # (spawns `file` on every call)
    except Exception:  # noqa
        pass
    Mon.installed = True


def reset_logging():
    logging.captureWarnings(False)
    for name in ('emg3d.cli.run', 'py.warnings'):
        lg = logging.getLogger(name)
        for h in lg.handlers[:]:
            lg.removeHandler(h)
            with contextlib.suppress(Exception):
                h.close()


def pm_count():
    from emg3d import _multiprocessing as mp
    return int(mp.process_map.count)


# --------------------------------------------------------------------------
# Running the system under test and the API equivalent
def run_cli(argv, cwd):
    """In-process CLI run.  Returns dict(exc, out, err, events, n_pm)."""
    install_monitors()
    climain = importlib.import_module('emg3d.cli.main')
    old_argv, old_cwd = sys.argv, os.getcwd()
    out, err = io.StringIO(), io.StringIO()
    exc = None
    tb = ''
    Mon.reset('cli')
    n0 = pm_count()
    try:
        os.chdir(cwd)
        sys.argv = ['emg3d'] + list(argv)
        with contextlib.redirect_stdout(out), \
                contextlib.redirect_stderr(err), warnings.catch_warnings():
            warnings.simplefilter('default')
            try:
                climain.main()
            except KeyboardInterrupt:
                raise
            except BaseException as e:  # noqa - SystemExit is an outcome
                exc = e
                tb = traceback.format_exc()
    finally:
        sys.argv = old_argv
        os.chdir(old_cwd)
        reset_logging()
        events = Mon.events
        Mon.phase = None
    if isinstance(exc, SystemExit) and exc.code in (0, None):
        exc = None
    return {'exc': exc, 'tb': tb[-700:], 'out': out.getvalue(),
            'err': err.getvalue(), 'events': events,
            'n_pm': pm_count() - n0}


def exc_str(e):
    if e is None:
        return None
    return f'{type(e).__name__}: {str(e)[:300]}'


def results_of(sim, function, noise, layered_change=None):
    """The documented API sequence on a ready Simulation."""
    res = {}
    if function == 'forward':
        sim.compute(observed=True, **noise)
        res['data'] = np.array(sim.data.observed.data)
    else:
        sim.compute()
        res['data'] = np.array(sim.data.synthetic.data)
    if function in ('misfit', 'gradient'):
        res['misfit'] = float(np.asarray(sim.misfit))
        res['n_observations'] = int(sim.survey.count)
    if function == 'gradient':
        res['gradient'] = np.array(sim.gradient)
    return res


def run_api(exp, cwd, free, seq=None):
    """Execute the expected API calls.  Returns dict(exc, sim, res, ...)."""
    import emg3d
    install_monitors()
    old_cwd = os.getcwd()
    Mon.reset('api')
    Mon.noise_replay = list(Mon.noise_record)
    out = {'exc': None, 'sim': None, 'res': None, 'survey': None,
           'model': None}
    buf = io.StringIO()
    try:
        os.chdir(cwd)
        with contextlib.redirect_stdout(buf), \
                contextlib.redirect_stderr(buf), \
                warnings.catch_warnings(record=True) as wlist:
            warnings.simplefilter('always')
            out['wlist'] = wlist
            try:
                f = exp['files']
                if seq is not None:         # load an existing simulation
                    sim = emg3d.Simulation.from_file(seq['load'], verb=0)
                    if exp['clean']:
                        sim.clean('computed')
                        sim.model = emg3d.load(f['model'], verb=0)['model']
                    lay = bool(exp['sim'].get('layered', False))
                    if sim.layered != lay:
                        sim.layered = lay
                    out['survey'] = sim.survey
                else:
                    survey = emg3d.load(f['survey'], verb=0)['survey']
                    model = emg3d.load(f['model'], verb=0)['model']
                    if exp['select'] is not None:
                        survey = survey.select(**exp['select'])
                    out['survey'] = survey
                    out['model'] = model
                    kw = dict(free)
                    kw.update(exp['sim'])
                    sim = emg3d.Simulation(survey, model, **kw)
                out['sim'] = sim
                if not exp['dry']:
                    noise = exp['noise'] if exp['function'] == 'forward' \
                        else {}
                    out['res'] = results_of(sim, exp['function'], noise)
                if f['save']:
                    d, b = os.path.split(f['save'])
                    out['saved'] = os.path.join(d, 'api_' + b)
                    sim.to_file(out['saved'], verb=-1)
            except KeyboardInterrupt:
                raise
            except BaseException as e:  # noqa
                out['exc'] = e
                out['tb'] = traceback.format_exc()[-700:]
    finally:
        os.chdir(old_cwd)
        out['events'] = Mon.events
        out['noise_problem'] = Mon.noise_problem
        out['noise_left'] = len(Mon.noise_replay or [])
        Mon.phase = None
        Mon.noise_replay = None
    return out


def cmp_arrays(a, b):
    """(ok, err) - NaN pattern equal, finite part within RTOL (relative to
    the largest reference magnitude)."""
    a, b = np.asarray(a), np.asarray(b)
    if a.shape != b.shape:
        return False, float('nan')
    na, nb = np.isnan(a), np.isnan(b)
    if not np.array_equal(na, nb):
        return False, float('nan')
    fa, fb = a[~na], b[~nb]
    if fa.size == 0:
        return True, 0.0
    if not (np.all(np.isfinite(fa)) and np.all(np.isfinite(fb))):
        return bool(np.array_equal(fa, fb)), 0.0
    scale = float(np.max(np.abs(fb)))
    err = float(np.max(np.abs(fa - fb)))
    rel = err/scale if scale > 0 else err
    return (not (rel > RTOL)) and rel == rel, rel


# --------------------------------------------------------------------------
# Case construction
def fresh_case(cls, k, i, function, lay_ok):
    return {'cls': cls, 'k': k, 'i': i, 'function': function,
            'lay_ok': lay_ok, 'cfg': {}, 'tv': {'function': function},
            'config_mode': 'positional', 'decoy': False, 'premade': None}


def add_cfg(case, r, section, key, ctx, value=None):
    if value is None:
        text, val = R.gen_value(r, section, key, ctx)
    else:
        text, val = value
    case['cfg'].setdefault(section, [])
    case['cfg'][section] = [it for it in case['cfg'][section]
                            if it[0] != key] + [[key, text, val]]


def has_cfg(case, section, key=None):
    if section not in case['cfg']:
        return False
    return key is None or any(it[0] == key for it in case['cfg'][section])


def get_cfg(case, section, key, default=None):
    for it in case['cfg'].get(section, []):
        if it[0] == key:
            return it[2]
    return default


def file_name(r, role, fmt=None):
    fmt = fmt or gen.choice(r, ['h5', 'npz', 'json'])
    base = {'survey': ['mysurvey', 'data_A', 's1'],
            'model': ['mymodel', 'resistivity', 'm1'],
            'output': ['result', 'out_1', 'emg3d-res'],
            'save': ['mysim', 'simul'], 'load': ['mysim', 'simul'],
            'cache': ['cachesim', 'mysim']}[role]
    name = gen.choice(r, base)
    if fmt == 'h5' and r.random() < 0.5:
        return name            # ".h5 will be appended"
    return f'{name}.{fmt}'


def set_function(case, r, how=None):
    """Decide whether the function flag is given (forward is the default)."""
    f = case['function']
    case['tv']['function_given'] = bool(f != 'forward' or r.random() < 0.5)


def ctx_of(world, cwd, lay_ok):
    ctx = dict(world['info'])
    ctx.update(cwd=cwd, lay_ok=lay_ok)
    return ctx


GRID_KEYS = [k for k, _, _ in R.SPEC['gridding_opts'] if k != 'cell_number']


def add_gridding_keys(case, r, ctx, keys):
    if 'mapping' in keys:
        ctx['gmapping'] = gen.choice(r, R.MAPPINGS4)
    for key in keys:
        add_cfg(case, r, 'gridding_opts', key, ctx)
    ctx.pop('gmapping', None)


def build_combo(r, case, ctx, dry=None):
    """Random combination of documented keys (valid together)."""
    lay_ok = case['lay_ok']
    layered = lay_ok and r.random() < 0.5
    auto = (not layered) and r.random() < 0.4
    if dry is None:
        dry = r.random() < (0.5 if auto else 0.25)
    case['tv']['dry_run'] = bool(dry)
    # [simulation]
    if layered:
        if r.random() < 0.5:
            case['tv']['layered'] = True
            if r.random() < 0.3:
                add_cfg(case, r, 'simulation', 'layered', ctx,
                        value=('False', False))
        else:
            add_cfg(case, r, 'simulation', 'layered', ctx,
                    value=('True', True))
    elif r.random() < 0.15:
        add_cfg(case, r, 'simulation', 'layered', ctx, value=('False', False))
    if auto:
        if r.random() < 0.7:
            ctx['griddings'] = ['single', 'frequency', 'source', 'both']
            add_cfg(case, r, 'simulation', 'gridding', ctx)
    elif not layered or r.random() < 0.5:
        add_cfg(case, r, 'simulation', 'gridding', ctx, value=('same', 'same'))
    else:
        # layered: gridding has no effect, but must still be consistent
        add_cfg(case, r, 'simulation', 'gridding', ctx, value=('same', 'same'))
    for key, p in (('max_workers', 0.4), ('name', 0.4), ('file_dir', 0.2),
                   ('receiver_interpolation', 0.4)):
        if r.random() < p:
            add_cfg(case, r, 'simulation', key, ctx)
    if r.random() < 0.3:
        case['tv']['nproc'] = int(gen.choice(r, [1]*9 + [2]))
    elif not has_cfg(case, 'simulation', 'max_workers') and \
            r.random() < 0.95:
        # process pools (API default: 4 workers) are expensive: rare
        case['tv']['nproc'] = 1
    # [solver_opts]
    if r.random() < 0.7:
        keys = [k for k, _, _ in R.SPEC['solver_opts']]
        n = int(r.integers(1, 7))
        for j in r.permutation(len(keys))[:n]:
            add_cfg(case, r, 'solver_opts', keys[j], ctx)
    # [gridding_opts]
    if auto and r.random() < 0.8:
        n = int(r.integers(1, 6))
        keys = [GRID_KEYS[j] for j in r.permutation(len(GRID_KEYS))[:n]]
        add_gridding_keys(case, r, ctx, keys)
    # [noise_opts]
    if r.random() < (0.7 if case['function'] == 'forward' else 0.2):
        keys = [k for k, _, _ in R.SPEC['noise_opts']]
        n = int(r.integers(1, 5))
        for j in r.permutation(len(keys))[:n]:
            add_cfg(case, r, 'noise_opts', keys[j], ctx)
    # [data]
    if r.random() < 0.5:
        keys = [k for k, _, _ in R.SPEC['data']]
        n = int(r.integers(1, 4))
        for j in r.permutation(len(keys))[:n]:
            add_cfg(case, r, 'data', keys[j], ctx)
    # [layered]
    if r.random() < (0.8 if layered else 0.15):
        keys = [k for k, _, _ in R.SPEC['layered']]
        n = int(r.integers(1, 5))
        for j in r.permutation(len(keys))[:n]:
            add_cfg(case, r, 'layered', keys[j], ctx)
    # [files] / terminal file names
    for role in ('survey', 'model', 'output'):
        u = r.random()
        if u < 0.3:
            add_cfg(case, r, 'files', role, ctx,
                    value=(lambda n: (n, n))(file_name(r, role)))
        elif u < 0.55:
            case['tv'][role] = file_name(r, role)
    u = r.random()
    if u < 0.2:
        add_cfg(case, r, 'files', 'path', ctx,
                value=(lambda n: (n, n))(gen.choice(r, ['sub', './sub/',
                                                         'a/b'])))
    elif u < 0.35:
        case['tv']['path'] = gen.choice(
            r, ['sub', os.path.join(ctx['cwd'], 'abs_sub')])
    u = r.random()
    if u < 0.15:
        add_cfg(case, r, 'files', 'save', ctx,
                value=(lambda n: (n, n))(file_name(r, 'save')))
    elif u < 0.3:
        case['tv']['save'] = file_name(r, 'save')
    if r.random() < 0.4:
        case['tv']['verb_tokens'] = gen.choice(
            r, [['-q'], ['-v'], ['-vv'], ['--verbosity', '1'],
                ['--verbosity=-1'], ['--quiet'], ['--verbose']])
    if r.random() < 0.15:
        case['config_mode'] = 'default'
    # random order of sections
    secs = list(case['cfg'])
    case['cfg'] = {secs[j]: case['cfg'][secs[j]]
                   for j in r.permutation(len(secs))}
    if r.random() < 0.2:
        for s in R.SECTIONS:
            if s not in case['cfg'] and r.random() < 0.3:
                case['cfg'][s] = []        # empty section
    return case


def avoid_freq_npz(case):
    """gridding=frequency with a survey stored as npz is its own input
    class ('freq_npz'); everywhere else the survey then becomes an h5."""
    if get_cfg(case, 'simulation', 'gridding') != 'frequency':
        return
    for it in case['cfg'].get('files', []):
        if it[0] == 'survey' and it[2].endswith('.npz'):
            it[1] = it[2] = it[2][:-4] + '.h5'
    if (case['tv'].get('survey') or '').endswith('.npz'):
        case['tv']['survey'] = case['tv']['survey'][:-4] + '.h5'


def build_freq_npz(r, case, ctx):
    add_cfg(case, r, 'simulation', 'gridding', ctx,
            value=('frequency', 'frequency'))
    name = gen.choice(r, ['mysurvey.npz', 'data_A.npz'])
    if r.random() < 0.5:
        case['tv']['survey'] = name
    else:
        add_cfg(case, r, 'files', 'survey', ctx, value=(name, name))
    case['tv']['nproc'] = 1
    case['tv']['dry_run'] = bool(r.random() < 0.5)
    if r.random() < 0.5:
        add_cfg(case, r, 'solver_opts', 'maxit', ctx)
    return case


def needs_small(case):
    g = get_cfg(case, 'simulation', 'gridding', 'single')
    return g != 'same'


def build_single(r, case, ctx, item):
    kind, section, key = item
    tv = case['tv']
    if key not in ('nproc', 'max_workers') and (case['i'] + case['k']) % 8:
        tv['nproc'] = 1      # context only: keeps the process pools away
    if kind == 'cfg':
        if section == 'files':
            if key == 'path':
                add_cfg(case, r, 'files', 'path', ctx, value=('sub', 'sub'))
            elif key in ('load', 'cache'):
                name = file_name(r, key)
                add_cfg(case, r, 'files', key, ctx, value=(name, name))
                case['premade'] = key
            else:
                name = file_name(r, key)
                add_cfg(case, r, 'files', key, ctx, value=(name, name))
        elif section == 'gridding_opts':
            add_gridding_keys(case, r, ctx, [key])
        elif section == 'layered':
            add_cfg(case, r, section, key, ctx)
            if case['lay_ok'] and case.get('rep', 0) % 2 == 0:
                tv['layered'] = True
        elif (section, key) == ('simulation', 'layered'):
            add_cfg(case, r, section, key, ctx, value=(
                ('True', True) if case['lay_ok'] else ('False', False)))
        elif (section, key) == ('simulation', 'gridding'):
            vals = ['same', 'single', 'frequency', 'source', 'both']
            v = vals[(case['i'] + case['k'] + case.get('rep', 0)) % 5]
            add_cfg(case, r, section, key, ctx, value=(v, v))
        else:
            if key == 'max_workers':
                ctx['workers'] = [2, 3]
            add_cfg(case, r, section, key, ctx)
    else:
        if key == 'nproc':
            tv['nproc'] = 2
        elif key in ('forward', 'misfit', 'gradient'):
            case['function'] = tv['function'] = key
            tv['function_given'] = True
        elif key == 'path':
            tv['path'] = gen.choice(r, ['sub', os.path.join(ctx['cwd'],
                                                            'abs_sub')])
        elif key in ('survey', 'model', 'output', 'save'):
            tv[key] = file_name(r, key)
        elif key in ('load', 'cache'):
            tv[key] = file_name(r, key)
            case['premade'] = key
        elif key == 'clean':
            tv['load'] = file_name(r, 'load')
            tv['clean'] = True
            case['premade'] = 'load'
            # (a non-empty [gridding_opts]: the other input class covers the
            # run without it)
            add_cfg(case, r, 'gridding_opts', 'lambda_factor', ctx)
        elif key == 'layered':
            tv['layered'] = True
        elif key == 'dry_run':
            tv['dry_run'] = True
        elif key == 'verbosity':
            tv['verb_tokens'] = ['--verbosity',
                                 str(gen.choice(r, [-1, 0, 1, 2]))]
        elif key == 'verbose':
            tv['verb_tokens'] = [gen.choice(r, ['-v', '-vv', '--verbose'])]
        elif key == 'quiet':
            tv['verb_tokens'] = [gen.choice(r, ['-q', '--quiet'])]
        elif key == 'config':
            case['config_mode'] = gen.choice(r, ['default', 'named'])
    return case


def single_requirements(item, rep, idx):
    """(function, lay_ok) context of a single-option case."""
    kind, section, key = item
    functions = ['forward', 'misfit', 'gradient']
    function = functions[(idx + rep) % 3]
    lay_ok = False
    if section == 'noise_opts':
        function = 'forward'
    if key == 'tol_gradient':
        function = 'gradient'
    if section == 'layered' or key == 'layered':
        lay_ok = True
    if kind == 'term' and key in ('forward', 'misfit', 'gradient'):
        function = key
    return function, lay_ok


# --------------------------------------------------------------------------
# Materialise a case on disk
def premake_simulation(world, fname, computed, layered=False):
    import emg3d
    survey = world['survey'].copy()
    sim = emg3d.Simulation(survey, world['model'], gridding='same',
                           max_workers=1, name='premade', verb=-1,
                           receiver_interpolation='linear', tqdm_opts=False,
                           solver_opts={'maxit': 20}, layered=layered)
    if computed:
        with contextlib.redirect_stdout(io.StringIO()):
            sim.compute()
    sim.to_file(fname, what='computed', verb=0)


def materialise(r, case, cwd, world, world_b=None):
    exp = R.expected_api(case, cwd)
    f = exp['files']
    os.makedirs(f['path'], exist_ok=True)
    for p in (f['output'], f['save']):
        if p:
            os.makedirs(os.path.dirname(p), exist_ok=True)
    save_world(world, f['survey'], f['model'])
    if case['decoy'] and world_b is not None:
        cfgf = {k: v for k, _, v in case['cfg'].get('files', [])}
        g = R.resolve_files(cfgf, {}, cwd)
        os.makedirs(g['path'], exist_ok=True)
        if g['survey'] != f['survey']:
            save_world(world_b, fsurvey=g['survey'])
        if g['model'] != f['model']:
            save_world(world_b, fmodel=g['model'])
        # the default names must exist as well (they are checked by the CLI)
        for role in ('survey', 'model'):
            d = os.path.join(f['path'], role + '.h5')
            if not os.path.exists(d):
                save_world(world_b, **{'f'+role: d})
    seq = None
    if case['premade']:
        wl = world_b if (exp['clean'] and world_b is not None) else world
        premake_simulation(wl, f['load'], case.get('premade_computed', True),
                           case.get('premade_layered', False))
        pristine = os.path.join(cwd, 'pristine_' + os.path.basename(f['load']))
        shutil.copy(f['load'], pristine)
        seq = {'load': pristine}
    # config file
    if case['config_mode'] == 'default':
        cfgfile, positional = os.path.join(cwd, 'emg3d.cfg'), None
    else:
        name = gen.choice(r, ['run.cfg', 'my_config.txt', 'emg3d.cfg'])
        cfgfile = os.path.join(cwd, name)
        positional = gen.choice(r, [name, cfgfile])
    text = R.write_config(r, case, cfgfile)
    toks = R.term_tokens(r, case['tv'])
    if positional is not None:
        toks = [positional] + toks if r.random() < 0.5 else toks + [positional]
    case['argv'] = toks
    case['config_text'] = text
    return exp, seq


def case_summary(case, world):
    return {'cls': case['cls'], 'k': case['k'], 'i': case['i'],
            'function': case['function'], 'argv': case.get('argv'),
            'config_text': case.get('config_text'),
            'config_mode': case['config_mode'],
            'premade': case['premade'], 'world': world['info'],
            'note': case.get('note')}


def options_given(case):
    out = [f'{s}.{it[0]}' for s, items in case['cfg'].items() for it in items]
    tv = case['tv']
    out += ['--' + k for k in ('nproc', 'path', 'survey', 'model', 'output',
                               'save', 'load', 'cache', 'clean', 'layered',
                               'dry_run') if tv.get(k)]
    if tv.get('verb_tokens'):
        out.append('--verbosity')
    return sorted(out)


# --------------------------------------------------------------------------
# The oracle
def vkey(case, base):
    if case['cls'] in ('override', 'override_path'):
        return 'C18:terminal-does-not-override'
    return base


def is_cell_number_rejection(exc):
    return (isinstance(exc, TypeError) and 'Unexpected gridding_opts' in
            str(exc) and 'cell_number' in str(exc))


def is_path_typeerror(exc):
    return (isinstance(exc, TypeError) and
            "Unexpected parameter in [files]: ['path']" in str(exc))


def is_clean_keyerror(exc):
    return isinstance(exc, KeyError) and 'gridding_opts' in str(exc)


def load_output(fname):
    import emg3d
    out = emg3d.load(fname, verb=0)
    return out


def judge(rec, case, exp, seq, cli, cwd, world):
    """Compare one successful-or-not CLI run with the documented API calls."""
    cs = case_summary(case, world)
    cs['cli_exception'] = exc_str(cli['exc'])
    sims = [e for e in cli['events'] if e['call'] == 'Simulation'
            and not e['in_from_file']]
    free = {'verb': -1, 'tqdm_opts': False}
    if exp['function'] == 'gradient' and \
            'receiver_interpolation' not in exp['sim']:
        free['receiver_interpolation'] = 'linear'
    if sims:
        raw = sims[0]['raw']
        for k in R.SIM_FREE:
            if k in raw and k not in exp['sim']:
                free[k] = raw[k]
    f = exp['files']
    fdir = exp['sim'].get('file_dir')
    fdir_abs = None if not fdir else os.path.normpath(os.path.join(cwd, fdir))
    fdir_files = 0
    if fdir_abs and os.path.isdir(fdir_abs):
        fdir_files = len(os.listdir(fdir_abs))
        shutil.rmtree(fdir_abs, ignore_errors=True)

    api = run_api(exp, cwd, free, seq)
    cs['api_exception'] = exc_str(api['exc'])
    rec.event('cli_runs_judged')

    # ---- outcome matrix
    if cli['exc'] is not None and api['exc'] is not None:
        rec.event('consistent_errors')
        rec.extra_set('consistent_error_types',
                      [(exc_str(api['exc']) or '')[:110] + ' / ' +
                       type(cli['exc']).__name__ + ' ' + ' '.join(
                           str(w.message)[:160] for w in api['wlist']
                           if 'de-serialize' in str(w.message))])
        return
    if cli['exc'] is not None:
        cs['cli_traceback'] = cli['tb']
        if case['cls'] == 'cell_number' and is_cell_number_rejection(
                cli['exc']):
            key = 'C18:cell_number-rejected-downstream'
        elif case['cls'] == 'clean_nogrid' and is_clean_keyerror(cli['exc']):
            key = 'C18:clean-without-gridding-opts-keyerror'
        elif case['cls'] == 'override_path' and is_path_typeerror(cli['exc']):
            key = 'C18:path-on-terminal-and-in-file-typeerror'
        elif case['cls'] == 'load_misfit_json' and isinstance(
                cli['exc'], TypeError) and 'memoryview' in str(cli['exc']):
            key = 'C18:loaded-misfit-to-json-output-typeerror'
        elif case['cls'] == 'freq_npz' and isinstance(
                cli['exc'], TypeError) and 'unhashable' in str(cli['exc']):
            key = 'C18:gridding-frequency-with-npz-survey-typeerror'
        else:
            key = vkey(case, 'C18:documented-option-rejected')
        rec.event('acceptance_checks')
        rec.violation(key, f"CLI ended with {exc_str(cli['exc'])} for "
                      f"options {options_given(case)}; the equivalent API "
                      "calls succeed", cs)
        return
    if api['exc'] is not None:
        cs['api_traceback'] = api.get('tb')
        rec.violation(vkey(case, 'C18:cli-accepts-what-api-rejects'),
                      f"CLI succeeded but the documented API calls raise "
                      f"{exc_str(api['exc'])}; options {options_given(case)}",
                      cs)
        return
    rec.event('acceptance_checks')
    if api['noise_problem']:
        rec.violation(vkey(case, 'C18:args-noise'),
                      'noise generation differs: ' + api['noise_problem'], cs)
    asim = api['sim']

    # ---- arguments handed to the API
    bad = []
    if seq is None:
        rec.event('constructor_checks')
        if len(sims) != 1:
            bad.append(f'{len(sims)} Simulation constructions (expected 1)')
        else:
            raw = sims[0]['raw']
            for k, v in exp['sim'].items():
                got = raw.get(k, '<absent>')
                if k == 'gridding_opts' and isinstance(got, dict):
                    got = {R.API_NAME.get(('gridding_opts', kk), kk): vv
                           for kk, vv in got.items()}
                if not R.same(got, v):
                    bad.append(f'{k}: CLI passed {got!r}, documented {v!r}')
            for k, v in raw.items():
                if k in exp['sim'] or k in R.SIM_FREE:
                    continue
                if k in R.SIM_DEFAULTS and R.same(v, R.SIM_DEFAULTS[k]):
                    continue
                bad.append(f'{k}={v!r} passed although not requested')
            asims = [e for e in api['events'] if e['call'] == 'Simulation'
                     and not e['in_from_file']]
            if sims[0]['survey'] != asims[0]['survey']:
                bad.append(f"survey handed over {sims[0]['survey']} != "
                           f"{asims[0]['survey']} (selection/file)")
            if sims[0]['model'] != asims[0]['model']:
                bad.append('model handed over is not the one of the model '
                           'file')
        if bad:
            rec.violation(vkey(case, 'C18:args-simulation'), '; '.join(bad),
                          cs)
        # select
        sel = [e for e in cli['events'] if e['call'] == 'select']
        rec.event('select_checks')
        want = exp['select'] or {'sources': None, 'receivers': None,
                                 'frequencies': None, 'remove_empty': False}
        if sel:
            got = {'sources': None, 'receivers': None, 'frequencies': None,
                   'remove_empty': ('bool', True)}
            got.update(sel[0]['kwargs'])
            if len(sel) != 1 or not R._same(got, R.canon(want)):
                rec.violation(vkey(case, 'C18:args-select'),
                              f'select called with {sel[0]["kwargs"]}, '
                              f'documented {want}', cs)
        elif exp['select'] is not None and (
                any(want[k] is not None for k in ('sources', 'receivers',
                                                  'frequencies'))
                or want['remove_empty']):
            rec.violation(vkey(case, 'C18:args-select'),
                          f'no select call, documented {want}', cs)
    else:
        rec.event('load_checks')
        ff = [e for e in cli['events'] if e['call'] == 'from_file']
        if sims or len(ff) != 1 or os.path.normpath(ff[0]['fname']) != \
                os.path.normpath(f['load']):
            rec.violation('C18:load', f"expected one Simulation.from_file("
                          f"{f['load']}), saw {[e['fname'] for e in ff]} and "
                          f"{len(sims)} fresh constructions", cs)
        cl = [e for e in cli['events'] if e['call'] == 'clean']
        if exp['clean'] != bool(cl):
            rec.violation('C18:load', f"--clean={exp['clean']} but clean "
                          f"calls {cl}", cs)

    # ---- noise / compute arguments
    noise_calls = [e for e in cli['events'] if e['call'] == 'add_noise']
    if not exp['dry']:
        rec.event('compute_checks')
        comp = [e for e in cli['events'] if e['call'] == 'compute']
        if exp['function'] == 'forward':
            want = dict(R.NOISE_DEFAULTS)
            want.update(exp['noise'])
            got = R.canon(R.NOISE_DEFAULTS)
            obs = None
            if comp:
                kw = dict(comp[0]['kwargs'])
                obs = kw.pop('observed', None)
                got.update(kw)
            if not comp or obs != ('bool', True) or not R._same(
                    got, R.canon(want)):
                rec.violation(vkey(case, 'C18:args-noise'),
                              f'forward: compute called with '
                              f'{[c["kwargs"] for c in comp]}, documented '
                              f'observed=True + {exp["noise"]}', cs)
        elif noise_calls:
            rec.violation(vkey(case, 'C18:args-noise'),
                          f'{exp["function"]}: noise added', cs)

    # ---- output files
    rec.event('file_checks')
    missing = [p for p in (f['output'], f['log']) if not os.path.isfile(p)]
    if f['save'] and not os.path.isfile(f['save']):
        missing.append(f['save'])
    if missing:
        rec.violation(vkey(case, 'C18:files'), f'not written: {missing}; '
                      f'directory has {sorted(os.listdir(f["path"]))}', cs)
        return
    try:
        out = load_output(f['output'])
    except Exception as e:  # noqa
        rec.violation(vkey(case, 'C18:files'),
                      f'output {f["output"]} unreadable: {e}', cs)
        return

    # ---- dry run
    if exp['dry']:
        rec.event('dry_run_checks')
        if cli['n_pm'] != 0 or noise_calls:
            rec.violation('C18:dry-run-computes', f"dry run made "
                          f"{cli['n_pm']} process_map calls", cs)
        bad = []
        shape = tuple(api['survey'].shape)
        d = np.asarray(out.get('data'))
        if d.shape != shape or not np.iscomplexobj(d) or np.any(d != 0):
            bad.append(f'data shape {d.shape} (survey {shape}), dtype '
                       f'{d.dtype}, nonzero {int(np.count_nonzero(d))}')
        if exp['function'] in ('misfit', 'gradient'):
            if 'misfit' not in out or not (float(out['misfit']) == 0.0):
                bad.append(f"misfit {out.get('misfit')}")
            if 'n_observations' not in out or int(
                    out['n_observations']) != int(api['survey'].count):
                bad.append(f"n_observations {out.get('n_observations')} != "
                           f"{int(api['survey'].count)}")
        if exp['function'] == 'gradient':
            nc = {'isotropic': None, 'VTI': 2, 'HTI': 2, 'triaxial': 3}[
                asim.model.case]
            gshape = tuple(asim.model.shape)
            gshape = gshape if nc is None else (nc, *gshape)
            g = np.asarray(out.get('gradient'))
            if g.shape != gshape or np.any(g != 0):
                bad.append(f'gradient shape {g.shape}, expected {gshape}')
        if bad:
            rec.violation(vkey(case, 'C18:dry-run-output'), '; '.join(bad),
                          cs)
    else:
        # ---- results
        res = api['res']
        if case.get('expect_compute', True) and cli['n_pm'] == 0:
            rec.violation(vkey(case, 'C18:result-data'),
                          'real run, but nothing was computed', cs)
        for name in ('data', 'misfit', 'n_observations', 'gradient'):
            if name not in res:
                continue
            rec.event(f'result_{name}_checks')
            if name not in out:
                rec.violation(vkey(case, f'C18:result-{name}'),
                              f'{name} not in the output file', cs)
                continue
            if name == 'n_observations':
                ok, err = int(out[name]) == res[name], 0.0
            else:
                ok, err = cmp_arrays(out[name], res[name])
                rec.margin(f'{name}_rel_diff', err)
            if not ok:
                rec.violation(
                    vkey(case, f'C18:result-{name}'),
                    f'{name} written by the CLI differs from the API result '
                    f'(rel. diff {err:.3e}, shapes '
                    f'{np.shape(out[name])}/{np.shape(res[name])}); options '
                    f'{options_given(case)}', cs)
        if fdir:
            rec.event('file_dir_checks')
            if not asim.layered and fdir_files == 0:
                rec.violation(vkey(case, 'C18:args-simulation'),
                              f'file_dir={fdir}: no field files written to '
                              f'{fdir_abs}', cs)

    # ---- grids (automatic gridding is observable also in a dry run)
    csim = None
    if sims:
        csim = sims[0]['obj']
    elif seq is not None:
        ff = [e for e in cli['events'] if e['call'] == 'from_file']
        csim = ff[0]['obj'] if ff else None
    if csim is not None and not asim.layered and asim.gridding != 'same' \
            and seq is None:
        rec.event('grid_checks')
        try:
            bad = []
            with warnings.catch_warnings(), contextlib.redirect_stdout(
                    io.StringIO()):
                warnings.simplefilter('ignore')
                for s in asim.survey.sources:
                    for fq in asim.survey.frequencies:
                        ga, gc = asim.get_grid(s, fq), csim.get_grid(s, fq)
                        if ga.shape_cells != gc.shape_cells or not all(
                                np.array_equal(a, b) for a, b in
                                zip(ga.h, gc.h)) or not np.array_equal(
                                    ga.origin, gc.origin):
                            bad.append(f'{s}/{fq}: {gc.shape_cells} vs '
                                       f'{ga.shape_cells}')
            if bad:
                rec.violation(vkey(case, 'C18:grids-differ'),
                              'computational grids of the CLI differ from '
                              'the API: ' + '; '.join(bad[:4]), cs)
            else:
                rec.extra_set('grid_shapes', [str(tuple(
                    asim.get_grid(s, fq).shape_cells))])
        except Exception as e:  # noqa
            rec.inconclusive(f'grid comparison failed: {e!r}', cs)

    # ---- saved simulation
    if f['save'] and not missing:
        import emg3d
        rec.event('save_checks')
        try:
            ssim = emg3d.Simulation.from_file(f['save'], verb=0)
            bad = []
            if not exp['dry']:
                ref = asim.data.synthetic.data
                ok, err = cmp_arrays(ssim.data.synthetic.data, ref)
                if not ok:
                    bad.append(f'synthetic data differ ({err:.2e})')
                if exp['function'] == 'gradient':
                    ok, err = cmp_arrays(ssim.gradient, api['res'][
                        'gradient'])
                    if not ok:
                        bad.append(f'stored gradient differs ({err:.2e})')
            if survey_sig(ssim.survey)[:3] != survey_sig(asim.survey)[:3]:
                bad.append('saved survey differs')
            if bad:
                rec.violation(vkey(case, 'C18:save'), '; '.join(bad), cs)
        except Exception as e:  # noqa
            rec.violation(vkey(case, 'C18:save'),
                          f'saved simulation {f["save"]} cannot be loaded: '
                          f'{e!r}', cs)

    rec.distinct((case['cls'], exp['function'],
                  'dry' if exp['dry'] else 'real',
                  ','.join(options_given(case))))
    rec.extra_set('options_reaching_oracle', options_given(case))
    rec.extra_add('runs_' + ('dry' if exp['dry'] else 'real'))
    if case['i'] % 7 == 0:
        rec.sample({k: cs[k] for k in ('cls', 'function', 'argv',
                                       'config_text')})


# --------------------------------------------------------------------------
# Case drivers
class Work:
    """Temporary directory of one case (always under /tmp, always removed)."""

    def __enter__(self):
        self.d = tempfile.mkdtemp(prefix='vf-c18-')
        return self.d

    def __exit__(self, *a):
        shutil.rmtree(self.d, ignore_errors=True)
        return False


def run_regular(rec, seed, k, i, cls, builder, function, lay_ok, small=None,
                extra=None):
    """single / combo / override / known classes: one CLI run + oracle."""
    r = gen.rng(seed, 'C18', k, i)
    with Work() as cwd:
        case = fresh_case(cls, k, i, function, lay_ok)
        case.update(extra or {})
        rw = gen.rng(seed, 'C18', k, i, 'world')
        world = make_world(rw, lay_ok, small=bool(small))
        world_b = None
        ctx = ctx_of(world, cwd, lay_ok)
        builder(r, case, ctx)
        if cls != 'freq_npz':
            avoid_freq_npz(case)
        set_function(case, r)
        if case['decoy'] or case['premade'] and case['tv'].get('clean'):
            world_b = make_world(gen.rng(seed, 'C18', k, i, 'worldB'), lay_ok,
                                 small=bool(small),
                                 nrec=world['info']['nrec'] + 1)
        exp, seq = materialise(r, case, cwd, world, world_b)
        cli = run_cli(case['argv'], cwd)
        rec.case()
        judge(rec, case, exp, seq, cli, cwd, world)


def run_unknown(rec, seed, k, i):
    """A valid configuration + one unknown key / option => error."""
    r = gen.rng(seed, 'C18', k, i)
    with Work() as cwd:
        function = gen.choice(r, ['forward', 'misfit', 'gradient'])
        lay_ok = bool(r.random() < 0.3)
        case = fresh_case('unknown', k, i, function, lay_ok)
        world = make_world(gen.rng(seed, 'C18', k, i, 'world'), lay_ok,
                           small=True)
        ctx = ctx_of(world, cwd, lay_ok)
        build_combo(r, case, ctx, dry=bool(r.random() < 0.6))
        if not has_cfg(case, 'simulation', 'gridding') and \
                not case['tv'].get('dry_run'):
            add_cfg(case, r, 'simulation', 'gridding', ctx,
                    value=('same', 'same'))
            case['cfg'].pop('gridding_opts', None)
        set_function(case, r)
        avoid_freq_npz(case)
        u = r.random()
        if u < 0.8:
            sec = R.SECTIONS[(i + k) % len(R.SECTIONS)]
            key = gen.choice(r, R.UNKNOWN_KEYS[sec] +
                             [f'zz_{int(r.integers(1000))}'])
            text = gen.choice(r, ['1', 'True', 'abc', '0.5', '1, 2'])
            case['cfg'].setdefault(sec, [])
            pos = int(r.integers(0, len(case['cfg'][sec])+1))
            case['cfg'][sec].insert(pos, [key, text, text])
            what = f'[{sec}] {key}'
        else:
            what = None
        exp, seq = materialise(r, case, cwd, world)
        if what is None:
            tok = gen.choice(r, R.UNKNOWN_TERM)
            extra = [tok] if r.random() < 0.5 else [tok, '1']
            case['argv'] = case['argv'] + extra
            what = 'option ' + ' '.join(extra)
        else:
            # the unknown key is not part of the expected files
            sec_items = case['cfg']
            _ = sec_items
        f = exp['files']
        cli = run_cli(case['argv'], cwd)
        rec.case()
        rec.event('unknown_option_checks')
        cs = case_summary(case, world)
        cs['unknown'] = what
        cs['cli_exception'] = exc_str(cli['exc'])
        wrote = [p for p in (f['output'],) if os.path.isfile(p)]
        if cli['exc'] is None or wrote:
            rec.violation('C18:unknown-option-accepted',
                          f'{what} was not rejected (exception: '
                          f'{exc_str(cli["exc"])}, output written: '
                          f'{bool(wrote)}, dry={exp["dry"]})', cs)
        else:
            msg = str(cli['exc']) + cli['err']
            rec.extra_add('unknown_rejected_by_parser' if (
                'Unexpected parameter' in msg or 'unrecognized arguments'
                in msg) else 'unknown_rejected_otherwise')
            rec.distinct(('unknown', what.split()[0], exp['function'],
                          'dry' if exp['dry'] else 'real'))


def build_override(r, case, ctx):
    """File value A, terminal value B (different) => B."""
    tv = case['tv']
    which = case['which']
    if r.random() < 0.5:
        add_cfg(case, r, 'simulation', 'gridding', ctx, value=('same', 'same'))
    else:
        tv['dry_run'] = True
    if which == 'nproc':
        a, b = gen.choice(r, [(2, 1), (3, 1), (4, 1), (1, 2)])
        add_cfg(case, r, 'simulation', 'max_workers', ctx, value=(str(a), a))
        tv['nproc'] = b
    elif which == 'layered':
        add_cfg(case, r, 'simulation', 'layered', ctx, value=('False', False))
        tv['layered'] = True
    elif which == 'path':
        add_cfg(case, r, 'files', 'path', ctx, value=('cfgdir', 'cfgdir'))
        tv['path'] = gen.choice(r, ['termdir',
                                    os.path.join(ctx['cwd'], 'termdir')])
        case['decoy'] = True
    elif which in ('survey', 'model'):
        a, b = file_name(r, which), file_name(r, which)
        if a.split('.')[0] == b.split('.')[0]:
            b = 'other_' + b
        add_cfg(case, r, 'files', which, ctx, value=(a, a))
        tv[which] = b
        case['decoy'] = True
    elif which in ('output', 'save'):
        a, b = file_name(r, which), file_name(r, which)
        if a.split('.')[0] == b.split('.')[0]:
            b = 'other_' + b
        add_cfg(case, r, 'files', which, ctx, value=(a, a))
        tv[which] = b
    elif which == 'cache_over_save':
        # "cache overrules load and save"
        a = file_name(r, 'save')
        b = 'c_' + file_name(r, 'cache')
        if r.random() < 0.5:
            tv['save'] = a
        else:
            add_cfg(case, r, 'files', 'save', ctx, value=(a, a))
        tv['cache'] = b
        case['premade'] = 'cache'
    elif which == 'load':
        a, b = 'cfg_' + file_name(r, 'load'), 'term_' + file_name(r, 'load')
        add_cfg(case, r, 'files', 'load', ctx, value=(a, a))
        tv['load'] = b
        case['premade'] = 'load'
    if r.random() < 0.5:
        for key in ('tol', 'maxit'):
            add_cfg(case, r, 'solver_opts', key, ctx)
    if which != 'nproc':
        tv['nproc'] = 1
    return case


OVERRIDES = ['nproc', 'layered', 'path', 'survey', 'model', 'output', 'save',
             'cache_over_save', 'load']


def run_sequence(rec, seed, k, i, cls='sequence'):
    """--save, then --load/--cache (+ --clean, -l) on the saved file."""
    r = gen.rng(seed, 'C18', k, i)
    nogrid = cls == 'clean_nogrid'
    lmj = cls == 'load_misfit_json'
    with Work() as cwd:
        lay_ok = bool(r.random() < 0.4)
        world = make_world(gen.rng(seed, 'C18', k, i, 'world'), lay_ok)
        world_b = make_world(gen.rng(seed, 'C18', k, i, 'worldB'), lay_ok)
        ctx = ctx_of(world, cwd, lay_ok)
        # step 1: a run that saves the simulation
        f1 = gen.choice(r, ['forward', 'misfit', 'gradient'])
        if lmj:
            f1 = 'misfit'
        c1 = fresh_case(cls, k, i, f1, lay_ok)
        add_cfg(c1, r, 'simulation', 'gridding', ctx, value=('same', 'same'))
        for key in ('tol', 'maxit', 'sslsolver'):
            if r.random() < 0.5:
                add_cfg(c1, r, 'solver_opts', key, ctx)
        if r.random() < 0.4:
            add_cfg(c1, r, 'noise_opts', 'add_noise', ctx,
                    value=('False', False))
        f2 = gen.choice(r, ['forward', 'misfit', 'gradient'])
        how = gen.choice(r, ['load', 'cache', 'cfg_load', 'cfg_cache'])
        if lmj:
            f2 = gen.choice(r, ['misfit', 'gradient'])
        simname = file_name(r, 'save')
        if r.random() < 0.5:
            c1['tv']['save'] = simname
        else:
            add_cfg(c1, r, 'files', 'save', ctx, value=(simname, simname))
        c1['tv']['dry_run'] = bool(r.random() < 0.2) and not lmj
        if r.random() < 0.9:
            c1['tv']['nproc'] = 1
        set_function(c1, r)
        exp1, _ = materialise(r, c1, cwd, world)
        cli1 = run_cli(c1['argv'], cwd)
        rec.case()
        judge(rec, c1, exp1, None, cli1, cwd, world)
        simfile = exp1['files']['save']
        if cli1['exc'] is not None or not os.path.isfile(simfile):
            return
        # step 2: load it again
        c2 = fresh_case(cls, k, i, f2, lay_ok)
        if how.startswith('cfg_'):
            add_cfg(c2, r, 'files', how[4:], ctx, value=(simname, simname))
        else:
            c2['tv'][how] = simname
        clean = nogrid or (r.random() < 0.4 and not lmj)
        if clean:
            c2['tv']['clean'] = True
            mname = 'm2_' + file_name(r, 'model')
            c2['tv']['model'] = mname
            if not nogrid:
                add_cfg(c2, r, 'gridding_opts', gen.choice(
                    r, ['lambda_factor', 'max_buffer', 'frequency']), ctx)
        if lay_ok and r.random() < 0.3:
            c2['tv']['layered'] = True
        if r.random() < 0.5:
            c2['tv']['output'] = 'second_' + file_name(r, 'output')
        # a loaded simulation with a stored misfit + json output is its own
        # input class (sim.misfit is then a memoryview)
        stored = f1 in ('misfit', 'gradient') and not c1['tv']['dry_run'] \
            and not clean and f2 in ('misfit', 'gradient')
        if lmj:
            c2['tv']['output'] = 'second_result.json'
        elif stored and (c2['tv'].get('output') or '').endswith('.json'):
            c2['tv']['output'] = c2['tv']['output'][:-5] + '.npz'
        if f2 == 'forward' and r.random() < 0.6:
            for key in ('add_noise', 'min_offset', 'ntype'):
                if r.random() < 0.5:
                    add_cfg(c2, r, 'noise_opts', key, ctx)
        if r.random() < 0.3:
            c2['tv']['nproc'] = 2      # ignored with --load (documented)
        c2['tv']['dry_run'] = bool(r.random() < 0.15) and not lmj
        set_function(c2, r)
        exp2 = R.expected_api(c2, cwd)
        # with --load the [simulation]/-n values are ignored (documented)
        lay = bool(exp2['sim'].get('layered', False))
        exp2['sim'] = {'layered': lay}
        f = exp2['files']
        if clean:
            save_world(world_b, fmodel=f['model'])
        pristine = os.path.join(cwd, 'pristine_' + os.path.basename(simfile))
        shutil.copy(simfile, pristine)
        cfgfile = os.path.join(cwd, 'second.cfg')
        c2['config_text'] = R.write_config(r, c2, cfgfile)
        c2['argv'] = ['second.cfg'] + R.term_tokens(r, c2['tv'])
        c2['premade'] = 'sequence'
        if os.path.isfile(f['output']):
            os.remove(f['output'])
        cli2 = run_cli(c2['argv'], cwd)
        rec.case()
        judge(rec, c2, exp2, {'load': pristine}, cli2, cwd, world)


def build_cell_number(r, case, ctx):
    add_gridding_keys(case, r, ctx, ['cell_number'])
    case['tv']['nproc'] = 1
    case['tv']['dry_run'] = bool(r.random() < 0.5)
    if r.random() < 0.5:
        keys = [k for k in ('frequency', 'lambda_factor', 'max_buffer',
                            'min_width_pps') if r.random() < 0.4]
        add_gridding_keys(case, r, ctx, keys)
    return case


def n_lines(cli):
    return len([ln for ln in (cli['out'] + cli['err']).splitlines()
                if ln.strip()])


def run_verbosity(rec, seed, k, i):
    """-q / default / -v / -vv order the amount of console output; the
    --verbosity N spellings are the same as the flags."""
    r = gen.rng(seed, 'C18', k, i)
    with Work() as cwd:
        world = make_world(gen.rng(seed, 'C18', k, i, 'world'), False,
                           small=True)
        ctx = ctx_of(world, cwd, False)
        counts = {}
        dry = bool(r.random() < 0.5)
        for tag, toks in (('q', ['-q']), ('0', []), ('v', ['-v']),
                          ('vv', ['-vv']), ('n-1', ['--verbosity', '-1']),
                          ('n1', ['--verbosity', '1']),
                          ('n2', ['--verbosity=2'])):
            case = fresh_case('verbosity', k, i, 'forward', False)
            add_cfg(case, r, 'simulation', 'gridding', ctx,
                    value=('same', 'same'))
            add_cfg(case, r, 'noise_opts', 'add_noise', ctx,
                    value=('False', False))
            case['tv'].update(dry_run=dry, verb_tokens=toks,
                              function_given=True, nproc=1)
            exp, seq = materialise(r, case, cwd, world)
            cli = run_cli(case['argv'], cwd)
            rec.case()
            if cli['exc'] is not None:
                rec.violation('C18:documented-option-rejected',
                              f'{toks}: {exc_str(cli["exc"])}',
                              case_summary(case, world))
                return
            counts[tag] = n_lines(cli)
            if not os.path.isfile(exp['files']['log']):
                rec.violation('C18:files', 'no log file',
                              case_summary(case, world))
        rec.event('verbosity_checks')
        # levels: {-q, --verbosity -1} <= {default} <= {-v, 1} < {-vv, 2}
        lv = [(counts['q'], counts['n-1']), (counts['0'],),
              (counts['v'], counts['n1']), (counts['vv'], counts['n2'])]
        ok = (max(lv[0]) <= min(lv[1]) and max(lv[1]) <= min(lv[2]) and
              max(lv[2]) < min(lv[3]))
        if not ok:
            rec.violation('C18:verbosity-order',
                          f'non-empty console lines per verbosity: {counts}',
                          case_summary(case, world))
        rec.distinct(('verbosity', dry))


def run_version(rec, seed, k, i):
    import emg3d
    with Work() as cwd:
        for toks, needle in ((['--version'], f'emg3d v{emg3d.__version__}'),
                             (['--report'], 'emg3d')):
            cli = run_cli(toks, cwd)
            rec.case()
            rec.event('version_report_checks')
            if cli['exc'] is not None or needle not in cli['out'] or \
                    os.listdir(cwd) or cli['n_pm']:
                rec.violation('C18:version-report',
                              f'{toks}: exception {exc_str(cli["exc"])}, '
                              f'stdout {cli["out"][:200]!r}, files '
                              f'{os.listdir(cwd)}', {'argv': toks})
        rec.distinct(('version-report',))


def run_subprocess(rec, seed, k, i):
    """The same comparison through a real `python -m emg3d` process."""
    r = gen.rng(seed, 'C18', k, i)
    with Work() as cwd:
        function = gen.choice(r, ['forward', 'misfit', 'gradient'])
        lay_ok = bool(r.random() < 0.3)
        case = fresh_case('subprocess', k, i, function, lay_ok)
        world = make_world(gen.rng(seed, 'C18', k, i, 'world'), lay_ok,
                           small=True)
        ctx = ctx_of(world, cwd, lay_ok)
        build_combo(r, case, ctx, dry=False)
        if get_cfg(case, 'simulation', 'gridding') != 'same' and \
                not case['tv'].get('layered'):
            add_cfg(case, r, 'simulation', 'gridding', ctx,
                    value=('same', 'same'))
            case['cfg'].pop('gridding_opts', None)
        # noise must be off: it cannot be recorded in another process
        add_cfg(case, r, 'noise_opts', 'add_noise', ctx,
                value=('False', False))
        set_function(case, r)
        avoid_freq_npz(case)
        exp, seq = materialise(r, case, cwd, world)
        p = subprocess.run([sys.executable, '-m', 'emg3d'] + case['argv'],
                           cwd=cwd, stdout=subprocess.PIPE,
                           stderr=subprocess.PIPE, timeout=600)
        rec.case()
        rec.event('subprocess_runs')
        cs = case_summary(case, world)
        Mon.noise_record = []
        free = {'verb': -1, 'tqdm_opts': False, 'name': 'emg3d CLI run'}
        if function == 'gradient' and 'receiver_interpolation' not in \
                exp['sim']:
            free['receiver_interpolation'] = 'linear'
        api = run_api(exp, cwd, free)
        if p.returncode != 0 or api['exc'] is not None:
            if p.returncode != 0 and api['exc'] is not None:
                rec.event('consistent_errors')
                return
            rec.violation('C18:documented-option-rejected' if p.returncode
                          else 'C18:cli-accepts-what-api-rejects',
                          f'python -m emg3d exit {p.returncode}: '
                          f'{p.stderr.decode(errors="replace")[-400:]}; API: '
                          f'{exc_str(api["exc"])}', cs)
            return
        f = exp['files']
        if not (os.path.isfile(f['output']) and os.path.isfile(f['log'])):
            rec.violation('C18:files', f'subprocess: output/log missing in '
                          f'{sorted(os.listdir(f["path"]))}', cs)
            return
        out = load_output(f['output'])
        for name, ref in api['res'].items():
            rec.event(f'result_{name}_checks')
            if name not in out:
                rec.violation(f'C18:result-{name}', f'subprocess: {name} '
                              'not in output', cs)
                continue
            if name == 'n_observations':
                ok, err = int(out[name]) == ref, 0.0
            else:
                ok, err = cmp_arrays(out[name], ref)
                rec.margin(f'{name}_rel_diff', err)
            if not ok:
                rec.violation(f'C18:result-{name}', f'subprocess run: {name} '
                              f'differs from the API result ({err:.3e})', cs)
        rec.distinct(('subprocess', function, ','.join(options_given(case))))


def run_docsync(rec):
    """The option table must list exactly the keys of docs/manual/cli.rst."""
    rst = common.REPO / 'docs' / 'manual' / 'cli.rst'
    if not rst.is_file():
        rec.extra_add('docsync_skipped_no_docs')
        return
    doc, sec = {}, None
    for line in rst.read_text().splitlines():
        s = line.strip()
        if s.startswith('[') and s.endswith(']'):
            sec = s[1:-1]
            doc[sec] = []
        elif sec and s.startswith('# ') and '=' in s:
            key = s[2:].split('=')[0].strip()
            if key.isidentifier() and not s[2:].startswith(' '):
                doc[sec].append(key)
    mine = {s: [k for k, _, _ in items] for s, items in R.SPEC.items()}
    rec.event('docsync_checks')
    if {s: sorted(v) for s, v in doc.items()} != \
            {s: sorted(v) for s, v in mine.items()}:
        diff = {s: sorted(set(doc.get(s, [])) ^ set(mine.get(s, [])))
                for s in set(doc) | set(mine)}
        rec.inconclusive('option table of vf/ref_c18.py is out of date with '
                         f'docs/manual/cli.rst: {diff}', None)


def run_doc_examples(rec, seed, k):
    """Informational: documented example values, verbatim (no verdict)."""
    r = gen.rng(seed, 'C18', k, 'docex')
    examples = [('noise_opts', 'max_offset', 'np.inf'),
                ('noise_opts', 'ntype', 'white_noise'),
                ('noise_opts', 'min_offset', '0.0'),
                ('simulation', 'file_dir', 'None'),
                ('gridding_opts', 'properties', '0.3, 1, 1e5'),
                ('gridding_opts', 'min_width_limits', '10, 100; None; 50')]
    with Work() as cwd:
        world = make_world(gen.rng(seed, 'C18', k, 'docex', 'world'), False,
                           small=True)
        for sec, key, text in examples:
            case = fresh_case('doc-example', k, 0, 'forward', False)
            case['cfg'] = {sec: [[key, text, text]]}
            case['tv'].update(dry_run=True, function_given=False)
            exp, seq = materialise(r, case, cwd, world)
            cli = run_cli(case['argv'], cwd)
            if cli['exc'] is not None:
                rec.extra_set('doc_example_values_not_accepted_INFO',
                              [f'[{sec}] {key} = {text}: '
                               f'{exc_str(cli["exc"])[:120]}'])


# --------------------------------------------------------------------------
def batch_cases(batch):
    """Deterministic list of (index, kind, payload) of a batch."""
    out = []
    i = 0
    for rep in range(batch.get('single_rep', 1)):
        for item in batch.get('singles', []):
            out.append((i, 'single', (item, rep)))
            i += 1
    for kind, n in (('combo', batch.get('n_combo', 0)),
                    ('override', batch.get('n_override', 0)),
                    ('unknown', batch.get('n_unknown', 0)),
                    ('sequence', batch.get('n_seq', 0)),
                    ('known', batch.get('n_known', 0)),
                    ('sub', batch.get('n_sub', 0))):
        for j in range(n):
            out.append((i, kind, j))
            i += 1
    out.append((i, 'misc', batch.get('misc')))
    return out


def run_one(rec, batch, i, kind, payload):
    seed, k = batch['seed'], batch['k']
    if kind == 'single':
        item, rep = payload
        function, lay_ok = single_requirements(item, rep, i + seed)
        dry = batch['tier'] == 'thorough' and rep == 1 and \
            item[2] != 'dry_run'

        def builder(r, case, ctx):
            build_single(r, case, ctx, item)
            if dry:
                case['tv']['dry_run'] = True
        run_regular(rec, seed, k, i, 'single', builder, function, lay_ok,
                    small=True, extra={'rep': rep, 'item': list(item)})
    elif kind == 'combo':
        r0 = gen.rng(seed, 'C18', k, i, 'pre')
        function = gen.choice(r0, ['forward', 'misfit', 'gradient'])
        lay_ok = bool(r0.random() < 0.4)
        run_regular(rec, seed, k, i, 'combo', build_combo, function, lay_ok,
                    small=True)
    elif kind == 'override':
        r0 = gen.rng(seed, 'C18', k, i, 'pre')
        which = OVERRIDES[(payload + k + seed) % len(OVERRIDES)]
        function = gen.choice(r0, ['forward', 'misfit', 'gradient'])
        run_regular(rec, seed, k, i,
                    'override_path' if which == 'path' else 'override',
                    build_override, function, which == 'layered', small=True,
                    extra={'which': which})
    elif kind == 'unknown':
        run_unknown(rec, seed, k, i)
    elif kind == 'sequence':
        run_sequence(rec, seed, k, i)
    elif kind == 'known':
        r0 = gen.rng(seed, 'C18', k, i, 'pre')
        function = gen.choice(r0, ['forward', 'misfit', 'gradient'])
        if (payload + k) % 4 == 0:
            run_regular(rec, seed, k, i, 'cell_number', build_cell_number,
                        function, False, small=True)
        elif (payload + k) % 4 == 1:
            run_regular(rec, seed, k, i, 'freq_npz', build_freq_npz,
                        function, False, small=True)
        elif (payload + k) % 4 == 2:
            run_sequence(rec, seed, k, i, cls='load_misfit_json')
        else:
            run_sequence(rec, seed, k, i, cls='clean_nogrid')
    elif kind == 'sub':
        run_subprocess(rec, seed, k, i)
    elif kind == 'misc':
        if payload == 'verbosity':
            run_verbosity(rec, seed, k, i)
        elif payload == 'version':
            run_version(rec, seed, k, i)
            run_doc_examples(rec, seed, k)
        elif payload == 'subprocess':
            run_subprocess(rec, seed, k, i)
        elif payload == 'docsync':
            run_docsync(rec)
            run_verbosity(rec, seed, k, i)


def warm_in_process():
    """Load every JIT kernel into this process, so that the process pools
    forked by Simulation inherit them instead of re-loading the cache."""
    import emg3d
    with contextlib.redirect_stdout(io.StringIO()), \
            contextlib.redirect_stderr(io.StringIO()), \
            warnings.catch_warnings():
        warnings.simplefilter('ignore')
        for j, gridding in enumerate(('same', 'single')):
            w = make_world(gen.rng(12345, 'C18', 'warm', j), False, small=True)
            survey = emg3d.Survey(
                sources=emg3d.TxElectricDipole((-200., 0., -500., 20., 5.)),
                receivers=[emg3d.RxElectricPoint((100., 0., -400., 0., 0.)),
                           emg3d.RxMagneticPoint((150., 20., -400., 10., 5.))],
                frequencies=[1.0], data=np.full((1, 2, 1), 1e-12+1e-12j),
                noise_floor=1e-15, relative_error=0.05)
            for ri in ('linear', 'cubic'):
                sim = emg3d.Simulation(
                    survey.copy(), w['model'], gridding=gridding,
                    max_workers=1, verb=-1, tqdm_opts=False,
                    receiver_interpolation=ri,
                    solver_opts={'maxit': 2, 'sslsolver': j == 0,
                                 'semicoarsening': True,
                                 'linerelaxation': True})
                _ = sim.gradient


def run_batch(batch):
    rec = common.Rec(max_viol=16, max_samples=2)
    try:
        warm_in_process()
    except Exception:  # noqa
        rec.inconclusive('warm-up failed: ' + traceback.format_exc()[-600:],
                         None)
    only = batch.get('only')
    for i, kind, payload in batch_cases(batch):
        if only is not None and i != only:
            continue
        try:
            run_one(rec, batch, i, kind, payload)
        except Exception:  # noqa - harness error => inconclusive
            rec.inconclusive('harness error: ' + traceback.format_exc()[-900:],
                             {'k': batch['k'], 'i': i, 'kind': kind,
                              'payload': payload})
        finally:
            Mon.phase = None
            reset_logging()
    return rec.result()


def finalize(merged, tier):
    f = 1 if tier == 'quick' else 3
    common.require_events(merged, {
        'cli_runs_judged': 250*f, 'acceptance_checks': 230*f,
        'constructor_checks': 180*f, 'compute_checks': 120*f,
        'result_data_checks': 120*f, 'result_misfit_checks': 50*f,
        'result_gradient_checks': 25*f, 'dry_run_checks': 40*f,
        'unknown_option_checks': 60*f, 'load_checks': 25*f,
        'save_checks': 30*f, 'grid_checks': 30*f, 'verbosity_checks': 4,
        'subprocess_runs': 3, 'version_report_checks': 4})
    # every documented key must have reached the oracle at least once
    seen = set(merged['extra'].get('set:options_reaching_oracle', []))
    want = {f'{s}.{k}' for s, items in R.SPEC.items() for k, _, _ in items}
    want |= {'--' + k for k in ('nproc', 'path', 'survey', 'model', 'output',
                                'save', 'load', 'cache', 'clean', 'layered',
                                'dry_run')}
    miss = sorted(want - seen - {'gridding_opts.cell_number'})
    kf = {v['key'] for v in merged['violations']}
    if 'gridding_opts.cell_number' not in seen and \
            'C18:cell_number-rejected-downstream' not in kf:
        miss.append('gridding_opts.cell_number')
    merged['extra']['documented_options_not_reaching_oracle'] = miss
    if miss and not merged['violations']:
        merged['inconclusive'].append(
            {'reason': f'documented options never reached the oracle: {miss}',
             'case': None})
