"""C06 - grid-size independent multigrid convergence on the reference problems.

Monitor: info['error_at_cycle'], it_mg, exit of stand-alone multigrid solves
(client boundary).  Oracle: calibrated regression thresholds (calib/c06.json,
measured on the pinned tree, margins stated in RULE) + h-independence relative
to the 16^3 member of each family.  Deterministic inputs; no wall-clock.
"""
import json
import numpy as np
from vf import common

PROP = 'C06'
NEEDS_JIT = True
TIMEOUT = {'quick': 1500, 'thorough': 3500}
RULE = ("families = cycle {F,V,W} x nu_pre=nu_post {1,2,3} x medium "
        "{isotropic, triaxial 1:2:3} x domain {frequency 1 Hz, Laplace}, "
        "plus isotropic with homogeneous mu_r = 2 or 0.5 (nu=2); "
        "uniform grids with cubic cells refining a 1600 m cube (h=100 m at 16^3), n in {8,16,32} (+64 for the "
        "nu=2 frequency-domain families; thorough: all to 64, 128 for nu=2, "
        "and non-cubic 2^a x 3*2^b x 5*2^c shapes); rho(n) = max per-cycle "
        "residual reduction after the first cycle; verdict: exit==0, rho(n) <= "
        "1.30*rho(16) for n>16, rho(n) <= cap(medium, nu) = 1.5 x largest "
        "factor measured on the pinned tree, cycles(n) <= cycles(16)+3; "
        "distinct = (family, n) solved")
ASSUMPTIONS = [
    "calibrated regression monitor of a documented performance claim: caps "
    "and margins are measured (calib/c06.json), not derived from theory",
    "deterministic dipole source at a fixed physical location",
]
CALIB = common.VERIF / 'calib' / 'c06.json'
H_RATIO = 1.30       # floor of the allowed rho(n)/rho(base)
REG_MARGIN = 1.25    # allowed growth of a measured ratio (regression)
CAP_MARGIN = 1.5
MAX_PARALLEL = 8     # 128^3 solves need ~2 GB each


def families():
    out = []
    for cyc in 'FVW':
        for nu in (1, 2, 3):
            for med in ('iso', 'tri'):
                for dom in ('f', 's'):
                    out.append({'cycle': cyc, 'nu': nu, 'medium': med,
                                'domain': dom})
    return out


def families_mu():
    """Homogeneous isotropic medium with a relative magnetic permeability
    different from one (still the homogeneous showcase; added after a seeded
    change that dropped mu_r from the coarse-grid operators was missed)."""
    out = []
    for cyc in 'FVW':
        for med in ('imu2', 'imuh'):
            for dom in ('f', 's'):
                out.append({'cycle': cyc, 'nu': 2, 'medium': med,
                            'domain': dom})
    return out


def fam_id(f):
    return f"{f['cycle']}{f['nu']}{f['medium']}{f['domain']}"


def plan(tier, seed):
    b = []
    for f in families():
        ns = [8, 16, 32]
        if tier == 'thorough' or (f['nu'] == 2 and f['domain'] == 'f'):
            ns = ns + [64]
        b.append({'id': fam_id(f), 'family': f, 'shapes': [[n]*3 for n in ns],
                  'base': [16]*3})
    if tier == 'quick':
        # one elongated refinement ladder (up to 80 cells in a direction, a
        # count that is not a power of two) for two families
        for f in families():
            if fam_id(f) in ('F2isof', 'V2trif'):
                b.append({'id': fam_id(f)+'-nc', 'family': f,
                          'shapes': [[16, 12, 20], [32, 24, 40], [64, 48, 80]],
                          'base': [16, 12, 20]})
    # a ladder in which one direction (3*2^b cells) runs out of coarsening
    # levels long before the others (added after a seeded change that
    # mis-handled exactly this case was missed)
    for f in families():
        if fam_id(f) in ('F2isof', 'V2trif'):
            b.append({'id': fam_id(f)+'-nc3', 'family': f,
                      'shapes': [[16, 3, 10], [32, 6, 20], [64, 12, 40]],
                      'base': [16, 3, 10]})
    for f in families_mu():
        if tier == 'thorough' or (f['cycle'] == 'F' and f['domain'] == 'f') \
                or fam_id(f) == 'V2imu2s':
            ns = [8, 16, 32] + ([64] if tier == 'thorough' else [])
            b.append({'id': fam_id(f), 'family': f,
                      'shapes': [[n]*3 for n in ns], 'base': [16]*3})
    if tier == 'thorough':
        for f in families():
            if f['nu'] == 2:
                b.append({'id': fam_id(f)+'-128', 'family': f,
                          'shapes': [[16]*3, [128]*3], 'base': [16]*3,
                          'timeout': 3400})
            if f['nu'] == 2 and f['domain'] == 'f':
                b.append({'id': fam_id(f)+'-nc', 'family': f,
                          'shapes': [[16, 12, 20], [32, 24, 40], [64, 48, 80]],
                          'base': [16, 12, 20]})
                b.append({'id': fam_id(f)+'-nc2', 'family': f,
                          'shapes': [[8, 24, 10], [16, 48, 20], [32, 96, 40]],
                          'base': [8, 24, 10]})
    return b


def solve_one(f, shape, base=None):
    import emg3d
    # cubic cells: the coarsest member of a family has h = 100 m (16^3 for
    # the cubes), every other member refines it.
    base = base or [16, 16, 16]
    h = 100.0*base[0]/shape[0] if shape[0] >= base[0] else 100.0*16/shape[0]
    hs = [np.full(n, h) for n in shape]
    L = [n*h for n in shape]
    grid = emg3d.TensorMesh(hs, origin=(0, 0, 0))
    if f['medium'] == 'iso':
        model = emg3d.Model(grid, property_x=1.0)
    elif f['medium'] in ('imu2', 'imuh'):
        model = emg3d.Model(grid, property_x=1.0,
                            mu_r=2.0 if f['medium'] == 'imu2' else 0.5)
    else:
        model = emg3d.Model(grid, property_x=1.0, property_y=2.0,
                            property_z=3.0)
    freq = 1.0 if f['domain'] == 'f' else -2*np.pi
    sf = emg3d.get_source_field(
        grid, (0.44*L[0], 0.41*L[1], 0.47*L[2], 30.0, 20.0), freq)
    _, info = emg3d.solve(model, sf, sslsolver=False, semicoarsening=False,
                          linerelaxation=False, cycle=f['cycle'],
                          nu_pre=f['nu'], nu_post=f['nu'], tol=1e-9, maxit=50,
                          verb=-1, return_info=True)
    err = np.asarray(info['error_at_cycle'], dtype=float)
    fac = err[2:]/err[1:-1] if len(err) > 2 else np.array([np.nan])
    return {'exit': int(info['exit']), 'it': int(info['it_mg']),
            'rho': float(np.max(fac)), 'factors': [float(x) for x in fac],
            'msg': info['exit_message']}


def run_batch(batch):
    rec = common.Rec(max_samples=2)
    f = batch['family']
    calib = json.loads(CALIB.read_text()) if CALIB.exists() else None
    res = {}
    for shape in batch['shapes']:
        res[tuple(shape)] = solve_one(f, shape, batch['base'])
        rec.case()
        rec.event('solves')
    base = res[tuple(batch['base'])]
    measured = {'x'.join(map(str, s)): {'rho': r_['rho'], 'it': r_['it']}
                for s, r_ in res.items()}
    rec.r['extra']['measured:' + batch['id']] = json.dumps(measured)
    if calib is None:
        rec.inconclusive('calibration file calib/c06.json missing',
                         {'family': f})
        return rec.result()
    cap = calib['caps'][f"{f['medium']}{f['nu']}"]
    for shape, r_ in res.items():
        case = {'family': f, 'shape': list(shape), 'result': r_,
                'base_rho': base['rho'], 'cap': cap}
        rec.event('exit_checks')
        if r_['exit'] != 0:
            rec.violation('C06:not-converged', f"stand-alone multigrid did not "
                          f"converge on {shape}: {r_['msg']} after {r_['it']} "
                          f"cycles", case)
            continue
        rec.event('cap_checks')
        rec.margin('rho_over_cap', r_['rho']/cap)
        if not (r_['rho'] <= cap):
            rec.violation('C06:convergence-factor-above-cap',
                          f"rho={r_['rho']:.4f} on {shape} exceeds cap "
                          f"{cap:.4f} ({f['medium']}, nu={f['nu']}, cycle "
                          f"{f['cycle']})", case)
        if np.prod(shape) > np.prod(batch['base']):
            rec.event('h_independence_checks')
            cm = calib['measured'].get(batch['id'], {})
            k_s, k_b = ('x'.join(map(str, shape)),
                        'x'.join(map(str, batch['base'])))
            if k_s not in cm or k_b not in cm:
                rec.inconclusive(f'no calibration for {batch["id"]} {k_s}',
                                 case)
                continue
            allowed = max(H_RATIO, REG_MARGIN*cm[k_s]['rho']/cm[k_b]['rho'])
            case['allowed_ratio'] = allowed
            rec.margin('ratio_over_allowed',
                       r_['rho']/base['rho']/allowed)
            rec.margin('rho_over_rho_base', r_['rho']/base['rho'])
            if not (r_['rho'] <= allowed*base['rho']):
                rec.violation('C06:rate-deteriorates-with-refinement',
                              f"rho({shape})={r_['rho']:.4f} > {allowed:.3f} x"
                              f" rho({batch['base']})={base['rho']:.4f} "
                              f"(pinned tree: {cm[k_s]['rho']:.4f} vs "
                              f"{cm[k_b]['rho']:.4f})", case)
            rec.event('cycle_count_checks')
            rec.margin('extra_cycles_vs_base', r_['it'] - base['it'])
            # +3 as planned, but never below what the pinned tree itself
            # needs (+2): ladders with a tiny, pre-asymptotic base member
            # (16x3x10) legitimately need 4 more cycles on the finest grid.
            allowed_it = max(base['it'] + 3,
                             cm[k_s]['it'] - cm[k_b]['it'] + base['it'] + 2)
            if not (r_['it'] <= allowed_it):
                rec.violation('C06:cycle-count-grows', f"{r_['it']} cycles on "
                              f"{shape} vs {base['it']} on {batch['base']}",
                              case)
        rec.distinct((fam_id(f), tuple(shape)))
    rec.sample({'family': f, 'results': {str(k): {'rho': v['rho'],
                                                   'cycles': v['it']}
                                         for k, v in res.items()}})
    return rec.result()


def finalize(merged, tier):
    common.require_events(merged, {'solves': 100, 'cap_checks': 100,
                                   'h_independence_checks': 36})
    meas = {k[9:]: json.loads(v) for k, v in merged['extra'].items()
            if k.startswith('measured:')}
    for k in list(merged['extra']):
        if k.startswith('measured:'):
            del merged['extra'][k]
    merged['extra']['measured_rho'] = {k: {s: round(v['rho'], 4)
                                           for s, v in d.items()}
                                       for k, d in sorted(meas.items())}


def _cal_batch(b):
    return b['id'], {'x'.join(map(str, sh)): solve_one(b['family'], sh,
                                                       b['base'])
                     for sh in b['shapes']}


def calibrate():
    """Measure every planned configuration on the pinned tree (only the
    batches that are not in calib/c06.json yet, unless --all is given)."""
    import sys
    from concurrent.futures import ProcessPoolExecutor
    from vf import worker
    worker.bootstrap()
    batches = plan('thorough', 0)
    old = json.loads(CALIB.read_text()) if CALIB.exists() else None
    if old and '--all' not in sys.argv:
        todo = [b for b in batches if b['id'] not in old['measured']]
        with ProcessPoolExecutor(4) as ex:
            meas = dict(ex.map(_cal_batch, todo))
        for k, d in meas.items():
            old['measured'][k] = {s_: {'rho': v['rho'], 'it': v['it']}
                                  for s_, v in d.items()}
            fam = [b for b in todo if b['id'] == k][0]['family']
            key = f"{fam['medium']}{fam['nu']}"
            for v in d.values():
                assert v['exit'] == 0, (k, v)
                if v['rho'] > old['measured_max'].get(key, 0.0):
                    old['measured_max'][key] = v['rho']
                    old['caps'][key] = round(CAP_MARGIN*v['rho'], 5)
            print(k, {s_: round(v['rho'], 4) for s_, v in d.items()})
        CALIB.write_text(json.dumps(old, indent=1) + '\n')
        return
    batches.sort(key=lambda b: -max(np.prod(s) for s in b['shapes']))
    with ProcessPoolExecutor(8) as ex:
        meas = dict(ex.map(_cal_batch, batches))
    caps = {}
    for b in batches:
        f = b['family']
        key = f"{f['medium']}{f['nu']}"
        for r_ in meas[b['id']].values():
            assert r_['exit'] == 0, (b['id'], r_)
            caps[key] = max(caps.get(key, 0), r_['rho'])
    out = {'note': 'measured on the pinned tree (all thorough-tier '
                   'configurations); caps = 1.5 x largest per-cycle factor '
                   'per (medium, nu); allowed rho(n)/rho(base) = max(1.30, '
                   '1.25 x measured ratio)',
           'measured_max': caps,
           'caps': {k: round(CAP_MARGIN*v, 5) for k, v in caps.items()},
           'measured': {k: {s_: {'rho': v['rho'], 'it': v['it']}
                            for s_, v in d.items()}
                        for k, d in sorted(meas.items())}}
    CALIB.parent.mkdir(exist_ok=True)
    CALIB.write_text(json.dumps(out, indent=1) + '\n')
    ratios = []
    for b in batches:
        base = 'x'.join(map(str, b['base']))
        for s_, v in meas[b['id']].items():
            ratios.append((v['rho']/meas[b['id']][base]['rho'], b['id'], s_))
    print('largest ratios to base:', sorted(ratios)[-6:])
    print('caps', out['caps'])


if __name__ == '__main__':
    calibrate()
