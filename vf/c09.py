"""C09 - receiver sampling <-> point sources are exact transposes; reciprocity.

Monitors at the boundary of emg3d.fields.get_receiver, get_source_field,
get_magnetic_field, the receivers' ``_adjoint_source`` mapping and
emg3d.solve.  Oracle: an independent reference model written here -
trilinear weights on the staggered edge / face grids, the documented rotation
convention, a slice-based discrete curl and its hand-written adjoint, the
documented Faraday relation  curl E = s mu0 mu_r H  - that shares no code
with emg3d.fields / emg3d.maps / emg3d.electrodes.

Clauses
  (E1) get_receiver(E, p, 'linear')       == <u_ref(p), E>         (sampling)
  (E2) get_source_field(TxElectricPoint(p), frequency=None) == u_ref(p)
  (E3) get_receiver(E, p, 'linear')       == <u_emg3d(p), E>       (transpose)
  (E4) the vectorised call (tuple of arrays) gives the same numbers
  (M1) get_receiver(get_magnetic_field(model, E), p, 'linear')
                                          == P_f(p) curl(E) / (s mu0)
  (M2) get_source_field(TxMagneticPoint(p), frequency=None) == -curl^T P_f^T
  (M3) (M1 value) == -<u_m_emg3d(p), E> / (s mu0)                  (transpose)
  (A)  the source built through Rx*Point._adjoint_source is the transpose of
       that receiver's kind
  (N)  NaN for receivers outside the grid / in the outermost cells, a finite
       number everywhere else (linear and cubic, E and H)
  (R)  reciprocity of solved responses, electric-electric and
       magnetic-magnetic, within the bound implied by the solver tolerance
"""
import numpy as np
from vf import common, gen

PROP = 'C09'
NEEDS_JIT = True
TIMEOUT = {'quick': 1200, 'thorough': 3400}
RULE = ("random stretched grids (3..12 cells per direction, thorough to 16), "
        "random real/complex fields, random models (4 anisotropy cases, six "
        "mappings, eps_r; mu_r = 1 wherever a magnetic receiver/source is "
        "involved); receiver positions in the closed second to second-last "
        "cell with per-direction classes {uniform, on node, on the inner "
        "limit node, on cell centre, one ulp beside a node} and orientation "
        "classes {generic, axis, 45-degree, near-axis, tiny-factor}; NaN "
        "policy on positions {outermost cell, one ulp outside the inner "
        "limit, on the boundary, outside}; reciprocity on solved fields for "
        "pairs of interior points; distinct = (kind, position class, "
        "orientation class, call format, dtype) tuples whose value reached "
        "the reference oracle")
ASSUMPTIONS = [
    "grid geometry (nodes, cell centres, widths) is taken from the "
    "discretize TensorMesh as exact input data",
    "orientation convention as documented in electrodes.rotation: azimuth "
    "anticlockwise from x towards y, elevation upwards from the xy-plane",
    "Faraday relation as documented in get_magnetic_field: "
    "curl E = s mu0 mu_r H; magnetic clauses use mu_r = 1 (the magnetic "
    "point source is documented as not implemented for mu_r)",
    "the closed second to second-last cell counts as interior (a receiver "
    "exactly on the second / second-last node plane returns a number)",
    "get_receiver drops components whose rotation factor is <= 1e-10 when "
    "all receivers of one call have it; that documented cut-off is granted "
    "as extra slack (1e-10 |E|) for the 'tiny-factor' orientation class only",
    "reciprocity is judged only for solves that emg3d itself reports as "
    "converged (C01 certifies that report)",
    "mu_0 from scipy.constants",
]

# Rounding bounds.  A rotation factor carries an absolute error of a few eps
# (emg3d: scipy cosdg/sindg, reference: own reduction); on grids whose widths
# differ by orders of magnitude between directions that error is multiplied by
# the stencil of the *other* components, hence the ROT_EPS x (unrotated
# scale) term in every magnetic bound.  Every trilinear weight is a product of three factors
# (x - x_i)/(x_{i+1} - x_i) or one minus it, computed from identical floats by
# emg3d and by the reference: absolute error <= ~5 eps per weight, 24 weights
# (x rotation factor, itself good to 1.4e-15 with radians) => < 4e-14 max|E|.
TOL_S = 5e-13      # sampled values, relative to the condition scale S
TOL_V = 2e-13      # entries of the electric source vector (weights <= 1)
TOL_VM = 1e-12     # entries of the magnetic vector, relative to max |curl|^T|P|^T
                   # (sums of up to four W/h terms; worst observed 1e-14)
CUT = 1e-10        # emg3d's documented component cut-off (tiny-factor class)
ROT_EPS = 16*np.finfo(float).eps   # absolute error granted to a rotation factor


# --------------------------------------------------------------------------
# Reference model
def _sincosd(x):
    """(sin, cos) of x degrees; exact at multiples of 90, accurate beside."""
    import math
    x = math.fmod(float(x), 360.0)              # exact
    k = int(round(x/90.0))
    t = math.radians(x - 90.0*k)                # |x - 90 k| <= 45, exact diff
    s, c = math.sin(t), math.cos(t)
    return [(s, c), (c, -s), (-s, -c), (-c, s)][k % 4]


def ref_rotation(az, el):
    """Unit vector of (azimuth, elevation) in degrees; z upwards."""
    sa, ca = _sincosd(az)
    se, ce = _sincosd(el)
    return np.array([ca*ce, sa*ce, se])


def lin1d(pts, x):
    """Index i and weights (w0, w1) of linear interpolation on pts at x."""
    n = len(pts)
    i = int(np.searchsorted(pts, x, side='right')) - 1
    i = min(max(i, 0), n-2)
    w1 = (x - pts[i])/(pts[i+1] - pts[i])
    return i, 1.0 - w1, w1


def tri(shape, px, py, pz, p):
    """Dense array of trilinear weights of point p on the grid px x py x pz."""
    W = np.zeros(shape)
    i, a0, a1 = lin1d(px, p[0])
    j, b0, b1 = lin1d(py, p[1])
    k, c0, c1 = lin1d(pz, p[2])
    for di, a in ((0, a0), (1, a1)):
        for dj, b in ((0, b0), (1, b1)):
            for dk, c in ((0, c0), (1, c1)):
                W[i+di, j+dj, k+dk] += a*b*c
    return W


class Geo:
    """Geometry handed to the reference model (plain arrays)."""

    def __init__(self, grid):
        self.n = [np.array(grid.nodes_x, dtype=float),
                  np.array(grid.nodes_y, dtype=float),
                  np.array(grid.nodes_z, dtype=float)]
        self.c = [np.array(grid.cell_centers_x, dtype=float),
                  np.array(grid.cell_centers_y, dtype=float),
                  np.array(grid.cell_centers_z, dtype=float)]
        self.h = [np.array(h, dtype=float) for h in grid.h]
        nx, ny, nz = (len(h) for h in self.h)
        self.shape = (nx, ny, nz)
        self.se = [(nx, ny+1, nz+1), (nx+1, ny, nz+1), (nx+1, ny+1, nz)]
        self.sf = [(nx+1, ny, nz), (nx, ny+1, nz), (nx, ny, nz+1)]

    def split(self, vec, faces=False):
        shp = self.sf if faces else self.se
        n0 = int(np.prod(shp[0]))
        n1 = int(np.prod(shp[1]))
        return [vec[:n0].reshape(shp[0], order='F'),
                vec[n0:n0+n1].reshape(shp[1], order='F'),
                vec[n0+n1:].reshape(shp[2], order='F')]

    @staticmethod
    def join(parts):
        return np.concatenate([a.ravel('F') for a in parts])

    def edge_weights(self, p):
        """Trilinear weights on the three edge grids (no rotation)."""
        n, c = self.n, self.c
        return [tri(self.se[0], c[0], n[1], n[2], p),
                tri(self.se[1], n[0], c[1], n[2], p),
                tri(self.se[2], n[0], n[1], c[2], p)]

    def face_weights(self, p):
        """Trilinear weights on the three face grids (no rotation)."""
        n, c = self.n, self.c
        return [tri(self.sf[0], n[0], c[1], c[2], p),
                tri(self.sf[1], c[0], n[1], c[2], p),
                tri(self.sf[2], c[0], c[1], n[2], p)]

    def curl(self, e):
        """Circulation / face area: edges [ex, ey, ez] -> faces [fx, fy, fz]."""
        ex, ey, ez = e
        hx = self.h[0][:, None, None]
        hy = self.h[1][None, :, None]
        hz = self.h[2][None, None, :]
        fx = (ez[:, 1:, :] - ez[:, :-1, :])/hy - (ey[:, :, 1:] - ey[:, :, :-1])/hz
        fy = (ex[:, :, 1:] - ex[:, :, :-1])/hz - (ez[1:, :, :] - ez[:-1, :, :])/hx
        fz = (ey[1:, :, :] - ey[:-1, :, :])/hx - (ex[:, 1:, :] - ex[:, :-1, :])/hy
        return [fx, fy, fz]

    def curl_t(self, w, absolute=False):
        """Adjoint of ``curl`` written out by hand: faces -> edges.

        With absolute=True every contribution is added with a plus sign
        (|curl|^T |w|): the condition scale of the functional.
        """
        wx, wy, wz = w
        if absolute:
            wx, wy, wz = abs(wx), abs(wy), abs(wz)
        sg = 1.0 if absolute else -1.0
        hx = self.h[0][:, None, None]
        hy = self.h[1][None, :, None]
        hz = self.h[2][None, None, :]
        ex = np.zeros(self.se[0], dtype=wx.dtype)
        ey = np.zeros(self.se[1], dtype=wx.dtype)
        ez = np.zeros(self.se[2], dtype=wx.dtype)
        # fx = d_y ez / hy - d_z ey / hz
        ez[:, 1:, :] += wx/hy
        ez[:, :-1, :] += sg*wx/hy
        ey[:, :, 1:] += sg*wx/hz
        ey[:, :, :-1] += wx/hz
        # fy = d_z ex / hz - d_x ez / hx
        ex[:, :, 1:] += wy/hz
        ex[:, :, :-1] += sg*wy/hz
        ez[1:, :, :] += sg*wy/hx
        ez[:-1, :, :] += wy/hx
        # fz = d_x ey / hx - d_y ex / hy
        ey[1:, :, :] += wz/hx
        ey[:-1, :, :] += sg*wz/hx
        ex[:, 1:, :] += sg*wz/hy
        ex[:, :-1, :] += wz/hy
        return [ex, ey, ez]


def sval_mu0(freq):
    from scipy.constants import mu_0
    from vf import refop
    return refop.sval(freq)*mu_0


class RefPoint:
    """Everything the reference says about one point p = (x, y, z, az, el)."""

    def __init__(self, geo, p):
        self.rot = ref_rotation(p[3], p[4])
        ew = geo.edge_weights(p[:3])
        self.ew = ew
        self.u = Geo.join([self.rot[c]*ew[c] for c in range(3)])
        self.u1 = float(np.abs(self.u).sum())
        fw = [self.rot[c]*w for c, w in enumerate(geo.face_weights(p[:3]))]
        self.fw = fw
        self.um = -Geo.join(geo.curl_t(fw))
        self.am = Geo.join(geo.curl_t(fw, absolute=True))
        # scale of the three unrotated magnetic components together (what a
        # dropped component can contribute per unit rotation factor)
        self.am_unrot = Geo.join(geo.curl_t(geo.face_weights(p[:3]),
                                            absolute=True))


# --------------------------------------------------------------------------
# Generators
def shape_for(r, tier, lo=3):
    hi = 13 if tier == 'quick' else 17
    return tuple(int(r.integers(lo, hi)) for _ in range(3))


def coord_interior(r, nodes, cc, inner=False):
    """One coordinate in the closed second to second-last cell + class.

    inner=True restricts to [cc[1], cc[n-2]] (needs >= 5 cells): there the
    curl stencil of a magnetic point source touches no boundary edge.
    """
    n = len(nodes) - 1            # cells
    if inner:
        lo, hi, j0, j1 = cc[1], cc[n-2], 2, n-2      # nodes j0..j1 allowed
    else:
        lo, hi, j0, j1 = nodes[1], nodes[n-1], 1, n-1
    u = r.random()
    if u < 0.55:
        return float(r.uniform(lo, hi)), 'u'
    if u < 0.70:
        j = int(r.integers(j0, j1+1))
        return float(nodes[j]), ('lim' if j in (1, n-1) else 'node')
    if u < 0.80:
        return float(lo if r.random() < 0.5 else hi), (
            'cc' if inner else 'lim')
    if u < 0.90:
        j = int(r.integers(1, n-1))
        return float(cc[j]), 'cc'
    j = int(r.integers(j0, j1+1))
    up = r.random() < 0.5
    if j == 1:
        up = True
    if j == n-1:
        up = False
    x = float(np.nextafter(nodes[j], np.inf if up else -np.inf))
    return x, 'ulp'


def coord_outside(r, nodes):
    """One coordinate for which the receiver must return NaN + class."""
    n = len(nodes) - 1
    h0, h1 = nodes[1]-nodes[0], nodes[n]-nodes[n-1]
    u = r.random()
    low = r.random() < 0.5
    if u < 0.35:
        x = r.uniform(nodes[0], nodes[1]) if low else r.uniform(
            nodes[n-1], nodes[n])
        x = float(x)
        if not (nodes[0] < x < nodes[1] or nodes[n-1] < x < nodes[n]):
            x = float(nodes[0] + 0.5*h0 if low else nodes[n] - 0.5*h1)
        return x, 'outer-cell'
    if u < 0.55:
        x = np.nextafter(nodes[1], -np.inf) if low else np.nextafter(
            nodes[n-1], np.inf)
        return float(x), 'ulp-beyond-limit'
    if u < 0.70:
        return float(nodes[0] if low else nodes[n]), 'on-boundary'
    d = 10.0**r.uniform(-9, 3)
    x = nodes[0] - d*h0 if low else nodes[n] + d*h1
    if not (x < nodes[0] or x > nodes[n]):
        x = nodes[0] - h0 if low else nodes[n] + h1
    return float(x), 'outside'


AXIS_AZ = [0.0, 90.0, 180.0, -90.0, -180.0, 270.0]
AXIS_EL = [0.0, 90.0, -90.0]


def orientation(r):
    u = r.random()
    if u < 0.50:
        return float(r.uniform(-180, 180)), float(r.uniform(-90, 90)), 'gen'
    if u < 0.65:
        return gen.choice(r, AXIS_AZ), gen.choice(r, AXIS_EL), 'axis'
    if u < 0.75:
        return (float(45*r.integers(-4, 9)), float(45*r.integers(-2, 3)),
                'diag')
    if u < 0.93:
        # factor sin(d) between 1.7e-9 and 1e-2: above emg3d's cut-off
        d = 10.0**r.uniform(-7, -0.3)*(1 if r.random() < 0.5 else -1)
        if r.random() < 0.5:
            return gen.choice(r, AXIS_AZ) + d, gen.choice(r, [0.0, 0.0, 30.0]
                                                          ), 'near'
        return float(r.uniform(-180, 180)), gen.choice(r, AXIS_EL) + d, 'near'
    # a non-zero factor below the cut-off 1e-10 (documented slack)
    d = 10.0**r.uniform(-12, -8.5)*(1 if r.random() < 0.5 else -1)
    if r.random() < 0.5:
        return gen.choice(r, AXIS_AZ) + d, 0.0, 'tiny'
    return float(r.uniform(-180, 180)), d, 'tiny'


def interior_point(r, geo, inner=False):
    xs, cl = [], []
    for d in range(3):
        x, c = coord_interior(r, geo.n[d], geo.c[d], inner)
        xs.append(x)
        cl.append(c)
    az, el, oc = orientation(r)
    # emg3d drops components whose factor is <= 1e-10 (if all receivers of a
    # call have it).  Exact multiples of 45 degrees give exact zeros or large
    # factors; everything else is (re)classified by the factor itself.
    if oc not in ('axis', 'diag'):
        f = np.abs(ref_rotation(az, el))
        if np.any(f <= 1.01*CUT):
            oc = 'tiny'
    return (xs[0], xs[1], xs[2], float(az), float(el)), '-'.join(sorted(cl)), oc


def nan_point(r, geo):
    """At least one coordinate outside the valid region."""
    bad = r.random(3) < 0.4
    if not bad.any():
        bad[int(r.integers(3))] = True
    xs, cl = [], []
    for d in range(3):
        if bad[d]:
            x, c = coord_outside(r, geo.n[d])
            cl.append(c)
        else:
            x, _ = coord_interior(r, geo.n[d], geo.c[d])
        xs.append(x)
    az, el, _ = orientation(r)
    return (xs[0], xs[1], xs[2], float(az), float(el)), '+'.join(sorted(cl))


def flat(x):
    return np.atleast_1d(np.asarray(x)).ravel()


# --------------------------------------------------------------------------
# Harness self-checks (failure => inconclusive, never a finding)
def selfcheck(rec, r, grid, geo):
    n_e = sum(int(np.prod(s)) for s in geo.se)
    n_f = sum(int(np.prod(s)) for s in geo.sf)
    e = r.standard_normal(n_e)
    f = r.standard_normal(n_f)
    lhs = float(np.dot(Geo.join(geo.curl(geo.split(e))), f))
    rhs = float(np.dot(e, Geo.join(geo.curl_t(geo.split(f, faces=True)))))
    sc = float(np.dot(np.abs(e), Geo.join(
        geo.curl_t(geo.split(f, faces=True), absolute=True))))
    rec.event('selfcheck_curl_adjoint')
    if not (abs(lhs - rhs) <= 1e-12*sc):
        rec.inconclusive('framework self-check: reference curl and its '
                         f'hand-written adjoint disagree ({lhs} vs {rhs})')
        return False
    try:
        C = grid.edge_curl          # discretize, third party
        d = np.abs(C @ e - Geo.join(geo.curl(geo.split(e)))).max()
        s2 = np.abs(abs(C) @ np.abs(e)).max()
        rec.event('selfcheck_curl_vs_discretize')
        if not (d <= 1e-12*s2):
            rec.inconclusive('framework self-check: reference curl differs '
                             f'from discretize edge_curl ({d:.3e})')
            return False
    except Exception as ex:  # noqa
        rec.inconclusive(f'framework self-check: discretize curl failed: {ex}')
        return False
    return True


# --------------------------------------------------------------------------
# Transposition / sampling / NaN policy
def call_receiver(fld, p, fmt, magnetic, method='linear'):
    """One receiver through one of the accepted call formats."""
    import emg3d
    from emg3d import fields
    Rx = emg3d.RxMagneticPoint if magnetic else emg3d.RxElectricPoint
    if fmt == 'tuple':
        out = fields.get_receiver(fld, tuple(p), method)
    elif fmt == 'rx':
        out = fields.get_receiver(fld, Rx(p), method)
    elif fmt == 'list':
        out = fields.get_receiver(fld, [Rx(p)], method)
    else:  # method of the field
        out = fld.get_receiver(tuple(p), method=method)
    v = flat(out)
    if v.size != 1:
        raise RuntimeError(f'receiver call returned {v.size} values')
    return v[0]


FORMATS = ['tuple', 'rx', 'list', 'method']


def transposes(rec, seed, k, g, tier, npts, nnan):
    import emg3d
    from emg3d import fields
    r = gen.rng(seed, 'C09', 'T', k, g)
    shape = shape_for(r, tier)
    gs = gen.grid_spec(r, shape, same_base=(r.random() < 0.7))
    ms = gen.model_spec(r, shape, mu=False)
    freq = gen.frequency(r)
    grid, model = gen.build_emg3d(gs, ms)
    geo = Geo(grid)
    if g == 0 and not selfcheck(rec, r, grid, geo):
        return
    cplx = freq > 0
    scale = 10.0**r.uniform(-6, 3)
    ev = gen.random_field(r, grid.n_edges, cplx)*scale
    E = emg3d.Field(grid, data=ev.copy(), frequency=freq)
    # the electric clauses also with a field of the other dtype / without
    # frequency information (sampling does not depend on it)
    alt = gen.random_field(r, grid.n_edges, not cplx)*scale
    E2 = emg3d.Field(grid, data=alt.copy())
    smu0 = sval_mu0(freq)
    H = emg3d.get_magnetic_field(model, E)
    rec.case()
    hv = np.array(H.field)
    if not np.all(np.isfinite(hv)):
        rec.violation('C09:magnetic-field-nonfinite', 'get_magnetic_field '
                      'returned non-finite values for a finite field',
                      {'k': k, 'g': g, 'grid': gen.summarize_grid(gs)})
        return
    F = geo.curl(geo.split(ev))                  # reference curl of E
    maxE = float(np.abs(ev).max())
    maxE2 = float(np.abs(alt).max())
    base = {'seed': seed, 'k': k, 'g': g, 'grid': gen.summarize_grid(gs),
            'frequency': freq, 'model': {'case': ms['case'],
                                         'mapping': ms['mapping'],
                                         'eps_r': ms['eps_r'] is not None},
            'field': f'gen.random_field(rng(seed,C09,T,k,g)) * {scale}'}

    pts = [interior_point(r, geo) for _ in range(npts)]
    refs = []
    for i, (p, pc, oc) in enumerate(pts):
        ref = RefPoint(geo, p)
        refs.append(ref)
        fmt = FORMATS[(i + g) % 4]
        case = dict(base, i=i, point=list(p), pos_class=pc, ori_class=oc,
                    fmt=fmt)
        # documented cut-off: a component with |factor| <= 1e-10 may be
        # dropped; its size is at most CUT x (unrotated component scale)
        tiny = (oc == 'tiny')
        slack_e = 3*CUT*maxE if tiny else 0.0
        slack_e2 = 3*CUT*maxE2 if tiny else 0.0
        Su = float(np.dot(ref.am_unrot, np.abs(ev)))/abs(smu0)
        slack_m = ((CUT if tiny else 0.0) + ROT_EPS)*Su
        via_adjoint = (i % 2 == 0)

        # ---------------- electric
        for fld, vec, mx, sl, tag in ((E, ev, maxE, slack_e, 'main'),
                                      (E2, alt, maxE2, slack_e2, 'alt')):
            if tag == 'alt' and i % 3:
                continue
            got = call_receiver(fld, p, fmt, False)
            rec.case()
            want = np.dot(ref.u, vec)
            S = ref.u1*mx
            rec.event('e_sample_vs_ref')
            if not np.isfinite(got):
                rec.violation('C09:interior-receiver-not-finite',
                              f'electric receiver inside the second to '
                              f'second-last cell returned {got}', case)
                continue
            err = abs(got - want)/S
            rec.margin('tiny_factor_dev' if oc == 'tiny' else
                       'e_sample_rel_err', err)
            if not (abs(got - want) <= TOL_S*S + sl):
                rec.violation('C09:electric-sampling-differs-from-trilinear',
                              f'get_receiver linear = {got}, reference '
                              f'<u,E> = {want} (rel {err:.3e})', case)
            rec.distinct(('E', pc, oc, fmt, str(vec.dtype)))
        # source vector
        if via_adjoint:
            src = emg3d.RxElectricPoint(p)._adjoint_source(p, strength=1.0)
        else:
            src = emg3d.TxElectricPoint(p)
        uf = emg3d.get_source_field(grid, src, frequency=None)
        rec.case()
        u = np.array(uf.field)
        rec.event('e_vector_vs_ref')
        if via_adjoint:
            rec.event('adjoint_class_e')
        if u.shape != ref.u.shape or not np.all(np.isfinite(u)):
            rec.violation('C09:electric-point-vector-invalid',
                          'source vector has wrong size or non-finite '
                          'entries', case)
            continue
        dv = float(np.abs(u - ref.u).max())
        rec.margin('e_vector_abs_err', dv)
        if not (dv <= TOL_V):
            key = ('C09:adjoint-source-of-electric-receiver' if via_adjoint
                   and type(src).__name__ != 'TxElectricPoint' else
                   'C09:electric-point-vector-differs')
            rec.violation(key, f'{type(src).__name__} vector (frequency=None)'
                          f' differs from the transpose of trilinear '
                          f'sampling by {dv:.3e}; via_adjoint={via_adjoint}',
                          case)
        got = call_receiver(E, p, fmt, False)
        direct = np.dot(u, ev)
        err = abs(got - direct)/(ref.u1*maxE)
        rec.event('e_transpose_direct')
        rec.margin('tiny_factor_dev' if oc == 'tiny' else
                   'e_transpose_rel_err', err)
        if not (abs(got - direct) <= TOL_S*ref.u1*maxE + slack_e):
            rec.violation('C09:electric-receiver-not-transpose-of-source',
                          f'get_receiver = {got}, sum(E*u) = {direct} '
                          f'(rel {err:.3e})', case)

        # ---------------- magnetic
        got = call_receiver(H, p, fmt, True)
        rec.case()
        want = sum(np.sum(ref.fw[c]*F[c]) for c in range(3))/smu0
        Sm = float(np.dot(ref.am, np.abs(ev)))/abs(smu0)
        rec.event('m_sample_vs_ref')
        if not np.isfinite(got):
            rec.violation('C09:interior-receiver-not-finite',
                          f'magnetic receiver inside the second to '
                          f'second-last cell returned {got}', case)
            continue
        err = abs(got - want)/Sm
        rec.margin('tiny_factor_dev' if oc == 'tiny' else 'm_sample_rel_err',
                   err)
        if not (abs(got - want) <= TOL_S*Sm + slack_m):
            rec.violation('C09:magnetic-sampling-differs-from-faraday',
                          f'H at receiver = {got}, reference P curl(E)/(s '
                          f'mu0) = {want} (rel {err:.3e})', case)
        rec.distinct(('H', pc, oc, fmt, str(ev.dtype)))
        if via_adjoint:
            srcm = emg3d.RxMagneticPoint(p)._adjoint_source(p, strength=1.0)
        else:
            srcm = emg3d.TxMagneticPoint(p)
        umf = emg3d.get_source_field(grid, srcm, frequency=None)
        rec.case()
        um = np.array(umf.field)
        rec.event('m_vector_vs_ref')
        if via_adjoint:
            rec.event('adjoint_class_m')
        if um.shape != ref.um.shape or not np.all(np.isfinite(um)):
            rec.violation('C09:magnetic-point-vector-invalid',
                          'source vector has wrong size or non-finite '
                          'entries', case)
            continue
        amax = float(ref.am.max())
        dv = float(np.abs(um - ref.um).max())/amax
        rec.margin('m_vector_rel_err', dv)
        dabs = np.abs(um - ref.um)
        if not np.all(dabs <= TOL_VM*amax + ROT_EPS*ref.am_unrot):
            key = ('C09:adjoint-source-of-magnetic-receiver' if via_adjoint
                   and type(srcm).__name__ != 'TxMagneticPoint' else
                   'C09:magnetic-point-vector-differs')
            rec.violation(key, f'{type(srcm).__name__} vector (frequency='
                          f'None) differs from -curl^T P^T by {dv:.3e} '
                          f'(relative); via_adjoint={via_adjoint}', case)
        direct = -np.dot(um, ev)/smu0
        err = abs(got - direct)/Sm
        rec.event('m_transpose_direct')
        rec.margin('tiny_factor_dev' if oc == 'tiny' else
                   'm_transpose_rel_err', err)
        if not (abs(got - direct) <= TOL_S*Sm + slack_m):
            rec.violation('C09:magnetic-receiver-not-transpose-of-source',
                          f'H at receiver = {got}, -sum(E*u_m)/(s mu0) = '
                          f'{direct} (rel {err:.3e})', case)
        if i == 0 and g < 2:
            rec.sample({'shape': list(shape), 'point': list(p),
                        'pos_class': pc, 'ori_class': oc, 'fmt': fmt,
                        'frequency': freq, 'h_receiver': got,
                        'h_reference': want})

    # ---------------- vectorised call + NaN policy in the same call
    bad = [nan_point(r, geo) for _ in range(nnan)]
    allp = [p for p, _, _ in pts] + [p for p, _ in bad]
    order = r.permutation(len(allp))
    arr = np.array(allp)[order]
    isbad = np.array([False]*len(pts) + [True]*len(bad))[order]
    which = np.arange(len(allp))[order]
    coords = tuple(arr[:, c] for c in range(5))
    for fld, magnetic in ((E, False), (H, True)):
        for method in ('linear', 'cubic'):
            if method == 'cubic' and min(shape) < 4:
                continue      # scipy's cubic interp1d needs four points
            out = flat(fields.get_receiver(fld, coords, method))
            rec.case()
            if out.size != len(allp):
                rec.violation('C09:vectorised-shape', f'{out.size} values '
                              f'for {len(allp)} receivers', base)
                continue
            for j in range(len(allp)):
                w = int(which[j])
                if isbad[j]:
                    pc = bad[w - len(pts)][1]
                    rec.event('nan_policy_must_be_nan')
                    rec.distinct(('NaN', pc, method, 'H' if magnetic else 'E'))
                    if not np.isnan(out[j]):
                        rec.violation(
                            'C09:number-outside-valid-region',
                            f'receiver at {list(arr[j])} ({pc}) returned '
                            f'{out[j]} instead of NaN (method {method}, '
                            f'{"magnetic" if magnetic else "electric"})',
                            dict(base, point=list(arr[j]), nan_class=pc,
                                 method=method, magnetic=magnetic))
                    continue
                rec.event('nan_policy_must_be_finite')
                if not np.isfinite(out[j]):
                    rec.violation(
                        'C09:interior-receiver-not-finite',
                        f'receiver at {list(arr[j])} ({pts[w][1]}) inside '
                        f'the second to second-last cell returned {out[j]} '
                        f'(method {method}, vectorised call, '
                        f'{"magnetic" if magnetic else "electric"})',
                        dict(base, point=list(arr[j]), pos_class=pts[w][1],
                             method=method, magnetic=magnetic))
                    continue
                if method != 'linear':
                    continue
                ref = refs[w]
                tiny = pts[w][2] == 'tiny'
                if magnetic:
                    want = sum(np.sum(ref.fw[c]*F[c]) for c in range(3))/smu0
                    S = float(np.dot(ref.am, np.abs(ev)))/abs(smu0)
                    sl = ((CUT if tiny else 0.0) + ROT_EPS)*float(
                        np.dot(ref.am_unrot, np.abs(ev)))/abs(smu0)
                    name = 'm_vectorised_vs_ref'
                else:
                    want = np.dot(ref.u, ev)
                    S = ref.u1*maxE
                    sl = 3*CUT*maxE if tiny else 0.0
                    name = 'e_vectorised_vs_ref'
                err = abs(out[j] - want)/S
                rec.event(name)
                rec.margin('tiny_factor_dev' if tiny else
                           'vectorised_rel_err', err)
                # in a vectorised call the cut-off acts only if *all*
                # receivers have a small factor; grant it to tiny ones anyway
                if not (abs(out[j] - want) <= TOL_S*S + sl):
                    rec.violation(
                        'C09:vectorised-sampling-differs',
                        f'vectorised get_receiver value {out[j]} differs '
                        f'from reference {want} (rel {err:.3e}, '
                        f'{"magnetic" if magnetic else "electric"})',
                        dict(base, point=list(arr[j]), pos_class=pts[w][1],
                             ori_class=pts[w][2], magnetic=magnetic))
    # single calls for a few NaN points (other call formats)
    for j, (p, pc) in enumerate(bad[:4]):
        fmt = FORMATS[(j + g) % 4]
        for fld, magnetic in ((E, False), (H, True)):
            method = 'linear' if (j + magnetic) % 2 or min(shape) < 4 \
                else 'cubic'
            got = call_receiver(fld, p, fmt, magnetic, method)
            rec.case()
            rec.event('nan_policy_must_be_nan')
            if not np.isnan(got):
                rec.violation(
                    'C09:number-outside-valid-region',
                    f'receiver at {list(p)} ({pc}) returned {got} instead '
                    f'of NaN (method {method}, format {fmt})',
                    dict(base, point=list(p), nan_class=pc, method=method,
                         magnetic=magnetic, fmt=fmt))


# --------------------------------------------------------------------------
# Reciprocity
RECIP_SIZES_Q = [6, 8, 8, 10, 12]
RECIP_SIZES_T = [6, 8, 8, 10, 12, 12, 16]
RECIP_TOL = 1e-10


def reciprocity(rec, seed, k, i, tier):
    import emg3d
    from emg3d import fields
    r = gen.rng(seed, 'C09', 'R', k, i)
    kind = 'ee' if r.random() < 0.5 else 'mm'
    sizes = RECIP_SIZES_Q if tier == 'quick' else RECIP_SIZES_T
    shape = tuple(int(gen.choice(r, sizes)) for _ in range(3))
    gs = gen.grid_spec(r, shape, kind=gen.choice(
        r, ['uniform', 'stretched', 'jitter', 'stretch2']))
    ms = gen.model_spec(r, shape, mu=(False if kind == 'mm' else None),
                        decades=gen.choice(r, [0, 1, 2, 3]))
    freq = gen.frequency(r)
    grid, model = gen.build_emg3d(gs, ms)
    geo = Geo(grid)
    # a magnetic point source whose curl stencil touches tangential boundary
    # edges leaves a residual there that no iteration can remove (the solve
    # is reported as not converged), so magnetic pairs stay one half cell
    # further inside
    pa, pca, oca = interior_point(r, geo, inner=(kind == 'mm'))
    pb, pcb, ocb = interior_point(r, geo, inner=(kind == 'mm'))
    smu0 = sval_mu0(freq)
    case = {'seed': seed, 'k': k, 'i': i, 'kind': kind,
            'grid': gen.summarize_grid(gs), 'frequency': freq,
            'model': {'case': ms['case'], 'mapping': ms['mapping'],
                      'mu_r': ms['mu_r'] is not None,
                      'eps_r': ms['eps_r'] is not None},
            'a': list(pa), 'b': list(pb), 'tol': RECIP_TOL}
    Tx = emg3d.TxElectricPoint if kind == 'ee' else emg3d.TxMagneticPoint
    sol = {}
    for name, p in (('a', pa), ('b', pb)):
        sf = emg3d.get_source_field(grid, Tx(p), freq)
        ef, info = emg3d.solve(model, sf, sslsolver=True, semicoarsening=True,
                               linerelaxation=True, tol=RECIP_TOL, maxit=80,
                               verb=-1, return_info=True)
        rec.case()
        rec.event('recip_solves')
        sol[name] = (sf, ef, info)
    if any(s[2]['exit'] != 0 for s in sol.values()):
        rec.event('recip_not_converged')
        return

    def response(ef, p):
        if kind == 'ee':
            return flat(fields.get_receiver(ef, tuple(p), 'linear'))[0]
        hf = emg3d.get_magnetic_field(model, ef)
        return flat(fields.get_receiver(hf, tuple(p), 'linear'))[0]

    rab = response(sol['a'][1], pb)       # source a -> receiver b
    rba = response(sol['b'][1], pa)
    rec.event('recip_pairs')
    if not (np.isfinite(rab) and np.isfinite(rba)):
        rec.violation('C09:interior-receiver-not-finite',
                      f'reciprocity responses not finite: {rab}, {rba}', case)
        return
    # |r_ab - r_ba| <= (|e_b| |res_a| + |e_a| |res_b|) / |s mu0|  with
    # |res_x| <= tol |s_x| (reported converged); s_x = -s mu0 u_x (electric),
    # s_x = u_m,x and response = -<u_m, e>/(s mu0) (magnetic).
    na = float(np.linalg.norm(sol['a'][1].field))
    nb = float(np.linalg.norm(sol['b'][1].field))
    sa = float(np.linalg.norm(sol['a'][0].field))
    sb = float(np.linalg.norm(sol['b'][0].field))
    bound = RECIP_TOL*(nb*sa + na*sb)/abs(smu0)
    floor = 64*np.finfo(float).eps*(abs(rab) + abs(rba))
    diff = abs(rab - rba)
    ratio = diff/(bound + floor) if bound + floor > 0 else float('nan')
    rec.margin('recip_diff_over_bound', ratio)
    rec.margin('recip_rel_diff', diff/max(abs(rab), abs(rba), 1e-300))
    case.update(resp_ab=rab, resp_ba=rba, bound=bound)
    # a pair decides something only if the response stands clear of the bound
    if max(abs(rab), abs(rba)) >= 1e3*(3*bound + floor):
        rec.event('recip_pairs_significant')
    if not (diff <= 3*bound + floor):
        rec.violation(f'C09:reciprocity-{kind}',
                      f'source a->receiver b = {rab}, source b->receiver a = '
                      f'{rba}: |diff| {diff:.3e} > 3 x tolerance bound '
                      f'{bound:.3e}', case)
    rec.distinct(('R', kind, ms['case'], 'c' if freq > 0 else 'r',
                  pca, oca))
    if i == 0:
        rec.sample({'recip': kind, 'shape': list(shape), 'a': list(pa),
                    'b': list(pb), 'resp_ab': rab, 'resp_ba': rba,
                    'bound': bound})


# --------------------------------------------------------------------------
def sim_adjoint_sources(rec, seed, k, i, tier):
    """The transposes where a Simulation uses them: the residual source field
    it back-propagates for (source, frequency) pairs with every probe field E
    as  <rfield, E> = sum_i c_i P_i(E),  P_i = sampling at receiver i (at its
    own absolute position, of its own kind and orientation), c_i = conj(w_i
    r_i) (-s mu0)/conj(-s mu0) - receivers in any order, electric and
    magnetic mixed, absolute and source-relative."""
    import emg3d
    from vf import simgen
    r = gen.rng(seed, 'C09', 'S', k, i)
    ps = simgen.problem_spec(r, nrec=int(gen.choice(r, [2, 3, 4])),
                             nan_frac=0.0)
    grid, model = simgen.build_model(ps)
    sv0 = simgen.build_survey(ps, with_noise=False)
    sim0 = simgen.simulation(sv0, model, solver_opts={'maxit': 1})
    sim0.compute()
    d = np.array(sv0.data.synthetic.data)
    obs = d*(1 + 0.2*r.standard_normal(d.shape)) + 0.2j*np.abs(d) * \
        r.standard_normal(d.shape)
    if d.size > 2:
        m = r.random(d.shape) < 0.25
        if not m.all():
            obs[m] = np.nan + 1j*np.nan
    sv = simgen.build_survey(ps, data=obs)
    sim = simgen.simulation(sv, model, solver_opts={'maxit': 1})
    _ = sim.misfit
    res = np.array(sim.data.residual.data)
    wgt = np.array(sim.data.weights.data)
    kinds = [c['kind'] for c in ps['receivers']]
    order = ''.join('m' if 'Magnetic' in kk else 'e' for kk in kinds)
    case = {'mode': 'S', 'seed': seed, 'k': k, 'i': i,
            'problem': simgen.summarize(ps), 'receiver_order': order}
    rec.case()
    srcs = list(sv.sources.values())
    for a, (sname, src) in enumerate(sv.sources.items()):
        centre = np.array(src.center, float)
        for b, (fname, freq) in enumerate(sv.frequencies.items()):
            rf = np.array(sim._get_rfield(sname, fname).field)
            smu0 = sval_mu0(float(freq))
            for _ in range(2):
                ev = gen.random_field(r, grid.n_edges, True)
                E = emg3d.Field(grid, data=ev.copy(), frequency=float(freq))
                H = emg3d.get_magnetic_field(model, E)
                got = complex(np.dot(rf, ev))
                want, scale = 0.0, 0.0
                for j, c in enumerate(ps['receivers']):
                    if not np.isfinite(res[a, j, b]):
                        continue
                    co = np.array(c['coordinates'], float)
                    if c['relative']:
                        co = np.r_[centre + co[:3], co[3:]]
                    fld = H if 'Magnetic' in c['kind'] else E
                    pv = complex(emg3d.fields.get_receiver(
                        fld, tuple(co), method='linear'))
                    ci = np.conj(wgt[a, j, b]*res[a, j, b])*(-smu0) / \
                        np.conj(-smu0)
                    want += ci*pv
                    scale += abs(ci*pv)
                rec.event('sim_adjoint_source_pairings')
                if scale == 0.0:
                    continue
                err = abs(got - want)/scale
                rec.margin('sim_adjoint_source_rel_err', err)
                if not (err <= 1e-9):
                    rec.violation(
                        'C09:simulation-adjoint-sources-not-receiver-transposes',
                        f'pair ({sname}, {fname}), receivers {order}: '
                        f'<rfield, E> = {got} but sum_i c_i P_i(E) = {want} '
                        f'(rel {err:.3e}): the adjoint sources are not the '
                        f'transposes of the sampling at the receivers\' own '
                        f'positions/orientations', case)
                    return
    rec.distinct(('S', order, tuple(sorted({(c['kind'], c['relative'])
                                            for c in ps['receivers']})),
                  len(srcs)))
    _ = tier


def plan(tier, seed):
    # few, mixed batches: importing emg3d costs more than a hundred cases
    if tier == 'quick':
        return [{'id': f'q{k}', 'k': k, 'grids': 20, 'npts': 24, 'nnan': 16,
                 'pairs': 9, 'sims': 6} for k in range(16)]    # 7680 points, 144 pairs
    out = [{'id': f't{k}', 'k': k, 'grids': 48, 'npts': 30, 'nnan': 20,
            'pairs': 28, 'sims': 40} for k in range(36)]        # 51840 points, 1008 pairs
    out += [{'id': f'bc{k}', 'k': 1000+k, 'grids': 12, 'npts': 16, 'nnan': 12,
             'pairs': 3, 'boundscheck': True} for k in range(4)]
    return out


def run_batch(batch):
    import traceback
    import warnings
    rec = common.Rec(max_viol=12)
    seed, tier, k = batch['seed'], batch['tier'], batch['k']
    only = batch.get('only')          # e.g. ['T', 3] to replay one case
    todo = [('T', i) for i in range(batch['grids'])]
    todo += [('R', i) for i in range(batch['pairs'])]
    todo += [('S', i) for i in range(batch.get('sims', 0))]
    with warnings.catch_warnings():
        warnings.simplefilter('ignore')
        for mode, i in todo:
            if only is not None and [mode, i] != list(only):
                continue
            try:
                if mode == 'T':
                    transposes(rec, seed, k, i, tier, batch['npts'],
                               batch['nnan'])
                elif mode == 'S':
                    sim_adjoint_sources(rec, seed, k, i, tier)
                else:
                    reciprocity(rec, seed, k, i, tier)
            except IndexError:
                if batch.get('boundscheck'):
                    raise         # worker.py keys it as a sanitizer finding
                rec.inconclusive('exception in case: ' +
                                 traceback.format_exc()[-900:],
                                 {'mode': mode, 'k': k, 'i': i})
            except Exception:  # noqa - harness / unexpected emg3d error
                rec.inconclusive('exception in case: ' +
                                 traceback.format_exc()[-900:],
                                 {'mode': mode, 'k': k, 'i': i})
    return rec.result()


def finalize(merged, tier):
    common.require_events(merged, {
        'e_sample_vs_ref': 3000, 'e_vector_vs_ref': 3000,
        'e_transpose_direct': 3000, 'm_sample_vs_ref': 3000,
        'm_vector_vs_ref': 3000, 'm_transpose_direct': 3000,
        'adjoint_class_e': 1000, 'adjoint_class_m': 1000,
        'e_vectorised_vs_ref': 3000, 'm_vectorised_vs_ref': 3000,
        'nan_policy_must_be_nan': 5000, 'nan_policy_must_be_finite': 5000,
        'recip_pairs': 60, 'recip_pairs_significant': 40,
        'sim_adjoint_source_pairings': 150})
    ev = merged['events']
    if ev.get('recip_not_converged', 0) > 0.5*max(1, ev.get('recip_solves', 0)
                                                  / 2):
        merged['inconclusive'].append(
            {'reason': 'more than half of the reciprocity pairs did not '
                       'converge', 'case': None})
