"""C17 - save/load round-trips every object in every file format.

Monitor at the client boundary of emg3d.save / emg3d.load / emg3d.io.convert
and the to_file/from_file methods.  Oracle (R3): an independently written
*canonical form* of an emg3d object or nested dictionary.  It is obtained by
reading the public attributes of the objects (mesh widths, model properties,
field vector, electrode coordinates, survey data sets, noise settings,
simulation options and results ...), never through ``to_dict`` or any other
piece of the serialisation code, so an entry that ``to_dict`` forgets or that
``from_dict`` restores wrongly shows up as a difference between the canonical
form of the object handed to ``save`` and the one returned by ``load``.

Canonical form: scalars -> (kind in {none,bool,int,float,complex,str}, value)
(Python scalar == NumPy scalar == 0-d array of the same kind), arrays ->
(dtype name, shape, values; NaN equals NaN, real and imaginary part compared
separately), list/tuple of numbers == array, dict -> unordered mapping (the
source/receiver/frequency dictionaries of a survey are compared ordered,
because the data cube is aligned with them), known class -> (class name,
attribute mapping).  All three back ends store binary64 losslessly, so values
are compared exactly; where a class defines ``__eq__`` the loaded object must
in addition compare equal (only demanded if the original equals itself, which
excludes NaN-carrying fields).  For simulations the public results are
compared as well: ``misfit``/``gradient`` if they were computed and the text of
``print_grid_info(verb=0)`` where the grids are given or cheap to build.
"""
import contextlib
import io as _io
import os
import shutil
import tempfile
import warnings

import numpy as np
from vf import common, gen

PROP = 'C17'
NEEDS_JIT = True          # a part of the simulations is computed (solver)
TIMEOUT = {'quick': 900, 'thorough': 3300}
RULE = ("seeded random payloads: 1-5 named entries drawn from scalars (int, "
        "float incl. nan/inf, complex, str, bool, None, NumPy scalars), real/"
        "complex/integer arrays (ndim 1-4, non-finite values, size-0, 0-d, "
        "float32/int32/complex64/int16/uint8, non-contiguous), nested dicts "
        "(depth <= 4) and every registered class: TensorMesh, Model (6 "
        "mappings x 4 anisotropy cases x mu_r/eps_r), Field (frequency / "
        "Laplace / frequency-free real and complex, electric / magnetic, NaN "
        "entries), all 5 source and 2 receiver classes in all coordinate "
        "formats with real/complex/int strengths, Survey (custom names, "
        "several data sets, NaN data, scalar and array noise floor / relative "
        "error in 4 broadcast shapes, explicit standard deviation), Simulation "
        "(7 gridding modes with random gridding/solver/layered/tqdm options; "
        "plain, computed, computed with misfit and gradient; public results "
        "misfit/gradient/print_grid_info compared too).  Every payload "
        "goes through save+load in h5, npz and json, through convert (quick: "
        "2 of the 6 format pairs per payload, rotating; thorough: all 6) and, "
        "for surveys and simulations, through to_file/from_file (what = "
        "plain/results/computed/all).  Inputs known to hit a defect (empty "
        "dict, array with an empty non-last axis, complex with non-finite "
        "imaginary part, survey without receivers, gridding='input'/'dict'/"
        "'frequency', simulation with misfit) are generated only in their own "
        "labelled hazard classes, checked in full, and only the expected "
        "(class, format, symptom) maps to the mechanism key.  distinct = "
        "(entry class, variant, format) combinations whose loaded object "
        "reached the comparison")
ASSUMPTIONS = [
    "the canonical form reads public attributes (and the documented private "
    "result containers _dict_*/_gradient/_misfit of Simulation); a difference "
    "that no attribute exposes is invisible",
    "scalars are compared by kind and value only (Python float == np.float64 "
    "== 0-d float array): the back ends return different scalar containers",
    "dictionary keys are identifier-like strings or source/receiver names "
    "without '>' and '__' (documented npz/json key mangling is not probed)",
    "bool arrays, lists of strings and object arrays are outside the "
    "property's list of storable values and are not generated",
    "a save() that raises in all three formats makes the case inconclusive; "
    "raising in some formats only is a violation ('alike')",
]

FORMATS = ['h5', 'npz', 'json']
PAIRS = [(a, b) for a in FORMATS for b in FORMATS if a != b]
META = {'_date', '_version', '_format'}

# (hazard label, format or '*', symptom or '*') -> mechanism (root cause)
KNOWN_MECH = {
    ('HZ-empty-dict', 'npz', 'missing'): 'npz-drops-empty-dict',
    ('HZ-survey-no-receivers', 'npz', 'not-deserialized'):
        'npz-drops-empty-dict',
    ('HZ-array-zero-dim', 'json', 'shape'): 'json-empty-array-loses-shape',
    ('HZ-survey-no-receivers', 'json', 'load-error'):
        'json-empty-array-loses-shape',
    ('HZ-complex-nonfinite-imag', 'json', 'value'):
        'json-complex-nonfinite-imag-corrupts-real',
    ('HZ-sim-mesh-gridding', '*', 'not-deserialized'):
        'sim-gridding-opts-mesh-not-deserialized',
    ('HZ-sim-mesh-gridding', '*', 'gridding-mesh'):
        'sim-gridding-opts-mesh-not-deserialized',
    ('HZ-sim-misfit', 'json', 'save-error'): 'sim-misfit-kept-as-dataarray',
    ('HZ-sim-misfit', '*', 'observable-misfit'):
        'sim-misfit-kept-as-dataarray',
    ('HZ-sim-frequency-gridding', 'npz', 'observable-grid-info'):
        'npz-scalars-as-0d-arrays-unhashable-frequency',
}
HAZARDS = ['HZ-empty-dict', 'HZ-array-zero-dim', 'HZ-complex-nonfinite-imag',
           'HZ-survey-no-receivers', 'HZ-sim-mesh-gridding', 'HZ-sim-misfit',
           'HZ-sim-frequency-gridding']


# --------------------------------------------------------------------------
# plan
def plan(tier, seed):
    if tier == 'quick':
        nmix, permix, nsim, persim, nhz = 20, 30, 8, 3, 4
    else:
        nmix, permix, nsim, persim, nhz = 100, 80, 32, 8, 12
    out = [{'id': f'mix{k}', 'mode': 'mix', 'k': k, 'n': permix}
           for k in range(nmix)]
    out += [{'id': f'sim{k}', 'mode': 'sim', 'k': 1000+k, 'n': persim}
            for k in range(nsim)]
    out += [{'id': f'hz{k}', 'mode': 'hazard', 'k': 2000+k, 'n': 2}
            for k in range(nhz)]
    # interleave the expensive batches with the cheap ones
    out.sort(key=lambda b: (b['k'] % 20, b['k']))
    return out


# --------------------------------------------------------------------------
# R3: canonical form (independent of to_dict/from_dict)
def _attr(obj, name, fn=None):
    try:
        v = getattr(obj, name)
        return fn(v) if fn else v
    except Exception as e:  # noqa
        return _Err(f'{type(e).__name__}: {e}')


class _Err:
    def __init__(self, msg):
        self.msg = msg[:200]


class _Ordered(dict):
    """Marker: mapping whose key order is part of the content."""


def canon(x, what='all', _d=0):
    if _d > 14:
        return ('other', 'too-deep', '')
    if x is None:
        return ('none',)
    if isinstance(x, _Err):
        return ('error', x.msg)
    if isinstance(x, (bool, np.bool_)):
        return ('bool', bool(x))
    if isinstance(x, (int, np.integer)):
        return ('int', int(x))
    if isinstance(x, (float, np.floating)):
        return ('float', float(x))
    if isinstance(x, (complex, np.complexfloating)):
        return ('complex', complex(x))
    if isinstance(x, (str, np.str_)):
        return ('str', str(x))
    if isinstance(x, np.ndarray):
        if x.ndim == 0:
            # numbers: the back ends differ in the scalar container (Python
            # scalar / NumPy scalar / 0-d array), all taken as the same thing;
            # a string however comes back as ``str`` from all three, and a
            # 0-d '<U' array is not usable as a string.
            if x.dtype.kind in 'biufc':
                return canon(x[()], what, _d+1)
            return ('other', 'ndarray0d', str(x.dtype))
        a = np.array(x, copy=True, subok=False)
        return ('array', a.dtype.name, tuple(a.shape), a)
    if isinstance(x, _Ordered):
        return ('odict', [(str(k), canon(v, what, _d+1)) for k, v in x.items()])
    if isinstance(x, dict):
        return ('dict', {str(k): canon(v, what, _d+1) for k, v in x.items()})
    if isinstance(x, (list, tuple)):
        if len(x) == 0 or _all_numbers(x):
            try:
                a = np.asarray(x)
                if a.dtype.kind in 'biufc':
                    return canon(a if a.ndim else a.reshape(1), what, _d+1)
            except Exception:  # noqa
                pass
        if all(isinstance(v, (str, np.str_)) for v in x):
            return ('strlist', [str(v) for v in x])
        return ('list', [canon(v, what, _d+1) for v in x])
    name = type(x).__name__
    mod = type(x).__module__ or ''
    if name == 'DataArray' and mod.startswith('xarray'):
        return canon(np.asarray(x.data), what, _d+1)
    if name == 'memoryview':
        return ('other', 'memoryview', '')
    if mod.startswith('emg3d') or mod.startswith('discretize'):
        fn = _EXTRACT.get(name)
        if fn is None and (name[:2] in ('Tx', 'Rx')):
            fn = _x_electrode
        if fn is not None:
            attrs = fn(x, what)
            return ('obj', name, {k: canon(v, what, _d+1)
                                  for k, v in attrs.items()})
    return ('other', name, repr(x)[:80])


def _all_numbers(x):
    for v in x:
        if isinstance(v, (list, tuple)):
            if len(v) == 0 or not _all_numbers(v):
                return False
        elif isinstance(v, np.ndarray):
            if v.dtype.kind not in 'biufc':
                return False
        elif isinstance(v, (str, np.str_)) or v is None:
            return False
        elif not isinstance(v, (bool, int, float, complex, np.generic)):
            return False
    return True


def _x_mesh(m, what):
    return {'hx': _attr(m, 'h', lambda h: np.asarray(h[0])),
            'hy': _attr(m, 'h', lambda h: np.asarray(h[1])),
            'hz': _attr(m, 'h', lambda h: np.asarray(h[2])),
            'origin': _attr(m, 'origin', lambda o: np.asarray(o)),
            'shape_cells': _attr(m, 'shape_cells',
                                 lambda s: [int(i) for i in s]),
            'n_cells': _attr(m, 'n_cells', int)}


def _x_model(m, what):
    out = {'grid': _attr(m, 'grid'), 'case': _attr(m, 'case'),
           'mapping': _attr(m, 'map', lambda p: p.name),
           'shape': _attr(m, 'shape', lambda s: [int(i) for i in s])}
    for p in ('property_x', 'property_y', 'property_z', 'mu_r', 'epsilon_r'):
        out[p] = _attr(m, p, lambda v: None if v is None else np.asarray(v))
    return out


def _x_field(f, what):
    return {'grid': _attr(f, 'grid'),
            'field': _attr(f, 'field', np.asarray),
            'frequency': _attr(f, 'frequency'),
            'sval': _attr(f, 'sval'),
            'electric': _attr(f, 'electric'),
            'fx_shape': _attr(f, 'fx', lambda a: [int(i) for i in a.shape])}


def _x_electrode(e, what):
    out = {'coordinates': _attr(e, 'coordinates', np.asarray),
           'points': _attr(e, 'points', np.asarray),
           'xtype': _attr(e, 'xtype'),
           'center': _attr(e, 'center', np.asarray),
           'length': _attr(e, 'length')}
    name = type(e).__name__
    if name.startswith('Tx'):
        out['strength'] = _attr(e, 'strength')
    else:
        out['relative'] = _attr(e, 'relative')
        out['data_type'] = _attr(e, 'data_type')
    if hasattr(e, 'azimuth'):
        out['azimuth'] = _attr(e, 'azimuth')
        out['elevation'] = _attr(e, 'elevation')
    return out


PLAIN_DROP = ('synthetic', 'residual', 'weights')


def _x_survey(s, what):
    def dsets(d):
        return {k: np.asarray(v.data) for k, v in d.items()
                if not (what == 'plain' and k in PLAIN_DROP)}
    out = {
        'sources': _attr(s, 'sources', _Ordered),
        'receivers': _attr(s, 'receivers', _Ordered),
        'frequencies': _attr(s, 'frequencies', _Ordered),
        'data': _attr(s, 'data', dsets),
        'coords': _attr(s, 'data', lambda d: {
            'src': [str(v) for v in d.src.values],
            'rec': [str(v) for v in d.rec.values],
            'freq': [str(v) for v in d.freq.values]}),
        'noise_floor': _attr(s, 'noise_floor'),
        'relative_error': _attr(s, 'relative_error'),
        'name': _attr(s, 'name'), 'date': _attr(s, 'date'),
        'info': _attr(s, 'info'),
        'shape': _attr(s, 'shape', lambda t: [int(i) for i in t]),
    }
    if what != 'plain':
        out['standard_deviation'] = _attr(
            s, 'standard_deviation',
            lambda v: None if v is None else np.asarray(v.data))
        out['count'] = _attr(s, 'count')
    return out


def _x_sim(s, what):
    out = {}
    for n in ('survey', 'model', 'max_workers', 'gridding', 'gridding_opts',
              'solver_opts', 'verb', 'name', 'info', '_tqdm_opts', 'layered',
              'layered_opts', 'receiver_interpolation', 'tol_forward',
              'tol_gradient', 'file_dir', '_input_sc2'):
        out[n] = _attr(s, n)
    # emg3d writes solver_opts['tol'] = tol_forward / tol_gradient right before
    # every use (and in to_dict); the value that matters is in tol_forward.
    out['solver_opts'] = _attr(s, 'solver_opts', lambda d: {
        k: v for k, v in d.items() if k != 'tol'})
    if what in ('results', 'computed', 'all'):
        out['_gradient'] = _attr(s, '_gradient')
        out['_misfit'] = _attr(s, '_misfit')
        out['_computed'] = _attr(s, '_computed')
    if what in ('computed', 'all'):
        for n in ('_dict_grid', '_dict_efield', '_dict_efield_info',
                  '_dict_bfield', '_dict_bfield_info'):
            if hasattr(s, n):
                out[n] = _attr(s, n)
    return out


_EXTRACT = {'TensorMesh': _x_mesh, 'Model': _x_model, 'Field': _x_field,
            'Survey': _x_survey, 'Simulation': _x_sim}


def brief(n):
    t = n[0]
    if t == 'array':
        return f'array<{n[1]}{list(n[2])}>'
    if t == 'obj':
        return f'<{n[1]}>'
    if t in ('dict', 'odict'):
        keys = list(n[1]) if t == 'dict' else [k for k, _ in n[1]]
        return f'dict{keys[:6]}'
    if t in ('other', 'error'):
        return f'{t}:{n[1:]}'
    if t == 'none':
        return 'None'
    return f'{t}:{n[1]!r}'[:80]


def _feq(a, b):
    return (a != a and b != b) or a == b


def _neq(a, b):
    with np.errstate(invalid='ignore'):
        return ~((a == b) | ((a != a) & (b != b)))


def _arr_equal(a, b):
    if a.dtype.kind == 'c':
        return _arr_equal(a.real, b.real) and _arr_equal(a.imag, b.imag)
    if a.dtype.kind == 'f':
        with np.errstate(invalid='ignore'):
            return bool(np.all((a == b) | (np.isnan(a) & np.isnan(b))))
    return bool(np.array_equal(a, b))


def diff(a, b, path, out, limit=6):
    """Append (path, symptom, detail) for every difference of two forms."""
    if len(out) >= limit:
        return
    if a[0] != b[0]:
        sym = 'type'
        if a[0] == 'obj' and b[0] in ('dict', 'odict'):
            sym = 'not-deserialized'
        out.append((path, sym, f'{brief(a)} -> {brief(b)}'))
        return
    t = a[0]
    if t == 'none':
        return
    if t in ('bool', 'int', 'str', 'strlist'):
        if a[1] != b[1]:
            out.append((path, 'value', f'{a[1]!r} -> {b[1]!r}'[:160]))
    elif t == 'float':
        if not _feq(a[1], b[1]):
            out.append((path, 'value', f'{a[1]!r} -> {b[1]!r}'))
    elif t == 'complex':
        if not (_feq(a[1].real, b[1].real) and _feq(a[1].imag, b[1].imag)):
            out.append((path, 'value', f'{a[1]!r} -> {b[1]!r}'))
    elif t == 'array':
        if a[1] != b[1]:
            out.append((path, 'dtype', f'{a[1]} -> {b[1]}'))
        elif a[2] != b[2]:
            out.append((path, 'shape', f'{a[2]} -> {b[2]}'))
        elif not _arr_equal(a[3], b[3]):
            bad = int(np.sum(_neq(a[3].real, b[3].real) |
                             _neq(a[3].imag, b[3].imag)))
            out.append((path, 'value', f'{bad} of {a[3].size} entries of '
                        f'{brief(a)} differ'))
    elif t in ('dict', 'odict', 'obj'):
        if t == 'obj':
            if a[1] != b[1]:
                out.append((path, 'type', f'{brief(a)} -> {brief(b)}'))
                return
            da, db = a[2], b[2]
        elif t == 'odict':
            ka, kb = [k for k, _ in a[1]], [k for k, _ in b[1]]
            if ka != kb and sorted(ka) == sorted(kb):
                out.append((path, 'order', f'{ka} -> {kb}'[:160]))
            da, db = dict(a[1]), dict(b[1])
        else:
            da, db = a[1], b[1]
        for k in da:
            if k not in db:
                out.append((f'{path}/{k}', 'missing',
                            f'{brief(da[k])} missing after load'))
        for k in db:
            if k not in da:
                out.append((f'{path}/{k}', 'extra',
                            f'unexpected {brief(db[k])}'))
        for k in da:
            if k in db:
                diff(da[k], db[k], f'{path}/{k}', out, limit)
    elif t == 'list':
        if len(a[1]) != len(b[1]):
            out.append((path, 'value', f'list length {len(a[1])} -> '
                        f'{len(b[1])}'))
        else:
            for i, (u, v) in enumerate(zip(a[1], b[1])):
                diff(u, v, f'{path}[{i}]', out, limit)
    elif t in ('other', 'error'):
        # the original itself could not be read: harness problem upstream
        if a != b:
            out.append((path, 'type', f'{brief(a)} -> {brief(b)}'))


def has_error(n):
    """Does a canonical form contain an attribute that could not be read?"""
    t = n[0]
    if t in ('error', 'other'):
        return True
    if t == 'obj':
        return any(has_error(v) for v in n[2].values())
    if t == 'dict':
        return any(has_error(v) for v in n[1].values())
    if t == 'odict':
        return any(has_error(v) for _, v in n[1])
    if t == 'list':
        return any(has_error(v) for v in n[1])
    return False


# --------------------------------------------------------------------------
# Generators.  Every item is (label, variant, object).
NAMES = ['a', 'b1', 'Grid', 'my_model', 'x_y', 'data2', 'Field', 'res', 'Q',
         'alpha', 'inp', 'out7', 'survey', 'simulation', 'model', 'grid',
         'efield', 'src', 'rec', 'k9', 'Tx1', 'value', 'mesh_fine', 'S']
STRINGS = ['', 'x', 'hello world', 'MAX. ITERATION REACHED, NOT CONVERGED',
           'héllo «x» ∂', ' leading and trailing ', 'two\nlines', '1.0',
           'None', 'True', '{desc} {bar}', 'a/b\\c', 'complex', "it's",
           '"quoted"', 'tab\there', '日本語', 'x'*300]
FLOATS = [0.0, -0.0, 1.0, -2.5, 1e-300, 5e-324, 1.7976931348623157e308,
          float('nan'), float('inf'), float('-inf'), 0.1, 1/3, 2**53 + 2.0]


def g_int(r):
    c = r.integers(0, 5)
    if c == 0:
        return int(r.integers(-5, 6))
    if c == 1:
        return int(r.integers(-2**62, 2**62))
    if c == 2:
        return int(gen.choice(r, [0, 1, -1, 2**31, -2**31-1, 2**53+1]))
    return int(r.integers(-10**6, 10**6))


def g_float(r):
    if r.random() < 0.4:
        return float(gen.choice(r, FLOATS))
    return float(r.standard_normal()*10.0**r.integers(-12, 13))


def g_complex(r):
    c = r.integers(0, 6)
    if c == 0:
        return complex(float('nan'), float('nan'))
    if c == 1:       # non-finite real part, finite imaginary part
        return complex(gen.choice(r, [float('inf'), float('-inf'),
                                      float('nan')]), float(r.normal()))
    if c == 2:
        return complex(g_float_finite(r), 0.0)
    return complex(g_float_finite(r), g_float_finite(r))


def g_float_finite(r):
    return float(r.standard_normal()*10.0**r.integers(-12, 13))


_BIG = False        # thorough tier: larger arrays and meshes (set in run_batch)


def g_shape(r, maxsize=120):
    nd = int(gen.choice(r, [1, 1, 2, 2, 3, 3, 4]))
    hi, maxsize = (13, maxsize*12) if _BIG else (7, maxsize)
    while True:
        s = tuple(int(v) for v in r.integers(1, hi, nd))
        if np.prod(s) <= maxsize:
            return s


def g_array(r, kind, shape=None):
    s = shape or g_shape(r)
    n = int(np.prod(s))
    if kind == 'int':
        a = r.integers(-2**40, 2**40, n)
        if r.random() < 0.3:
            a = r.integers(-3, 4, n)
    elif kind == 'float':
        a = r.standard_normal(n)*10.0**r.integers(-8, 9)
    else:
        a = (r.standard_normal(n) + 1j*r.standard_normal(n))*10.0**r.integers(
            -8, 9)
    a = a.reshape(s)
    lay = r.integers(0, 4)
    if lay == 1:
        a = np.asfortranarray(a)
    elif lay == 2 and a.ndim >= 2:
        a = np.ascontiguousarray(a.T).T        # F-layout view
    elif lay == 3:
        big = np.zeros((2,)+a.shape, dtype=a.dtype).T.copy().T
        big[1] = a
        a = big[1]                              # view into a larger buffer
    return a


def sprinkle_nonfinite(r, a):
    """NaN/inf entries; complex: imaginary part non-finite only with NaN real
    part (the other combination is the hazard class)."""
    a = np.array(a)
    flat = a.reshape(-1)
    k = max(1, flat.size//4)
    idx = r.choice(flat.size, min(k, flat.size), replace=False)
    for i in idx:
        if a.dtype.kind == 'c':
            c = r.integers(0, 3)
            if c == 0:
                flat[i] = complex(np.nan, np.nan)
            elif c == 1:
                flat[i] = complex(np.inf, flat[i].imag)
            else:
                flat[i] = complex(-np.inf, 0.0)
        else:
            flat[i] = gen.choice(r, [np.nan, np.inf, -np.inf, -0.0])
    return flat.reshape(a.shape)


def g_mesh(r, shape=None, maxn=5):
    import emg3d
    if _BIG:
        maxn += 4
    shape = shape or tuple(int(v) for v in r.integers(1, maxn+1, 3))
    gs = gen.grid_spec(r, shape, same_base=bool(r.random() < 0.7))
    origin = gs['origin']
    c = r.integers(0, 4)
    if c == 0:
        origin = [int(round(v)) for v in origin]        # integer origin
    elif c == 1:
        origin = tuple(origin)
    elif c == 2:
        origin = np.array(origin)
    return emg3d.TensorMesh([gs['hx'], gs['hy'], gs['hz']], origin=origin)


def g_model(r, grid=None, case=None, mu=None, eps=None):
    import emg3d
    from vf import refop
    grid = grid if grid is not None else g_mesh(r)
    shape = tuple(grid.shape_cells)
    ms = gen.model_spec(r, shape, case=case, mu=mu, eps=eps)
    kw = {}
    for name, key in (('property_x', 'sigx'), ('property_y', 'sigy'),
                      ('property_z', 'sigz')):
        if ms[key] is not None:
            kw[name] = refop.from_conductivity(ms[key], ms['mapping'])
    if ms['mu_r'] is not None:
        kw['mu_r'] = ms['mu_r']
    if ms['eps_r'] is not None:
        kw['epsilon_r'] = ms['eps_r']
    if r.random() < 0.15:          # scalar property, broadcast by emg3d
        kw['property_x'] = float(kw['property_x'].flat[0])
    model = emg3d.Model(grid, mapping=ms['mapping'], **kw)
    return model, f"{ms['mapping']}/{ms['case']}/mu{int(ms['mu_r'] is not None)}" \
                  f"eps{int(ms['eps_r'] is not None)}"


def g_field(r, grid=None):
    import emg3d
    grid = grid if grid is not None else g_mesh(r, maxn=4)
    electric = bool(r.random() < 0.7)
    n = int(grid.n_edges if electric else grid.n_faces)
    fk = gen.choice(r, ['freq', 'laplace', 'none-complex', 'none-real',
                        'none-empty'])
    if fk == 'freq':
        freq = float(10.0**r.uniform(-2, 2))
        data = g_array(r, gen.choice(r, ['complex', 'complex', 'float']), (n,))
    elif fk == 'laplace':
        freq = -float(10.0**r.uniform(-2, 2))
        data = g_array(r, 'float', (n,))
    elif fk == 'none-complex':
        freq, data = None, g_array(r, 'complex', (n,))
    elif fk == 'none-real':
        freq, data = None, g_array(r, 'float', (n,))
    else:
        freq, data = None, None
    variant = f"{fk}/{'e' if electric else 'h'}"
    if data is not None and r.random() < 0.25:
        data = sprinkle_nonfinite(r, data)
        variant += '/nonfinite'
    if fk == 'none-empty':
        dt = gen.choice(r, [None, np.float64, np.complex128])
        f = emg3d.Field(grid, dtype=dt, electric=electric)
    else:
        if r.random() < 0.2 and freq is not None:
            freq = int(np.sign(freq))*int(max(1, round(abs(freq))))  # int
        f = emg3d.Field(grid, data=np.array(data).ravel(), frequency=freq,
                        electric=electric)
    return f, variant


TX = ['TxElectricPoint', 'TxMagneticPoint', 'TxElectricDipole',
      'TxMagneticDipole', 'TxElectricWire']
RX = ['RxElectricPoint', 'RxMagneticPoint']


def g_point5(r, box):
    lo, hi = box
    xyz = [float(np.round(r.uniform(lo[i], hi[i]), 2)) for i in range(3)]
    az = float(gen.choice(r, [0, 90, -90, 180, 45, np.round(
        r.uniform(-180, 180), 1)]))
    el = float(gen.choice(r, [0, 0, 90, -90, np.round(r.uniform(-90, 90), 1)]))
    return xyz + [az, el]


def g_strength(r):
    return gen.choice(r, [1.0, 2.5, -3.0, 5, np.float64(0.75), 2+3j,
                          np.complex128(-1.5+0.25j), 1e3, complex(0, 1)])


BOX0 = ([-1000., -1000., -1500.], [1000., 1000., -100.])


def g_tx(r, cls=None, box=BOX0, strength=None, dip_fmts=None):
    import emg3d
    cls = cls or gen.choice(r, TX)
    st = g_strength(r) if strength is None else strength
    C = getattr(emg3d, cls)
    if cls.endswith('Point'):
        coo = g_point5(r, box)
        coo = gen.choice(r, [coo, tuple(coo), np.array(coo)])
        return C(coo, strength=st), f'{cls}/point/{type(st).__name__}'
    if cls.endswith('Wire'):
        n = int(r.integers(2, 6))
        p0 = np.array(g_point5(r, box)[:3])
        pts = p0 + np.cumsum(np.round(r.uniform(5, 40, (n, 3)), 1), axis=0)
        if r.random() < 0.3:       # closed loop
            pts = np.vstack([pts, pts[:1]])
        pts = gen.choice(r, [pts, pts.tolist()])
        return C(pts, strength=st), f'{cls}/wire/{type(st).__name__}'
    fmt = gen.choice(r, dip_fmts or ['point', 'flat', 'dipole'])
    if fmt == 'point':
        length = float(gen.choice(r, [1.0, 10.0, 0.5, 200.0, 3]))
        return (C(g_point5(r, box), strength=st, length=length),
                f'{cls}/point/{type(st).__name__}')
    p0 = np.array(g_point5(r, box)[:3])
    d = np.round(r.uniform(5, 60, 3), 1)*r.choice([-1, 1], 3)
    if r.random() < 0.3:
        d[int(r.integers(0, 3))] = 0.0     # axis-aligned in one direction
    p1 = p0 + d
    if fmt == 'flat':
        coo = [p0[0], p1[0], p0[1], p1[1], p0[2], p1[2]]
        coo = gen.choice(r, [coo, tuple(coo), np.array(coo)])
    else:
        coo = gen.choice(r, [np.array([p0, p1]), [list(p0), list(p1)]])
    return C(coo, strength=st), f'{cls}/{fmt}/{type(st).__name__}'


def g_rx(r, cls=None, box=BOX0, relative=None):
    import emg3d
    cls = cls or gen.choice(r, RX)
    rel = bool(r.random() < 0.3) if relative is None else relative
    coo = g_point5(r, ([-100., -100., -50.], [100., 100., 50.]) if rel
                   else box)
    kw = {}
    if r.random() < 0.3:
        kw['data_type'] = 'complex'
    return (getattr(emg3d, cls)(coo, relative=rel, **kw),
            f"{cls}/{'rel' if rel else 'abs'}")


NF_SHAPES = ['none', 'float', 'src', 'recfreq', 'freq', 'full']


def g_noise(r, kind, shape, scale):
    ns, nr, nf = shape
    if kind == 'none':
        return None
    if kind == 'float':
        return gen.choice(r, [scale, np.float64(scale*2), scale*3])
    shp = {'src': (ns, 1, 1), 'recfreq': (1, nr, nf), 'freq': (1, 1, nf),
           'full': (ns, nr, nf)}[kind]
    # (a one-element array is stored by emg3d as a float)
    return scale*r.uniform(0.5, 2.0, shp)


def g_survey(r, box=BOX0, nrec=None, for_sim=False, finite_obs=False,
             tx_classes=None, real_strength=False, dip_fmts=None):
    import emg3d
    ns = int(r.integers(1, 4))
    nr = int(r.integers(1, 4)) if nrec is None else nrec
    nf = int(r.integers(1, 4))
    classes = [gen.choice(r, tx_classes or TX) for _ in range(ns)]
    txs = [g_tx(r, c, box, strength=(float(gen.choice(r, [1.0, 2.5, -3.0]))
                                      if real_strength else None),
                 dip_fmts=dip_fmts)[0]
           for c in classes]
    rxs = [g_rx(r, None, box)[0] for _ in range(nr)]
    names = gen.choice(r, ['auto', 'auto', 'custom', 'mixedlist'])
    if names == 'custom':
        src = {f"{gen.choice(r, ['Tx-A', 'src_', 'S', 'Source-'])}{i+1}": t
               for i, t in enumerate(txs)}
        rec = {f"{gen.choice(r, ['Rx-B', 'rec_', 'R', 'OBS-'])}{i+1}": t
               for i, t in enumerate(rxs)}
    elif names == 'mixedlist':
        src = [txs[:1], txs[1:]] if ns > 1 else txs
        rec = rxs[0] if nr == 1 else rxs
    else:
        src, rec = txs, rxs
    if nr == 0:
        rec = None
    fr = sorted({float(np.round(10.0**r.uniform(-1.5, 1.5), 3))
                 for _ in range(nf)})
    while len(fr) < nf:
        fr.append(fr[-1]*2)
    fk = gen.choice(r, ['list', 'list', 'dict', 'dict-int', 'array'])
    if not for_sim and r.random() < 0.1:
        fr = [-f for f in fr]             # Laplace-domain survey
        fk += '-laplace'
    if fk.startswith('dict-int'):
        freqs = {f'f{i}': (int(max(1, round(abs(f)))+i)*(1 if f > 0 else -1))
                 for i, f in enumerate(fr)}
    elif fk.startswith('dict'):
        freqs = {f"{gen.choice(r, ['f_', 'freq-', 'F'])}{i}":
                 gen.choice(r, [f, np.float64(f)]) for i, f in enumerate(fr)}
    elif fk.startswith('array'):
        freqs = np.array(fr)
    else:
        freqs = fr if nf > 1 or r.random() < 0.5 else fr[0]
    shape = (ns, nr, nf)

    def cube(complex_=True, nan=True):
        d = (r.standard_normal(shape)*1e-12).astype(complex)
        if complex_:
            d = d + 1j*r.standard_normal(shape)*1e-12
        if nan and d.size and r.random() < 0.6:
            m = r.random(shape) < 0.3
            d[m] = np.nan + 1j*np.nan
        return d
    dk = gen.choice(r, ['none', 'array', 'dict', 'dict-noobs'])
    if finite_obs:
        dk = 'array-finite'
        data = cube(nan=False)
    elif dk == 'none':
        data = None
    elif dk == 'array':
        data = cube()
    else:
        data = {}
        if dk == 'dict':
            data['observed'] = cube()
        for nm in ['synthetic', 'extra', 'std_like', 'run_2'][
                :int(r.integers(1, 4))]:
            if nm == 'std_like':
                data[nm] = np.abs(r.standard_normal(shape))   # real data set
            else:
                data[nm] = cube()
    kw = {}
    nfk = gen.choice(r, NF_SHAPES)
    rek = gen.choice(r, NF_SHAPES)
    if finite_obs and nfk == 'none' and rek == 'none':
        nfk = 'float'
    if nr == 0:      # arrays cannot be broadcast onto an empty cube
        nfk = gen.choice(r, ['none', 'float'])
        rek = gen.choice(r, ['none', 'float'])
    if nfk != 'none' or r.random() < 0.3:
        kw['noise_floor'] = g_noise(r, nfk, shape, 1e-15)
    if rek != 'none' or r.random() < 0.3:
        kw['relative_error'] = g_noise(r, rek, shape, 0.05)
    for k in ('name', 'date', 'info'):
        if r.random() < 0.5:
            kw[k] = gen.choice(r, STRINGS[1:9] + ['2026-09-23', None])
    try:
        sv = emg3d.Survey(src, rec, freqs, data=data, **kw)
    except TypeError:
        # trees without the single-value fix do float(array) on one-element
        # arrays, which NumPy >= 2.4 refuses for ndim > 0: hand in floats
        for k in ('noise_floor', 'relative_error'):
            if isinstance(kw.get(k), np.ndarray) and kw[k].size == 1:
                kw[k] = float(kw[k].flat[0])
        sv = emg3d.Survey(src, rec, freqs, data=data, **kw)
    variant = f'{names}/{fk}/{dk}/nf-{nfk}/re-{rek}'
    if nr and r.random() < 0.25:
        sv.standard_deviation = np.abs(r.standard_normal(shape))*1e-14 + 1e-16
        variant += '/std'
    return sv, variant


# Simulations ---------------------------------------------------------------
SIMBOX = ([-150., -150., -600.], [150., 150., -400.])
AUTO = ['single', 'source', 'both', 'frequency']
AUTO_ORD = AUTO[:3]     # 'frequency' is generated in its own hazard class


def g_simgrid(r, n=4):
    import emg3d
    h = np.ones(n)*800.0/n
    return emg3d.TensorMesh([h, h, h], origin=(-400., -400., -900.))


def g_gridding_opts(r):
    go = {}
    pool = ['frequency', 'center', 'domain', 'properties', 'mapping',
            'vector', 'distance', 'stretching', 'min_width_limits',
            'min_width_pps', 'seasurface', 'cell_numbers', 'lambda_factor',
            'lambda_from_center', 'max_buffer', 'center_on_edge', 'verb']
    for key in pool:
        if r.random() > 0.3:
            continue
        if key == 'frequency':
            go[key] = gen.choice(r, [1.0, 0.5, np.float64(2.0), 3])
        elif key == 'center':
            c = [0.0, 10.0, -500.0]
            go[key] = gen.choice(r, [c, tuple(c), np.array(c)])
        elif key == 'domain':
            d = {'x': [-500, 500], 'y': [-400.0, 400.0], 'z': [-1000, -100]}
            go[key] = gen.choice(r, [d, (d['x'], d['y'], d['z']),
                                     {'x': np.array(d['x'], float),
                                      'y': d['y'], 'z': d['z']}])
        elif key == 'properties':
            go[key] = gen.choice(r, [[1.0], [0.3, 1.0, 1e8],
                                     [0.3, 1, 1, 1, 1, 2.0, 1e8], 2.0])
        elif key == 'mapping':
            go[key] = gen.choice(r, ['Resistivity', 'Conductivity',
                                     'LgResistivity'])
        elif key == 'vector':
            v = np.array([-100., 0., 100.])
            go[key] = gen.choice(r, ['xy', 'z', 'xyz', 'x',
                                     {'x': v, 'y': v, 'z': v - 500},
                                     (v, v, v - 500.0)])
        elif key == 'distance':
            d = [[-2000, 2000], [-1000., 1500.], [-3000, 500]]
            go[key] = gen.choice(r, [d, {'x': d[0], 'y': d[1], 'z': d[2]},
                                     tuple(d)])
        elif key == 'stretching':
            go[key] = gen.choice(r, [[1.0, 1.4], (1.05, 1.5),
                                     ([1, 1.3], [1, 1.4], [1, 1.5])])
        elif key == 'min_width_limits':
            go[key] = gen.choice(r, [[10, 100], (5.0, 50.0), 20,
                                     ([10, 100], [10, 200], [5, 50])])
        elif key == 'min_width_pps':
            go[key] = gen.choice(r, [3, 5, (3, 3, 5), [2, 4, 6]])
        elif key == 'seasurface':
            go[key] = gen.choice(r, [0.0, 0, -100.0])
        elif key == 'cell_numbers':
            go[key] = gen.choice(r, [[8, 16, 32], [16, 32, 64, 128],
                                     np.array([8, 16, 32, 64])])
        elif key == 'lambda_factor':
            go[key] = gen.choice(r, [1.0, 0.5, 2])
        elif key == 'lambda_from_center':
            go[key] = bool(r.random() < 0.5)
        elif key == 'max_buffer':
            go[key] = gen.choice(r, [100000.0, 50000, 1e4])
        elif key == 'center_on_edge':
            go[key] = gen.choice(r, [True, False, (True, False, True),
                                     [False, False, True]])
        elif key == 'verb':
            go[key] = int(gen.choice(r, [0, 1, -1]))
    return go


def g_solver_opts(r, compute=False):
    so = {}
    if compute:
        so.update(maxit=int(r.integers(1, 4)), plain=True, verb=-1)
        if r.random() < 0.3:
            so.pop('plain')
            so['sslsolver'] = gen.choice(r, [False, 'bicgstab'])
            so['semicoarsening'] = gen.choice(r, [False, True, 1])
            so['linerelaxation'] = gen.choice(r, [False, 4])
    else:
        pool = {'maxit': [1, 10, 50], 'tol': [1e-6, 1e-4, 1e-8],
                'plain': [True], 'sslsolver': [True, False, 'bicgstab'],
                'semicoarsening': [True, False, 123, 1],
                'linerelaxation': [True, False, 4, 56],
                'verb': [-1, 0, 1, 3], 'cycle': ['V', 'W', 'F'],
                'nu_pre': [0, 2, 3], 'nu_init': [0, 1], 'clevel': [-1, 2],
                'tol_gradient': [1e-3, 1e-5]}
        for k, vals in pool.items():
            if r.random() < 0.3:
                so[k] = gen.choice(r, vals)
    if r.random() < 0.4:
        so.setdefault('tol', float(gen.choice(r, [1e-4, 1e-5, 1e-7])))
    if r.random() < (0.6 if compute else 0.3):
        so['tol_gradient'] = float(gen.choice(r, [1e-2, 1e-3]))
    return so


def g_sim(r, compute=False, gridding=None, misfit=False, tmp=None,
          cheap_grid=False):
    """A Simulation on an 800 m cube with sources/receivers well inside."""
    import emg3d
    n = int(gen.choice(r, [4, 4, 8])) if compute else int(
        gen.choice(r, [2, 4, 4, 8]))
    grid = g_simgrid(r, n)
    layered = (not compute and gridding is None and r.random() < 0.2) or (
        compute and gridding is None and r.random() < 0.15)
    txc, real, dfm = None, False, None
    if layered:           # layered mode: points and dipoles only; computing
        txc = [c for c in TX if 'Wire' not in c]     # through empymod wants
        if compute:       # real strengths and 5/6-element coordinates
            txc, real = ['TxElectricDipole', 'TxElectricPoint'], True
            dfm = ['point', 'flat']
    sv, svar = g_survey(r, SIMBOX, for_sim=True, finite_obs=misfit,
                        tx_classes=txc, real_strength=real, dip_fmts=dfm)
    case = None
    mu = eps = None
    if layered:
        case = gen.choice(r, ['isotropic', 'VTI'])
    if compute:
        mu = eps = False if (misfit or layered) else None
        if any('MagneticPoint' in type(s).__name__
               for s in sv.sources.values()):
            mu = False
    model, mvar = g_model(r, grid, case=case, mu=mu, eps=eps)
    kw = {}
    gridding = gridding or gen.choice(
        r, ['same', 'same'] + (AUTO_ORD if not compute else ['single']))
    if compute and gridding in AUTO and r.random() < 0.7:
        gridding = 'same'
    if gridding in AUTO and (compute or cheap_grid):
        # a grid has to be constructed: only options that cannot make the
        # automatic gridding fail or explode
        kw['gridding_opts'] = gen.choice(r, [{}, {'center_on_edge': True},
                                             {'lambda_from_center': True}])
    elif gridding in AUTO:
        go = g_gridding_opts(r)
        if go or r.random() < 0.5:
            kw['gridding_opts'] = go
    elif gridding == 'input':
        kw['gridding_opts'] = g_simgrid(r, int(gen.choice(r, [4, 8])))
    elif gridding == 'dict':
        gg = [g_simgrid(r, 4), g_simgrid(r, 8)]
        kw['gridding_opts'] = {s: {f: gg[(i+j) % 2] for j, f in enumerate(
            sv.frequencies)} for i, s in enumerate(sv.sources)}
    so = g_solver_opts(r, compute)
    if so or r.random() < 0.5:
        kw['solver_opts'] = so
    kw['max_workers'] = 1 if compute else int(r.integers(1, 5))
    if r.random() < 0.5:
        kw['verb'] = int(gen.choice(r, [0, 0, -1, 1]))
    for k in ('name', 'info'):
        if r.random() < 0.5:
            kw[k] = gen.choice(r, STRINGS[1:9] + [None])
    if r.random() < 0.4:
        kw['receiver_interpolation'] = gen.choice(r, ['cubic', 'linear'])
    if compute:
        kw['tqdm_opts'] = gen.choice(r, [False, {'disable': True},
                                         {'disable': True, 'desc': 'x'}])
    elif r.random() < 0.6:
        kw['tqdm_opts'] = gen.choice(r, [False, True, {'disable': True},
                                         {'desc': 'my bar', 'ncols': 60},
                                         {}])
    if layered:
        kw['layered'] = True
        lo = gen.choice(r, [None, {}, {'method': 'midpoint'},
                            {'method': 'source'}, {'merge': True},
                            {'method': 'prism', 'ellipse': {
                                'radius': 500.0, 'factor': 1.5}},
                            {'method': 'cylinder', 'ellipse': {
                                'radius': 300, 'minor': 0.5}}])
        if lo is not None:
            kw['layered_opts'] = lo
    elif r.random() < 0.15:
        kw['layered_opts'] = {'method': 'midpoint'}     # stored, unused
    if tmp and not compute and r.random() < 0.1:
        kw['file_dir'] = os.path.join(tmp, f'fd{int(r.integers(1 << 30))}')
    sim = emg3d.Simulation(sv, model, gridding=gridding, **kw)
    if compute and gridding in AUTO:
        # keep the computed case cheap: fall back to the model grid if the
        # automatic grid cannot be built or is large
        try:
            g = sim.get_grid(list(sv.sources)[0], list(sv.frequencies)[0])
            small = int(g.n_cells) <= 20000
        except RuntimeError:
            small = False
        if not small:
            gridding = 'same'
            kw.pop('gridding_opts', None)
            sim = emg3d.Simulation(sv, model, gridding=gridding, **kw)
    state = 'plain'
    if compute:
        sim.compute(observed=bool((not misfit) and r.random() < 0.4),
                    add_noise=False)
        state = 'computed'
        if misfit:
            _ = sim.misfit
            state = 'misfit'
            if not layered and r.random() < 0.6:
                _ = sim.gradient
                state = 'gradient'
    variant = (f"{gridding}/{state}/{'layered' if layered else '3d'}/"
               f"{mvar.split('/')[1]}")
    return sim, variant


# Payload composition ---------------------------------------------------------
ORDINARY = ['int', 'float', 'complex', 'str', 'bool', 'none', 'npscalar',
            'arr-int', 'arr-float', 'arr-complex', 'arr-nonfinite',
            'arr-empty', 'arr-0d', 'arr-smalldtype', 'dict',
            'mesh', 'model', 'field', 'tx', 'rx', 'survey', 'sim-plain']
WEIGHTS = [1, 1, 1, 1, 1, 1, 1,
           1, 1, 1, 1.5,
           0.7, 0.7, 1, 3,
           2, 2.5, 2.5, 3, 2, 3, 2.5]


def g_item(r, label, depth=0, tmp=None):
    """-> (variant, object)."""
    if label == 'int':
        return 'py', g_int(r)
    if label == 'float':
        return 'py', g_float(r)
    if label == 'complex':
        return 'py', g_complex(r)
    if label == 'str':
        return 'py', gen.choice(r, STRINGS)
    if label == 'bool':
        return 'py', bool(r.random() < 0.5)
    if label == 'none':
        return 'py', None
    if label == 'npscalar':
        v = gen.choice(r, [np.float64(g_float(r)), np.int64(g_int(r)),
                           np.complex128(g_complex(r)), np.bool_(True),
                           np.bool_(False), np.float32(1.5), np.int32(-7)])
        return type(v).__name__, v
    if label in ('arr-int', 'arr-float', 'arr-complex'):
        a = g_array(r, label[4:])
        return f'{a.ndim}d', a
    if label == 'arr-nonfinite':
        k = gen.choice(r, ['float', 'complex'])
        return k, sprinkle_nonfinite(r, g_array(r, k))
    if label == 'arr-empty':
        shp = gen.choice(r, [(0,), (0,), (3, 0), (2, 2, 0)])
        dt = gen.choice(r, [float, complex, np.int64])
        return f'{shp}', np.zeros(shp, dtype=dt)
    if label == 'arr-0d':
        v = gen.choice(r, [np.array(g_float(r)), np.array(g_int(r)),
                           np.array(g_complex(r))])
        return v.dtype.name, v
    if label == 'arr-smalldtype':
        dt = gen.choice(r, ['float32', 'int32', 'complex64', 'int16',
                            'uint8'])
        s = g_shape(r, 60)
        if dt == 'uint8':
            a = r.integers(0, 256, s).astype(dt)
        elif dt.startswith('int'):
            a = r.integers(-3000, 3000, s).astype(dt)
        elif dt == 'float32':
            a = r.standard_normal(s).astype(dt)
        else:
            a = (r.standard_normal(s) + 1j*r.standard_normal(s)).astype(dt)
        return dt, a
    if label == 'dict':
        n = int(r.integers(1, 5))
        d = {}
        kinds = []
        for j in range(n):
            sub = pick_label(r, allow_dict=depth < 3, cheap=depth >= 1)
            nm = f'{gen.choice(r, NAMES)}_{j}'
            if r.random() < 0.1:
                nm = str(j)                   # digit-only key
            v, o = g_item(r, sub, depth+1, tmp)
            d[nm] = o
            kinds.append(sub)
        return f'depth{depth+1}', d
    if label == 'mesh':
        m = g_mesh(r)
        return f'{min(m.shape_cells)}-{max(m.shape_cells)}', m
    if label == 'model':
        m, var = g_model(r)
        return var, m
    if label == 'field':
        f, var = g_field(r)
        return var, f
    if label == 'tx':
        t, var = g_tx(r)
        return var, t
    if label == 'rx':
        t, var = g_rx(r)
        return var, t
    if label == 'survey':
        s, var = g_survey(r)
        return var, s
    if label == 'sim-plain':
        s, var = g_sim(r, compute=False, tmp=tmp)
        return var, s
    raise ValueError(label)


def pick_label(r, allow_dict=True, cheap=False):
    w = np.array(WEIGHTS, dtype=float)
    if not allow_dict:
        w[ORDINARY.index('dict')] = 0
    if cheap:
        w[ORDINARY.index('sim-plain')] *= 0.3
        w[ORDINARY.index('survey')] *= 0.5
    return ORDINARY[int(r.choice(len(ORDINARY), p=w/w.sum()))]


def g_payload(r, tmp):
    n = int(gen.choice(r, [1, 2, 2, 3, 3, 4, 5]))
    items = {}
    for j in range(n):
        label = pick_label(r)
        nm = gen.choice(r, NAMES)
        while nm in items:
            nm = f'{nm}{j}'
        var, obj = g_item(r, label, 0, tmp)
        items[nm] = (label, var, obj)
    return items


def g_hazard(r, label, tmp):
    """One labelled input class per known defect mechanism."""
    if label == 'HZ-empty-dict':
        v = gen.choice(r, [{}, {'inner': {}}, {'a': 1.0, 'e': {}}])
        return 'plain', v
    if label == 'HZ-array-zero-dim':
        shp = gen.choice(r, [(0, 2), (2, 0, 3), (0, 0), (1, 0, 1)])
        return f'{shp}', np.zeros(shp, dtype=gen.choice(r, [float, complex]))
    if label == 'HZ-complex-nonfinite-imag':
        bad = gen.choice(r, [np.inf, -np.inf, np.nan])
        if r.random() < 0.5:
            return 'scalar', complex(1.5, bad)
        a = np.array(g_array(r, 'complex', (int(r.integers(2, 6)),)))
        a[0] = complex(a[0].real, bad)
        return 'array', a
    if label == 'HZ-survey-no-receivers':
        s, var = g_survey(r, nrec=0)
        return var, s
    if label == 'HZ-sim-mesh-gridding':
        s, var = g_sim(r, compute=False,
                       gridding=gen.choice(r, ['input', 'dict']), tmp=None)
        return var, s
    if label == 'HZ-sim-misfit':
        s, var = g_sim(r, compute=True, gridding='same', misfit=True)
        return var, s
    if label == 'HZ-sim-frequency-gridding':
        s, var = g_sim(r, compute=False, gridding='frequency', tmp=None,
                       cheap_grid=True)
        return var, s
    raise ValueError(label)


# --------------------------------------------------------------------------
# The monitor
class Quiet:
    """Silence emg3d's prints/progress bars; collect emg3d warnings."""

    def __enter__(self):
        self._so = contextlib.redirect_stdout(_io.StringIO())
        self._se = contextlib.redirect_stderr(_io.StringIO())
        self._w = warnings.catch_warnings(record=True)
        self._so.__enter__()
        self._se.__enter__()
        self.caught = self._w.__enter__()
        warnings.simplefilter('always')
        return self

    def __exit__(self, *a):
        self._w.__exit__(*a)
        self._se.__exit__(*a)
        self._so.__exit__(*a)

    def emg3d_warnings(self):
        return [str(w.message)[:200] for w in self.caught
                if 'emg3d' in str(w.message) and
                'not optimal for MG' not in str(w.message)]


def mech_key(label, fmt, symptom, prefix=''):
    for f in (fmt, '*'):
        m = KNOWN_MECH.get((label, f, symptom))
        if m:
            return f'C17:{m}'
    lab = label.replace('HZ-', 'hz-')
    return f'C17:{prefix}{symptom}-{lab}-{fmt}'


def grid_info(obj):
    with Quiet():
        return obj.print_grid_info(verb=0, return_info=True)


def _cheap_grid_info(label, obj):
    """Grid info is compared where no (possibly large) grid has to be built:
    given grids, and the small default grids of the hazard class."""
    return type(obj).__name__ == 'Simulation' and (
        label == 'HZ-sim-frequency-gridding' or
        getattr(obj, 'gridding', None) in ('same', 'input', 'dict'))


def observables(obj, with_grid_info=False):
    """Public results of a Simulation that must survive the round trip."""
    out = {}
    if type(obj).__name__ != 'Simulation':
        return out
    if with_grid_info:
        # informational public method; compared only if the original can
        # produce it (automatic gridding may legitimately find no grid)
        try:
            s = grid_info(obj)
            if isinstance(s, str):
                out['@grid_info'] = s
        except Exception:  # noqa
            pass
    try:
        has_m = obj._misfit is not None
        has_g = obj._gradient is not None
    except Exception as e:  # noqa
        return {'@state': _Err(str(e))}
    if has_m:
        out['@misfit'] = _attr(obj, 'misfit')
    if has_g:
        out['@gradient'] = _attr(obj, 'gradient')
    return out


class Checker:
    def __init__(self, rec, tmp, case):
        self.rec = rec
        self.tmp = tmp
        self.case = case          # replay coordinates (seed, batch, index)
        self.n = 0

    def fname(self, ext, tag=''):
        self.n += 1
        return os.path.join(self.tmp, f'f{self.n}{tag}.{ext}')

    def viol(self, label, fmt, symptom, msg, prefix='', extra=None):
        c = dict(self.case)
        c.update(extra or {})
        c.update({'entry_class': label, 'format': fmt, 'symptom': symptom})
        self.rec.violation(mech_key(label, fmt, symptom, prefix),
                           f'[{fmt}] {label}: {msg}', c)

    # -- comparison of one loaded entry with the original -----------------
    def compare(self, label, var, fmt, name, orig, cform, loaded, what='all',
                prefix='', wmsgs=(), obs=None):
        """-> True if no difference."""
        rec = self.rec
        lform = canon(loaded, what)
        d = []
        diff(cform, lform, name, d)
        rec.event('entries_compared')
        ok = True
        if d:
            ok = False
            path, sym, det = d[0]
            if (label == 'HZ-sim-mesh-gridding' and all(
                    ('gridding_opts' in p or '_dict_grid' in p)
                    for p, _, _ in d)):
                sym = 'gridding-mesh'
            more = '; '.join(f'{p}: {s} {t}' for p, s, t in d[1:4])
            w = f' | emg3d warnings: {list(wmsgs)[:2]}' if wmsgs else ''
            self.viol(label, fmt, sym, f'{var}: {path}: {det}'
                      + (f' (+ {more})' if more else '') + w, prefix,
                      {'entry': name, 'variant': var, 'differences':
                       [list(x) for x in d]})
        # __eq__ where the class defines it and the original equals itself
        cls = type(orig)
        if ok and cls.__module__.startswith('emg3d') and \
                '__eq__' in _mro_dict(cls):
            try:
                self_eq = bool(orig == orig)
            except Exception:  # noqa
                self_eq = False
            if self_eq:
                rec.event('eq_checks')
                try:
                    e1, e2 = bool(loaded == orig), bool(orig == loaded)
                except Exception as e:  # noqa
                    e1 = e2 = False
                    det = f'{type(e).__name__}: {e}'
                else:
                    det = f'loaded==orig {e1}, orig==loaded {e2}'
                if not (e1 and e2):
                    ok = False
                    self.viol(label, fmt, 'eq-false', f'{var}: {name}: equal '
                              f'canonical form but __eq__ fails: {det}',
                              prefix, {'entry': name, 'variant': var})
        # public results of simulations
        if ok and obs:
            lobs = observables(loaded)
            if '@grid_info' in obs:
                try:
                    lobs['@grid_info'] = grid_info(loaded)
                except Exception as e:  # noqa
                    lobs['@grid_info'] = _Err(f'print_grid_info() raises '
                                              f'{type(e).__name__}: {e}')
            for k, v in obs.items():
                rec.event('sim_observables')
                d2 = []
                diff(canon(v), canon(lobs.get(k, _Err('absent'))),
                     f'{name}{k}', d2)
                if d2:
                    ok = False
                    sym = {'@misfit': 'observable-misfit', '@grid_info':
                           'observable-grid-info'}.get(k, 'observable')
                    self.viol(label, fmt, sym, f'{var}: {d2[0][0]}: '
                              f'Simulation.{k[1:]} of the loaded simulation: '
                              f'{d2[0][2]}', prefix,
                              {'entry': name, 'variant': var})
        if ok:
            rec.distinct((label, var, prefix + fmt))
        return ok

    # -- one payload through the three formats (+ conversions) ------------
    def roundtrip(self, items, pairs, hazard=False):
        import emg3d
        rec = self.rec
        payload = {k: v[2] for k, v in items.items()}
        with Quiet():
            # print_grid_info() constructs and caches the grids: call it
            # before the canonical form of the original is taken
            obs = {k: observables(v, _cheap_grid_info(items[k][0], v))
                   for k, v in payload.items()}
            cforms = {k: canon(v, 'all') for k, v in payload.items()}
        for k, f in cforms.items():
            if has_error(f):
                rec.inconclusive('canonical form of a generated object could '
                                 f'not be read: {items[k][0]} {brief(f)}',
                                 dict(self.case, entry=k))
                return
        rec.case()
        # A refused save (unknown file extension -> ValueError, documented)
        # of a survey/simulation must not influence what later saves of the
        # same object contain.
        for k, v in payload.items():
            if hasattr(v, 'to_file') and (self.case.get('i', 0) % 2 == 0):
                kw = {'what': 'plain'} if hasattr(v, 'clean') else {}
                try:
                    with Quiet():
                        v.to_file(self.fname('h5')[:-3] + '.unsupported',
                                  verb=0, **kw)
                    rec.event('refused_save_not_refused')
                except ValueError:
                    rec.event('refused_saves_before_save')
                except Exception:  # noqa - other errors: not our business
                    rec.event('refused_save_other_error')
        saved, errs = {}, {}
        for fmt in FORMATS:
            fn = self.fname(fmt)
            try:
                with Quiet():
                    emg3d.save(fn, verb=0, **payload)
                saved[fmt] = fn
            except Exception as e:  # noqa
                errs[fmt] = f'{type(e).__name__}: {e}'[:300]
        rec.event('save_calls', len(FORMATS))
        if not saved:
            rec.inconclusive('save() rejects the payload in all formats: '
                             f'{errs}', dict(self.case, classes=[
                                 v[0] for v in items.values()]))
            return
        lab0 = _main_label(items)
        for fmt, e in errs.items():
            self.viol(lab0, fmt, 'save-error', f'save() raises {e} but '
                      f'succeeds for {sorted(saved)}',
                      extra={'classes': [v[0] for v in items.values()]})
        good = {}
        for fmt, fn in saved.items():
            good[fmt] = self.load_and_compare(fn, fmt, items, cforms, obs)
        # conversions: content of a file is preserved
        if hazard:
            return
        for a, b in pairs:
            if a not in saved or b in errs or not good.get(a):
                continue
            fb = self.fname(b, f'-from-{a}')
            try:
                with Quiet():
                    emg3d.io.convert(saved[a], fb, verb=0)
            except Exception as e:  # noqa
                self.viol(lab0, f'{a}2{b}', 'convert-error',
                          f'convert raises {type(e).__name__}: {e}'[:300])
                continue
            rec.event('convert_calls')
            self.load_and_compare(fb, f'{a}2{b}', items, cforms, {
                k: {n: v for n, v in o.items() if n != '@grid_info'}
                for k, o in obs.items()}, prefix='convert-')
            _rm(fb)
        for fn in saved.values():
            _rm(fn)

    def load_and_compare(self, fn, fmt, items, cforms, obs, prefix=''):
        import emg3d
        rec = self.rec
        lab0 = _main_label(items)
        try:
            with Quiet() as q:
                out = emg3d.load(fn, verb=0)
            wmsgs = q.emg3d_warnings()
        except Exception as e:  # noqa
            self.viol(lab0, fmt, 'load-error', f'load() raises '
                      f'{type(e).__name__}: {e}'[:400], prefix,
                      {'classes': [v[0] for v in items.values()]})
            return False
        rec.event('load_calls')
        ok = True
        if not isinstance(out, dict):
            self.viol(lab0, fmt, 'type', f'load returned {type(out)}', prefix)
            return False
        for m in META:
            if not isinstance(out.get(m), str):
                ok = False
                self.viol(lab0, fmt, 'meta', f'meta entry {m} missing or not '
                          f'a string: {out.get(m)!r}', prefix)
        extra = set(out) - set(items) - META
        if extra:
            ok = False
            self.viol(lab0, fmt, 'extra', f'unexpected top-level entries '
                      f'{sorted(extra)}', prefix)
        for k, (label, var, obj) in items.items():
            if k not in out:
                ok = False
                self.viol(label, fmt, 'missing', f'{var}: entry {k!r} '
                          f'({brief(cforms[k])}) is not in the loaded file',
                          prefix, {'entry': k})
                continue
            with Quiet():
                ok &= self.compare(label, var, fmt, k, obj, cforms[k], out[k],
                                   'all', prefix, wmsgs, obs.get(k))
        rec.event('roundtrips' if not prefix else 'convert_roundtrips')
        return ok

    # -- to_file / from_file of surveys and simulations --------------------
    def tofile(self, label, var, obj, r, whats=None, fmts=None):
        rec = self.rec
        cls = type(obj)
        is_sim = cls.__name__ == 'Simulation'
        for fmt in (fmts or FORMATS):
            for what in (whats or ([None] if not is_sim else
                                   ['plain', 'results', 'computed', 'all'])):
                name = gen.choice(r, [None, 'mine', 'S_1'])
                verb = gen.choice(r, [0, 0, -1])
                kw = {} if name is None else {'name': name}
                w = what or 'all'
                with Quiet():
                    cform = canon(obj, w)
                    obs = observables(obj) if w != 'plain' else {}
                fn = self.fname(fmt, '-tofile')
                try:
                    with Quiet():
                        if is_sim:
                            obj.to_file(fn, what=what, verb=0, **kw)
                        else:
                            obj.to_file(fn, verb=0, **kw)
                except Exception as e:  # noqa
                    # JSON cannot take the misfit: known from save() already
                    self.viol(label, fmt, 'save-error', f'{var}: to_file('
                              f'what={what}) raises {type(e).__name__}: {e}'
                              [:300], 'tofile-')
                    continue
                rec.event('to_file_calls')
                try:
                    with Quiet() as q:
                        out = cls.from_file(fn, verb=verb, **kw)
                    wmsgs = q.emg3d_warnings()
                except Exception as e:  # noqa
                    self.viol(label, fmt, 'load-error', f'{var}: from_file '
                              f'raises {type(e).__name__}: {e}'[:300],
                              'tofile-')
                    continue
                if verb < 0:
                    if not (isinstance(out, tuple) and len(out) == 2 and
                            isinstance(out[1], str)):
                        self.viol(label, fmt, 'type', 'from_file(verb=-1) '
                                  f'did not return (object, info-string): '
                                  f'{type(out)}', 'tofile-')
                        continue
                    out = out[0]
                with Quiet():
                    self.compare(label, f'{var}/{what}', fmt, name or 'obj',
                                 obj, cform, out, w, 'tofile-', wmsgs, obs)
                rec.event('to_file_roundtrips')
                _rm(fn)


def _mro_dict(cls):
    d = {}
    for c in cls.__mro__:
        if c is object:
            continue
        d.update(c.__dict__)
    return d


def _main_label(items):
    labs = [v[0] for v in items.values()]
    hz = [x for x in labs if x.startswith('HZ-')]
    return hz[0] if hz else ('payload' if len(labs) > 1 else labs[0])


def _rm(fn):
    try:
        os.unlink(fn)
    except OSError:
        pass


def describe(items):
    return {k: f'{v[0]}:{v[1]}' for k, v in items.items()}


# --------------------------------------------------------------------------
def run_batch(batch):
    global _BIG
    rec = common.Rec(max_viol=30)
    seed, k, tier = batch['seed'], batch['k'], batch['tier']
    _BIG = tier == 'thorough'
    tmp = tempfile.mkdtemp(prefix='vf-c17-')
    warnings.simplefilter('ignore')
    try:
        for i in range(batch['n']):
            case = {'seed': seed, 'batch': batch['id'], 'k': k, 'index': i}
            r = gen.rng(seed, 'C17', k, i)
            try:
                _one(rec, batch['mode'], r, tmp, case, tier, k, i)
            except Exception:  # noqa - generator / harness problem
                import traceback
                rec.inconclusive('harness exception: ' +
                                 traceback.format_exc()[-900:], case)
            # keep the scratch directory small
            for f in os.listdir(tmp):
                p = os.path.join(tmp, f)
                if os.path.isfile(p):
                    _rm(p)
    finally:
        shutil.rmtree(tmp, ignore_errors=True)
    return rec.result()


def _pairs(tier, k, i):
    if tier == 'thorough':
        return PAIRS
    j = (k*7 + i) % 3
    return [PAIRS[2*j], PAIRS[(2*j + 3) % 6]]


def _one(rec, mode, r, tmp, case, tier, k, i):
    ck = Checker(rec, tmp, case)
    if mode == 'mix':
        with Quiet():
            items = g_payload(r, tmp)
        case['payload'] = describe(items)
        ck.roundtrip(items, _pairs(tier, k, i))
        for nm, (label, var, obj) in items.items():
            rec.extra_set('classes', [label])
            if label in ('survey', 'sim-plain') and r.random() < 0.5:
                fm = [gen.choice(r, FORMATS)] if tier == 'quick' else None
                ck.tofile(label, var, obj, r, fmts=fm)
        if i < 2:
            rec.sample(case)
    elif mode == 'sim':
        with Quiet():
            # every second one with misfit (and most of those with gradient):
            # the state in which emg3d's scratch entry solver_opts['tol']
            # holds tol_gradient when the simulation is saved
            sim, var = g_sim(r, compute=True, misfit=bool(i % 2),
                             gridding='same' if i % 2 else None)
        items = {gen.choice(r, ['simulation', 'sim_1', 'S']):
                 ('sim-computed', var, sim)}
        case['payload'] = describe(items)
        rec.extra_set('classes', ['sim-computed'])
        ck.roundtrip(items, _pairs(tier, k, i))
        ck.tofile('sim-computed', var, sim, r)
        if i < 1:
            rec.sample(case)
    elif mode == 'hazard':
        for label in HAZARDS:
            rr = gen.rng(case['seed'], 'C17', k, i, label)
            with Quiet():
                var, obj = g_hazard(rr, label, tmp)
            items = {'hz': (label, var, obj), 'n0': ('int', 'py', 7)}
            case2 = dict(case, hazard=label, payload=describe(items))
            ck2 = Checker(rec, tmp, case2)
            ck2.roundtrip(items, [], hazard=True)
            rec.extra_set('classes', [label])
            if label == 'HZ-sim-misfit':
                ck2.tofile(label, var, obj, rr, whats=['plain', 'results'])
            elif label in ('HZ-sim-mesh-gridding', 'HZ-survey-no-receivers',
                           'HZ-sim-frequency-gridding'):
                ck2.tofile(label, var, obj, rr,
                           whats=(['plain', 'all'] if 'sim' in label
                                  else None))


def finalize(merged, tier):
    q = tier == 'quick'
    common.require_events(merged, {
        'roundtrips': 1500 if q else 20000,
        'entries_compared': 4000 if q else 70000,
        'convert_roundtrips': 1000 if q else 40000,
        'to_file_roundtrips': 250 if q else 3000,
        'eq_checks': 500 if q else 8000,
        'sim_observables': 1,
    })
    want = set(ORDINARY) | {'sim-computed'} | set(HAZARDS)
    seen = set(merged['extra'].get('set:classes', []))
    if want - seen:
        merged['inconclusive'].append(
            {'reason': f'entry classes never generated: {sorted(want-seen)}',
             'case': None})
