"""Seeded generators shared by the property modules."""
import zlib
import numpy as np

MAPPINGS = ['Resistivity', 'Conductivity', 'LgResistivity', 'LgConductivity',
            'LnResistivity', 'LnConductivity']
CASES = ['isotropic', 'VTI', 'HTI', 'triaxial']


def rng(*keys):
    """numpy Generator from a tuple of ints/strings (stable across runs)."""
    ks = []
    for k in keys:
        if isinstance(k, str):
            ks.append(zlib.crc32(k.encode()))
        else:
            ks.append(int(k) & 0xffffffff)
    return np.random.default_rng(ks)


def choice(r, seq):
    return seq[int(r.integers(len(seq)))]


def widths(r, n, kind=None, base=None):
    """Positive cell widths: uniform / geometric stretching / jitter."""
    kind = kind or choice(r, ['uniform', 'stretched', 'jitter', 'stretch2'])
    base = base if base is not None else 10.0**r.uniform(0, 2.5)
    if kind == 'uniform':
        h = np.ones(n)
    elif kind == 'stretched':
        f = r.uniform(1.0, 1.5)
        c = int(r.integers(0, n))
        h = f**np.abs(np.arange(n) - c)
    elif kind == 'stretch2':
        f = r.uniform(1.0, 1.3)
        h = f**np.arange(n)
        if r.random() < 0.5:
            h = h[::-1]
    else:
        h = r.uniform(0.5, 2.0, n)
    return np.ascontiguousarray(h*base, dtype=float)


def grid_spec(r, shape, kind=None, same_base=True):
    base = 10.0**r.uniform(0, 2.5)
    hs = [widths(r, n, kind, base if same_base else None) for n in shape]
    origin = [float(np.round(r.uniform(-1000, 1000), 3)) for _ in range(3)]
    return {'hx': hs[0], 'hy': hs[1], 'hz': hs[2], 'origin': origin}


def model_spec(r, shape, case=None, mu=None, eps=None, decades=4,
               mapping=None, homogeneous=None):
    """Conductivity arrays (truth) + how they are handed to emg3d."""
    case = case or choice(r, CASES)
    mapping = mapping or choice(r, MAPPINGS)
    if mu is None:
        mu = r.random() < 0.25
    if eps is None:
        eps = r.random() < 0.25
    if homogeneous is None:
        homogeneous = r.random() < 0.15
    c0 = r.uniform(-decades/2, decades/2)

    def sig():
        if homogeneous:
            return np.full(shape, 10.0**(c0 + r.uniform(-0.5, 0.5)))
        return 10.0**(c0 + r.uniform(-decades/2, decades/2, shape))
    out = {'case': case, 'mapping': mapping, 'sigx': sig(),
           'sigy': None, 'sigz': None, 'mu_r': None, 'eps_r': None}
    if case in ('HTI', 'triaxial'):
        out['sigy'] = sig()
    if case in ('VTI', 'triaxial'):
        out['sigz'] = sig()
    if mu:
        out['mu_r'] = r.uniform(0.5, 3.0, shape)
    if eps:
        out['eps_r'] = r.uniform(1.0, 10.0, shape)
    return out


def sig_xyz(m):
    """Direction-dependent conductivities implied by the case."""
    sx = m['sigx']
    sy = m['sigy'] if m['sigy'] is not None else sx
    sz = m['sigz'] if m['sigz'] is not None else sx
    return sx, sy, sz


def build_emg3d(gs, ms=None):
    """emg3d TensorMesh (+ Model) from specs."""
    import emg3d
    from vf import refop
    grid = emg3d.TensorMesh([np.array(gs['hx']), np.array(gs['hy']),
                             np.array(gs['hz'])], origin=gs['origin'])
    if ms is None:
        return grid
    kw = {}
    for name, key in (('property_x', 'sigx'), ('property_y', 'sigy'),
                      ('property_z', 'sigz')):
        if ms[key] is not None:
            kw[name] = refop.from_conductivity(ms[key], ms['mapping'])
    if ms['mu_r'] is not None:
        kw['mu_r'] = np.array(ms['mu_r'])
    if ms['eps_r'] is not None:
        kw['epsilon_r'] = np.array(ms['eps_r'])
    model = emg3d.Model(grid, mapping=ms['mapping'], **kw)
    return grid, model


def build_refop(gs, ms, frequency):
    from vf import refop
    sx, sy, sz = sig_xyz(ms)
    return refop.RefOp(gs['hx'], gs['hy'], gs['hz'], sx, sy, sz,
                       refop.sval(frequency), ms['mu_r'], ms['eps_r'])


def frequency(r, laplace=None):
    if laplace is None:
        laplace = r.random() < 0.3
    f = 10.0**r.uniform(-2, 2)
    return -f if laplace else f


def random_field(r, n, complex_=True):
    v = r.standard_normal(n)
    if complex_:
        v = v + 1j*r.standard_normal(n)
    return v


def summarize_grid(gs):
    return {'shape': [len(gs['hx']), len(gs['hy']), len(gs['hz'])],
            'hx': gs['hx'], 'hy': gs['hy'], 'hz': gs['hz'],
            'origin': gs['origin']}
