"""C20 - Fourier helper partitions and fills the required frequencies consistently.

Monitor: wrappers around ``emg3d.time.Fourier`` (constructor, every setter,
``fourier_arguments``, ``interpolate``, ``freq2time``) and around
``empymod.model.tem`` (the hand-over to the reference transform).  Oracles:

* state invariant after construction / every setter: the three index sets are a
  disjoint cover of ``freq_required`` defined by ``fmin``/``fmax``; computed
  frequencies lie in the band and are coarse frequencies;
* post-condition of ``interpolate``: exactly 0 above ``fmax``; in the band the
  not-a-knot cubic spline in log(f) through (freq_compute, fdata) (own dense
  implementation, tolerance scaled with the Lebesgue function of the spline),
  pass-through where a required frequency coincides with a computed one; below
  ``fmin`` real part = Re fdata[0], imaginary part monotone, bounded by the
  monotone-Hermite envelope (-> 0), and equal to an own PCHIP through the
  documented extra point (1e-100 Hz, Re fdata[0] + 0j);
* ``freq2time``: the result equals ``empymod.model.tem`` (the reference
  transform) applied to the filled spectrum with frequencies / transform
  arguments obtained independently from ``empymod.utils.check_time`` for the
  nominal (time, signal, ft, ftarg); error bound from the (extracted) linear
  operator of the transform.

The driver compares the object's attributes with a small model of the nominal
settings (also after random setter histories).
"""
import contextlib
import io
import warnings
import numpy as np
from vf import common, gen

PROP = 'C20'
NEEDS_JIT = False
TIMEOUT = {'quick': 900, 'thorough': 3000}
RULE = ("seeded configurations: time vector (log/lin/random/single/unsorted, "
        "1..60 times, thorough to 250) x signal {-1,0,1} x transform (dlf "
        "lagged / dlf splined with 9 filters, by name or object, optional "
        "kind for signal 0; fftlog with pts_per_dec/add_dec/q) x band (fmin, "
        "fmax inside / exactly on / outside the required range) x coarse "
        "option (none, every_x_freq 1..10, input_freq of different size with "
        "some entries snapped onto required frequencies or a subset of them, "
        "input_freq equal to freq_required, input_freq of the same size but "
        "other values [own class], reached by the constructor or by a random "
        "setter history, signal changed by its setter only [own class]) x 2-3 "
        "complex spectra (random, smooth, power law, real, imaginary, "
        "constant, zero; amplitudes 1e-14..1e2); distinct = (input class, "
        "transform mode, filter, signal, any extrapolated?, any above fmax?, "
        "spectrum kind) whose interpolate() and freq2time() reached the oracles")
ASSUMPTIONS = [
    "empymod.utils.check_time / empymod.model.tem are the reference ('the "
    "frequencies required by the transform', 'the reference transform'); they "
    "are called by the oracle with the nominal inputs, not through emg3d",
    "the interpolants named in the Fourier docstring (cubic spline in log f = "
    "not-a-knot interpolating spline; PCHIP as defined by scipy/Fritsch-"
    "Butland through the extra point (1e-100 Hz, Re d0 + 0j)) are part of the "
    "property; own implementations, guarded against scipy CubicSpline / "
    "PchipInterpolator (disagreement = inconclusive)",
    "in-band points whose spline Lebesgue function exceeds 1e5 (far outside "
    "the hull of the computed frequencies) are counted but not judged",
    "input_freq sorted ascending and >= 4 computed frequencies on the spline "
    "path (anything else makes the documented spline impossible)",
    "setter histories keep fmin < fmax at every step; a signal change through "
    "the setter that is not followed by a time / fourier_arguments update is "
    "generated only in its own input class",
    "standard DLF (pts_per_dec=0), qwe and fft are outside the quantifier",
]

TOL_SPL = 1e-10      # x Lebesgue function x max|fdata| (spline rounding)
TOL_PASS = 1e-11     # x max|fdata|: pass-through at coinciding frequencies
TOL_EXT = 1e-11      # x local data scale: equality with the reference PCHIP
TOL_RE = 1e-12       # real part below fmin vs Re fdata[0]
LAM_MAX = 1e5
TOL_RND = 1e-8      # x sum|T||S|: rounding of the reference transform
FLOOR = 1e-90        # absolute floor (the code uses -1e-100j for '0j')

FILTERS = ['key_201_2012', 'key_101_2012', 'key_81_2009', 'key_241_2009',
           'key_601_2009', 'wer_201_2018', 'wer_101_2020a', 'wer_101_2020b',
           'grayver_50_2021']
PATTERN = ['plain', 'every_x', 'input_diff', 'setters', 'every_x',
           'input_diff', 'plain', 'hostile_same_size', 'input_equal',
           'every_x', 'input_diff', 'setters', 'signal_setter', 'input_diff',
           'every_x', 'plain']
K_SAME = 'C20:same-size-input-freq-copied-not-interpolated'
K_SIG = 'C20:signal-setter-keeps-stale-transform'


# ---------------------------------------------------------------------------
# plan
def plan(tier, seed):
    if tier == 'quick':
        nb, per = 16, 60            # 960 configurations
    else:
        nb, per = 28, 200           # 5600 configurations (+ 377 enumerated)
    out = [{'id': f'{tier[0]}{k}', 'k': k, 'n': per} for k in range(nb)]
    if tier == 'thorough':
        # complete cross product transform mode x filter x signal x class
        combos = []
        for mode, filt in ([('lagged', f) for f in FILTERS] +
                           [('splined', f) for f in FILTERS] +
                           [('fftlog', None)]):
            for signal in (-1, 0, 1):
                if filt == 'grayver_50_2021' and signal < 0:
                    continue            # sine-only filter
                for cls in sorted(set(PATTERN)):
                    if filt == 'grayver_50_2021' and cls in (
                            'setters', 'signal_setter'):
                        continue        # (histories avoid the sine-only one)
                    combos.append({'mode': mode, 'dlf': filt,
                                   'signal': signal, 'cls': cls})
        ne = 16
        for j in range(ne):
            sub = combos[j::ne]
            out.append({'id': f'enum{j}', 'k': 5000+j, 'n': len(sub),
                        'enum': sub})
    return out


# ---------------------------------------------------------------------------
# reference models (no emg3d, no scipy)
def nak_cardinal(x, xq):
    """L with s(xq) = L @ y, s = not-a-knot cubic spline through (x, y).

    Second-derivative ('moment') form, dense solve; outside [x0, x_-1] the end
    polynomials are continued (what an interpolating cubic B-spline does).
    """
    x = np.asarray(x, float)
    xq = np.asarray(xq, float)
    n = x.size
    h = np.diff(x)
    A = np.zeros((n, n))
    B = np.zeros((n, n))
    for i in range(1, n-1):
        A[i, i-1] = h[i-1]
        A[i, i] = 2*(h[i-1] + h[i])
        A[i, i+1] = h[i]
        B[i, i-1] = 6/h[i-1]
        B[i, i] = -6/h[i-1] - 6/h[i]
        B[i, i+1] = 6/h[i]
    A[0, 0], A[0, 1], A[0, 2] = h[1], -(h[0] + h[1]), h[0]
    A[-1, -3], A[-1, -2], A[-1, -1] = h[-1], -(h[-2] + h[-1]), h[-2]
    # row scaling (pure conditioning of the dense solve)
    sc = np.abs(A).max(axis=1, keepdims=True)
    M = np.linalg.solve(A/sc, B/sc)
    idx = np.clip(np.searchsorted(x, xq, 'right') - 1, 0, n-2)
    hi = h[idx]
    a = x[idx+1] - xq
    b = xq - x[idx]
    L = ((a**3/(6*hi) - hi*a/6)[:, None]*M[idx, :] +
         (b**3/(6*hi) - hi*b/6)[:, None]*M[idx+1, :])
    rows = np.arange(xq.size)
    L[rows, idx] += a/hi
    L[rows, idx+1] += b/hi
    return L


def pchip_derivs(x, y):
    """Derivatives of the monotone piecewise cubic Hermite interpolant
    (Fritsch-Butland weighted harmonic mean, shape-preserving 3-point ends)."""
    h = np.diff(x)
    with np.errstate(all='ignore'):
        m = np.diff(y)/h
    n = x.size
    if n == 2:
        return np.array([m[0], m[0]])

    def edge(h0, h1, m0, m1):
        d = ((2*h0 + h1)*m0 - h0*m1)/(h0 + h1)
        if np.sign(d) != np.sign(m0):
            return 0.0
        if np.sign(m0) != np.sign(m1) and abs(d) > 3*abs(m0):
            return 3*m0
        return d
    d = np.zeros(n)
    with np.errstate(all='ignore'):
        for k in range(1, n-1):
            if np.sign(m[k-1])*np.sign(m[k]) > 0:
                w1 = 2*h[k] + h[k-1]
                w2 = h[k] + 2*h[k-1]
                d[k] = (w1 + w2)/(w1/m[k-1] + w2/m[k])
        d[0] = edge(h[0], h[1], m[0], m[1])
        d[-1] = edge(h[-1], h[-2], m[-1], m[-2])
    return d


def pchip_eval(x, y, xq):
    x = np.asarray(x, float)
    y = np.asarray(y, float)
    xq = np.asarray(xq, float)
    d = pchip_derivs(x, y)
    idx = np.clip(np.searchsorted(x, xq, 'right') - 1, 0, x.size-2)
    h = x[idx+1] - x[idx]
    t = (xq - x[idx])/h
    h00 = (1 + 2*t)*(1 - t)**2
    h10 = t*(1 - t)**2
    h01 = t*t*(3 - 2*t)
    h11 = t*t*(t - 1)
    return h00*y[idx] + h10*h*d[idx] + h01*y[idx+1] + h11*h*d[idx+1]


_LCACHE = {}


def ref_fill(fr, fc, fd, fmin, fmax):
    """Reference filled spectrum, tolerances and judged mask."""
    fr = np.asarray(fr, float)
    fc = np.asarray(fc, float)
    fd = np.asarray(fd, complex)
    N = fr.size
    E = fr < fmin
    In = (fr >= fmin) & (fr <= fmax)
    Z = fr > fmax
    exp = np.zeros(N, complex)
    tol = np.zeros(N)
    judged = np.ones(N, bool)
    lam = np.ones(N)
    coinc = np.zeros(N, bool)
    scale = float(np.abs(fd).max()) if fd.size else 0.0
    out = {'E': E, 'I': In, 'Z': Z, 'exp': exp, 'tol': tol, 'judged': judged,
           'lam': lam, 'coinc': coinc, 'scale': scale, 'ok': True}
    n = fc.size
    if n == 0 or fd.size != n or np.any(np.diff(fc) <= 0) or not np.all(
            np.isfinite(fd)):
        out['ok'] = False
        return out
    # in band
    kI = np.flatnonzero(In)
    if kI.size:
        j = np.clip(np.searchsorted(fc, fr[kI]), 0, n-1)
        hit = fc[j] == fr[kI]
        if n >= 4:
            key = (fc.tobytes(), fr[kI].tobytes())
            L = _LCACHE.get(key)
            if L is None:
                if len(_LCACHE) > 8:
                    _LCACHE.clear()
                L = nak_cardinal(np.log(fc), np.log(fr[kI]))
                _LCACHE[key] = L
            exp[kI] = L @ fd.real + 1j*(L @ fd.imag)
            lam[kI] = np.abs(L).sum(axis=1)
            tol[kI] = TOL_SPL*lam[kI]*scale + FLOOR
            judged[kI] = lam[kI] <= LAM_MAX
        else:
            judged[kI] = False
        kh = kI[hit]
        exp[kh] = fd[j[hit]]
        tol[kh] = TOL_PASS*scale + FLOOR
        judged[kh] = True
        coinc[kh] = True
        lam[kh] = 1.0
    # below fmin: PCHIP through the documented extra point
    kE = np.flatnonzero(E)
    if kE.size:
        x = np.r_[1e-100, fc]
        sc_e = float(np.abs(fd[:2]).max())
        re = pchip_eval(x, np.r_[fd[0].real, fd.real], fr[kE])
        im = pchip_eval(x, np.r_[0.0, fd.imag], fr[kE])
        exp[kE] = re + 1j*im
        tol[kE] = TOL_EXT*sc_e + FLOOR
        out['scale_ext'] = sc_e
    return out


# ---------------------------------------------------------------------------
# generators
def gen_time(r, tier):
    kind = gen.choice(r, ['log', 'log', 'log', 'lin', 'rand', 'single',
                          'unsorted'])
    nmax = 60 if tier == 'quick' else gen.choice(r, [60, 60, 120, 250])
    n = 1 if kind == 'single' else int(r.integers(2, nmax+1))
    t0 = r.uniform(-4, 1)
    dec = r.uniform(0.1, 4)
    if kind in ('log', 'single'):
        t = np.logspace(t0, t0+dec, n)
    elif kind == 'lin':
        t = np.linspace(10**t0, 10**(t0+min(dec, 2.5)), n)
    else:
        t = np.sort(10**r.uniform(t0, t0+dec, n))
        if kind == 'unsorted':
            t = r.permutation(t)
    return kind, np.ascontiguousarray(t, dtype=float)


def gen_transform(r, tier, signal, force=None):
    """JSON-able description of (ft, ftarg)."""
    u = r.random()
    filt = gen.choice(r, FILTERS)
    if force:
        u = {'lagged': 0.0, 'splined': 0.5, 'fftlog': 0.9}[force['mode']]
        filt = force.get('dlf') or filt
    if u < 0.4:
        d = {'ft': 'dlf', 'mode': 'lagged', 'dlf': filt,
             'pts_per_dec': gen.choice(r, [None, -1, -1.0])}
    elif u < 0.7:
        ppd = [3, 5, 10, 20] if tier == 'quick' else [3, 5, 10, 20, 40]
        d = {'ft': 'dlf', 'mode': 'splined', 'dlf': filt,
             'pts_per_dec': gen.choice(r, ppd)}
    else:
        d = {'ft': 'fftlog', 'mode': 'fftlog',
             'pts_per_dec': gen.choice(r, [None, 3, 5, 10, 20]),
             'add_dec': gen.choice(r, [None, [-float(r.uniform(0.5, 3)),
                                              float(r.uniform(0.5, 2))]]),
             'q': gen.choice(r, [None, 0.5, -0.5, float(r.uniform(-1, 1)),
                                 1.5])}
    if d['ft'] == 'dlf':
        if d['mode'] == 'lagged' and d['dlf'] == 'key_601_2009' and \
                tier == 'quick' and r.random() < 0.5 and not force:
            d['dlf'] = 'key_201_2012'
        d['as_object'] = bool(r.random() < 0.15)
        d['use_default'] = bool(d['dlf'] == 'key_201_2012' and
                                r.random() < 0.3)
        d['kind'] = (gen.choice(r, [None, None, 'sin', 'cos'])
                     if signal == 0 else gen.choice(r, [None, None, 'sin']))
        if force and d['dlf'] == 'grayver_50_2021' and d['kind'] == 'cos':
            d['kind'] = None
        # (for signal != 0 the kind is forced by the reference transform)
    return sanitize_td(d, signal)


def sanitize_td(d, signal):
    """Keep (transform, signal) inside the domain of the reference transform:
    grayver_50_2021 is a sine-only filter; FFTLog with q = +-0.5 has a pole
    for the cosine transform (empymod returns NaN)."""
    d = dict(d)
    if d['ft'] == 'dlf' and d['dlf'] == 'grayver_50_2021' and (
            signal < 0 or d.get('kind') == 'cos'):
        d['dlf'] = 'key_81_2009'
    if d['ft'] == 'fftlog' and signal < 0 and d.get('q') in (0.5, -0.5):
        d['q'] = d['q']/2
    return d


def build_ftarg(d):
    import empymod
    if d['ft'] == 'dlf':
        a = {}
        if not d.get('use_default'):
            a['dlf'] = (getattr(empymod.filters.Fourier(), d['dlf'])
                        if d.get('as_object') else d['dlf'])
        if d['pts_per_dec'] is not None:
            a['pts_per_dec'] = d['pts_per_dec']
        if d.get('kind'):
            a['kind'] = d['kind']
        return 'dlf', a
    a = {}
    for k in ('pts_per_dec', 'add_dec', 'q'):
        if d.get(k) is not None:
            a[k] = d[k]
    return 'fftlog', a


def ref_transform_args(time, signal, td):
    """Required frequencies and checked transform arguments, obtained from the
    reference (empymod) with the nominal inputs."""
    import empymod
    ft, ftarg = build_ftarg(td)
    with warnings.catch_warnings():
        warnings.simplefilter('ignore')
        with contextlib.redirect_stdout(io.StringIO()):
            _, freq, ft, ftarg = empymod.utils.check_time(
                np.array(time), signal, ft, ftarg, 0)
    return np.asarray(freq, float), ft, ftarg


def gen_band(r, fr):
    lo, hi = np.log10(fr[0]), np.log10(fr[-1])
    N = fr.size
    mmin = gen.choice(r, ['inside', 'inside', 'inside', 'exact', 'below'])
    mmax = gen.choice(r, ['inside', 'inside', 'inside', 'exact', 'above'])
    if mmin == 'inside':
        fmin = 10**r.uniform(lo, lo + 0.55*(hi-lo))
    elif mmin == 'exact':
        fmin = fr[int(r.integers(0, max(1, N//2)))]
    else:
        fmin = fr[0]*r.uniform(0.01, 0.95)
    lmin = max(np.log10(fmin), lo)
    if mmax == 'inside':
        fmax = 10**r.uniform(lmin + 0.25*(hi-lmin), hi)
    elif mmax == 'exact':
        j0 = int(np.searchsorted(fr, fmin, 'right'))
        j = int(r.integers(min(N-1, j0 + (N-j0)//3), N))
        fmax = fr[j]
    else:
        fmax = fr[-1]*r.uniform(1.05, 100)
    return float(fmin), float(fmax), mmin + '/' + mmax


def model_coarse(fr, inp, evx):
    if evx is None and inp is None:
        return fr
    if evx is None:
        return np.asarray(inp, float)
    return fr[::evx]


def gen_coarse(r, cls, fr, fmin, fmax):
    """(input_freq or None, every_x_freq or None, label)"""
    N = fr.size
    lmin, lmax = np.log10(fmin), np.log10(fmax)
    w = lmax - lmin
    if cls in ('plain',):
        return None, None, 'none'
    if cls == 'every_x':
        x = int(gen.choice(r, [1, 2, 2, 3, 3, 4, 5, 7, 10]))
        return None, x, f'x{x}'
    if cls == 'input_equal':
        return fr.copy(), None, 'equal'
    if cls == 'input_diff':
        if r.random() < 0.25:
            # random increasing subset of the required frequencies
            inb = np.flatnonzero((fr >= fmin) & (fr <= fmax))
            if inb.size >= 6:
                m = int(r.integers(4, inb.size))
                keep = np.sort(r.choice(inb, m, False))
                extra = np.flatnonzero((fr < fmin) | (fr > fmax))
                if extra.size and r.random() < 0.5:
                    keep = np.sort(np.r_[keep, r.choice(extra, 1)])
                if keep.size != N:
                    return fr[keep].copy(), None, 'subset'
        M = int(r.integers(5, 61))
        if M == N:
            M += 1
        a = lmin + r.uniform(-0.5, 0.05)*w
        b = lmax + r.uniform(-0.05, 0.5)*w
        g = np.linspace(a, b, M)
        g = g + r.uniform(-0.3, 0.3, M)*(g[1]-g[0])
        f = 10**g
        # snap some entries exactly onto required frequencies
        for j in np.flatnonzero(r.random(M) < 0.3):
            k = int(np.argmin(np.abs(np.log(fr) - np.log(f[j]))))
            lo_ok = j == 0 or fr[k] > f[j-1]*1.02
            hi_ok = j == M-1 or fr[k] < f[j+1]/1.02
            if lo_ok and hi_ok:
                f[j] = fr[k]
        return np.ascontiguousarray(f), None, 'grid'
    if cls == 'hostile_same_size':
        v = gen.choice(r, ['shift', 'shift', 'regrid'])
        if v == 'shift':
            c = gen.choice(r, [r.uniform(1.02, 1.4), 1/r.uniform(1.02, 1.4)])
            return fr*c, None, 'same-size-shift'
        a = np.log10(fr[0]) + r.uniform(-0.3, 0.3)
        b = np.log10(fr[-1]) + r.uniform(-0.3, 0.3)
        return np.logspace(a, b, N), None, 'same-size-regrid'
    raise ValueError(cls)


def gen_config(r, cls, tier, for_history=False, force=None):
    """Nominal settings of one configuration (None if none found)."""
    for _ in range(30):
        tkind, time = gen_time(r, tier)
        signal = int(gen.choice(r, [-1, 0, 1]))
        if force:
            signal = force['signal']
        td = gen_transform(r, tier, signal, force)
        if (cls in ('setters', 'signal_setter') or for_history) and \
                td.get('dlf') == 'grayver_50_2021':
            # sine-only filter: a history could pass through (signal -1,
            # this filter), which the reference transform rejects
            td = dict(td, dlf='key_81_2009')
        fr, ft_ref, ftarg_ref = ref_transform_args(time, signal, td)
        if fr.ndim != 1 or fr.size < 8:
            continue
        fmin, fmax, bkind = gen_band(r, fr)
        if not fmin < fmax:
            continue
        ccls = cls
        if cls in ('setters', 'signal_setter'):
            ccls = gen.choice(r, ['plain', 'every_x', 'input_diff'])
        inp, evx, clabel = gen_coarse(r, ccls, fr, fmin, fmax)
        coarse = model_coarse(fr, inp, evx)
        fc = coarse[(coarse >= fmin) & (coarse <= fmax)]
        nI = int(np.count_nonzero((fr >= fmin) & (fr <= fmax)))
        same_values = coarse.size == fr.size and np.array_equal(coarse, fr)
        if same_values:
            if fc.size < 1:
                continue
        elif fc.size < 4:
            continue
        if nI < 1:
            continue
        return {'cls': cls, 'tkind': tkind, 'time': time, 'signal': signal,
                'td': td, 'fmin': fmin, 'fmax': fmax, 'band': bkind,
                'input_freq': inp, 'every_x_freq': evx, 'coarse': clabel,
                'fr': fr, 'ft_ref': ft_ref, 'ftarg_ref': ftarg_ref}
    return None


def gen_spectrum(r, f, kind=None):
    kind = kind or gen.choice(r, ['normal', 'normal', 'smooth', 'smooth',
                                  'power', 'real', 'imag', 'const', 'zero'])
    n = f.size
    A = 10.0**r.uniform(-14, 2)
    if kind == 'normal':
        d = r.standard_normal(n) + 1j*r.standard_normal(n)
    elif kind == 'smooth':
        f0 = 10**r.uniform(np.log10(f[0])-1, np.log10(f[-1])+1)
        z = np.sqrt(f/f0)
        d = np.exp(-(1+1j)*z)*(1 + 0.5j*z) + r.uniform(-1, 1)
    elif kind == 'power':
        p = r.uniform(0, 2)
        d = (f/f[0])**(-p)*np.exp(2j*np.pi*r.random(n))
    elif kind == 'real':
        d = r.standard_normal(n) + 0j
    elif kind == 'imag':
        d = 1j*r.standard_normal(n)
    elif kind == 'const':
        d = np.full(n, complex(r.standard_normal(), r.standard_normal()))
    else:
        d = np.zeros(n, complex)
    return kind, np.ascontiguousarray(A*d, dtype=complex)


# ---------------------------------------------------------------------------
# monitor
class Mon:
    rec = None
    case = None
    cls = None
    tem_log = None
    interp_log = None
    orig_tem = None


def _viol(key, msg, extra=None):
    c = dict(Mon.case or {})
    if extra:
        c['witness'] = extra
    Mon.rec.violation(key, msg, c)


def check_invariant(F, where):
    """State invariant: partition + computed frequencies in the band."""
    rec = Mon.rec
    fmin, fmax = F.fmin, F.fmax
    if not (fmin < fmax):
        rec.event('invariant_skipped_empty_band')
        return
    fr = np.asarray(F.freq_required)
    E = np.asarray(F.ifreq_extrapolate)
    In = np.asarray(F.ifreq_interpolate)
    rec.event('invariant_checks')
    bad = []
    if E.shape != fr.shape or In.shape != fr.shape or E.dtype != bool or \
            In.dtype != bool:
        bad.append('index sets are not boolean masks of freq_required')
    else:
        if np.any(E & In):
            bad.append(f'{int(np.count_nonzero(E & In))} frequencies are in '
                       'both the extrapolated and the interpolated group')
        if not np.array_equal(E, fr < fmin):
            bad.append('extrapolated group != {f < fmin}')
        if not np.array_equal(In, (fr >= fmin) & (fr <= fmax)):
            bad.append('interpolated group != {fmin <= f <= fmax}')
        rest = ~(E | In)
        if not np.all(fr[rest] > fmax):
            bad.append(f'{int(np.count_nonzero(~(fr[rest] > fmax)))} '
                       'frequencies not above fmax are in neither group')
        if not (np.array_equal(np.asarray(F.freq_extrapolate), fr[fr < fmin])
                and np.array_equal(np.asarray(F.freq_interpolate),
                                   fr[(fr >= fmin) & (fr <= fmax)])):
            bad.append('freq_extrapolate / freq_interpolate are not the '
                       'members of their groups')
    if bad:
        _viol('C20:partition-not-disjoint-cover', f'after {where}: ' +
              '; '.join(bad), {'fmin': fmin, 'fmax': fmax})
    fc = np.asarray(F.freq_compute)
    rec.event('computed_band_checks')
    if not np.all((fc >= fmin) & (fc <= fmax)):
        _viol('C20:computed-outside-band', f'after {where}: freq_compute has '
              f'{int(np.count_nonzero(~((fc >= fmin) & (fc <= fmax))))} '
              f'entries outside [{fmin}, {fmax}]', {'freq_compute': fc})
    if not np.all(np.isin(fc, np.asarray(F.freq_coarse))):
        _viol('C20:computed-not-coarse', f'after {where}: freq_compute is not '
              'a subset of freq_coarse', {'freq_compute': fc})


def post_interpolate(F, fd, out):
    """Post-condition of interpolate(); returns an observation record."""
    rec = Mon.rec
    fr = np.asarray(F.freq_required, float)
    fc = np.asarray(F.freq_compute, float)
    fmin, fmax = F.fmin, F.fmax
    ob = {'flagged': False, 'out': out, 'ref': None, 'fd': fd}
    out = np.asarray(out)
    if out.shape != fr.shape:
        _viol('C20:filled-spectrum-wrong-size', f'interpolate returned shape '
              f'{out.shape} for {fr.shape} required frequencies')
        ob['flagged'] = True
        return ob
    ref = ref_fill(fr, fc, fd, fmin, fmax)
    ob['ref'] = ref
    if not ref['ok']:
        rec.event('interpolate_unjudged')
        return ob
    rec.event('interpolate_post')
    if not np.all(np.isfinite(out)):
        _viol('C20:filled-spectrum-nonfinite', 'interpolate returned non-finite '
              'values', {'n_nonfinite': int(np.count_nonzero(
                  ~np.isfinite(out)))})
        ob['flagged'] = True
        return ob
    scale = ref['scale']
    err = np.abs(out - ref['exp'])
    # (a) above fmax: exactly zero
    Z = ref['Z']
    rec.event('above_points', int(Z.sum()))
    if np.count_nonzero(out[Z]):
        ob['flagged'] = True
        _viol('C20:above-fmax-not-zero', f'{int(np.count_nonzero(out[Z]))} of '
              f'{int(Z.sum())} values above fmax are non-zero (max '
              f'{np.abs(out[Z]).max():.3e}, data scale {scale:.3e})')
    # (b) in band
    In = ref['I']
    jd = ref['judged']
    co = ref['coinc']
    hostile_copy = (Mon.cls == 'hostile_same_size' and
                    int(In.sum()) == fd.size and
                    np.array_equal(out[In], fd) and
                    not np.array_equal(fc, fr[In]))
    kp = In & co
    rec.event('passthrough_points', int(kp.sum()))
    if kp.any():
        rel = float((err[kp]).max()/max(scale, 1e-300))
        rec.margin('passthrough_err_over_tol', float(
            (err[kp]/ref['tol'][kp]).max()))
        if not np.all(err[kp] <= ref['tol'][kp]):
            ob['flagged'] = True
            k = int(np.flatnonzero(kp)[np.argmax(err[kp])])
            _viol(K_SAME if hostile_copy else 'C20:passthrough-changed',
                  f'data at a computed frequency that coincides with a '
                  f'required one is not passed through: f={fr[k]:.6e} got '
                  f'{out[k]} supplied {ref["exp"][k]} (rel. dev {rel:.3e})')
    ks = In & ~co & jd
    rec.event('inband_points', int(ks.sum()))
    rec.event('inband_points_not_judged', int((In & ~co & ~jd).sum()))
    if ks.any():
        ratio = err[ks]/ref['tol'][ks]
        rec.margin('inband_err_over_tol', float(ratio.max()))
        if not np.all(err[ks] <= ref['tol'][ks]):
            ob['flagged'] = True
            k = int(np.flatnonzero(ks)[np.argmax(ratio)])
            msg = (f'in-band value is not the cubic-spline (log f) '
                   f'interpolant of the computed data: f={fr[k]:.6e} got '
                   f'{out[k]} expected {ref["exp"][k]} (|diff| '
                   f'{err[k]:.3e}, tol {ref["tol"][k]:.3e}, data scale '
                   f'{scale:.3e}; {int((ratio > 1).sum())} of '
                   f'{int(ks.sum())} points)')
            if hostile_copy:
                _viol(K_SAME, 'input_freq has the size of freq_required but '
                      'other values: fdata copied onto the in-band required '
                      'frequencies as-is; ' + msg)
            else:
                _viol('C20:inband-not-spline-interpolant', msg)
    # (c) below fmin
    E = ref['E']
    rec.event('extrap_points', int(E.sum()))
    if E.any():
        sce = ref['scale_ext']
        d0 = fd[0]
        o = out[E]
        fe = fr[E]
        order = np.argsort(fe, kind='stable')
        o, fe = o[order], fe[order]
        dre = np.abs(o.real - d0.real)
        rec.margin('extrap_real_dev_rel', float(dre.max()/max(sce, 1e-300)))
        if not np.all(dre <= TOL_RE*sce + FLOOR):
            ob['flagged'] = True
            _viol('C20:extrapolated-real-not-lowest-value', f'real part below '
                  f'fmin leaves Re fdata[0]={d0.real}: max dev '
                  f'{dre.max():.3e} (data scale {sce:.3e})')
        im = o.imag
        a0 = abs(d0.imag)
        slack = 1e-12*sce + FLOOR
        t = fe/fc[0]
        envelope = a0*(1 - (1 - t)**3)
        badm = []
        if im.size > 1 and not np.all(np.diff(np.abs(im)) >= -slack):
            badm.append('|imag| not monotone in f')
        if not np.all(im*np.sign(d0.imag) >= -slack):
            badm.append('imag changes sign')
        if not np.all(np.abs(im) <= envelope*(1 + 1e-9) + slack):
            badm.append('|imag| above the monotone-Hermite envelope '
                        '|Im d0|(1-(1-f/f0)^3) (does not shrink to zero)')
        rec.event('extrap_shape_checks')
        if badm:
            ob['flagged'] = True
            k = int(np.argmax(np.abs(im) - envelope))
            _viol('C20:extrapolated-imag-not-shrinking-to-zero',
                  '; '.join(badm) + f': Im fdata[0]={d0.imag}, at f='
                  f'{fe[k]:.4e} (f/f0={t[k]:.3e}) imag={im[k]}')
        ratio = err[E]/ref['tol'][E]
        rec.margin('extrap_err_over_tol', float(ratio.max()))
        if not np.all(err[E] <= ref['tol'][E]):
            ob['flagged'] = True
            k = int(np.flatnonzero(E)[np.argmax(ratio)])
            _viol('C20:extrapolation-not-documented-pchip', f'value below '
                  f'fmin differs from PCHIP through (1e-100 Hz, Re d0+0j) and '
                  f'the computed data: f={fr[k]:.6e} got {out[k]} expected '
                  f'{ref["exp"][k]} (tol {ref["tol"][k]:.3e})')
    return ob


def post_freq2time(F, fd, off, res, tem_log, interp_log):
    """Hand-over to the reference transform as seen at empymod.model.tem."""
    rec = Mon.rec
    if len(tem_log) != 1:
        rec.event('freq2time_tem_not_observed')
        return
    rec.event('tem_handover_checks')
    t = tem_log[0]
    fr = np.asarray(F.freq_required)
    bad = []
    a = t['args']
    try:
        fEM, toff, freq, time, signal, ft, ftarg = (
            a.get(k) for k in ('fEM', 'off', 'freq', 'time', 'signal', 'ft',
                               'ftarg'))
        if not np.array_equal(np.asarray(freq), fr):
            bad.append('freq handed over != freq_required')
        if not np.array_equal(np.asarray(time), np.asarray(F.time)):
            bad.append('time handed over != Fourier.time')
        if signal != F.signal:
            bad.append(f'signal handed over {signal} != {F.signal}')
        if ft != F.ft:
            bad.append(f'ft handed over {ft!r} != {F.ft!r}')
        if ftarg is not F.ftarg and not ftarg_equal(ftarg, F.ftarg):
            bad.append('ftarg handed over != Fourier.ftarg')
        fEM = np.asarray(fEM)
        if fEM.shape != (fr.size, 1):
            bad.append(f'spectrum handed over has shape {fEM.shape}')
        elif interp_log and not interp_log[-1]['flagged'] and \
                interp_log[-1]['ref'] is not None and \
                interp_log[-1]['ref']['ok']:
            ref = interp_log[-1]['ref']
            e = np.abs(fEM[:, 0] - ref['exp'])
            jd = ref['judged']
            if not np.all(np.isfinite(fEM)) or not np.all(
                    e[jd] <= ref['tol'][jd]):
                bad.append('spectrum handed over is not the filled spectrum '
                           f'(max dev {np.nanmax(e[jd]):.3e})')
        if np.size(toff) != 1:
            bad.append('more than one offset handed over')
        if not np.array_equal(np.ravel(res), np.ravel(t['ret'][0]),
                              equal_nan=True):
            bad.append('freq2time does not return what the transform returned')
    except Exception as e:  # noqa - unexpected call signature
        rec.event('freq2time_tem_signature_unknown')
        _ = e
        return
    if bad:
        _viol('C20:transform-handover', 'freq2time -> empymod.model.tem: ' +
              '; '.join(bad))


def ftarg_equal(a, b):
    if not isinstance(a, dict) or not isinstance(b, dict) or \
            set(a) != set(b):
        return False
    for k in a:
        x, y = a[k], b[k]
        if hasattr(x, 'base') or hasattr(y, 'base'):
            if getattr(x, 'name', 1) != getattr(y, 'name', 2):
                return False
        elif callable(x) or callable(y):
            if x is not y:
                return False
        elif not np.array_equal(np.asarray(x), np.asarray(y)):
            return False
    return True


def install_monitor():
    import inspect
    import emg3d
    import empymod
    F = emg3d.time.Fourier
    if F.__dict__.get('_vf_c20'):
        return
    assert emg3d.Fourier is F
    orig_init = F.__init__

    def __init__(self, *a, **k):
        orig_init(self, *a, **k)
        check_invariant(self, '__init__')
    F.__init__ = __init__

    def wrap_prop(name):
        p = F.__dict__[name]

        def fset(self, v):
            p.fset(self, v)
            check_invariant(self, f'setter {name}')
        setattr(F, name, property(p.fget, fset, p.fdel, p.__doc__))
    for name in ('time', 'fmin', 'fmax', 'signal', 'input_freq',
                 'every_x_freq'):
        wrap_prop(name)
    orig_fa = F.fourier_arguments

    def fourier_arguments(self, ft, ftarg):
        orig_fa(self, ft, ftarg)
        check_invariant(self, 'fourier_arguments')
    F.fourier_arguments = fourier_arguments
    orig_interp = F.interpolate

    def interpolate(self, fdata):
        fd = np.array(fdata, dtype=complex, copy=True)
        out = orig_interp(self, fdata)
        ob = post_interpolate(self, fd, out)
        if Mon.interp_log is not None:
            Mon.interp_log.append(ob)
        return out
    F.interpolate = interpolate
    orig_f2t = F.freq2time

    def freq2time(self, fdata, off):
        fd = np.array(fdata, dtype=complex, copy=True)
        Mon.tem_log = []
        n0 = len(Mon.interp_log) if Mon.interp_log is not None else 0
        try:
            res = orig_f2t(self, fdata, off)
            tl = Mon.tem_log
        finally:
            Mon.tem_log = None
        il = Mon.interp_log[n0:] if Mon.interp_log is not None else []
        post_freq2time(self, fd, off, res, tl, il)
        return res
    F.freq2time = freq2time

    orig_tem = empymod.model.tem
    Mon.orig_tem = orig_tem
    sig = inspect.signature(orig_tem)

    def tem(*a, **k):
        ret = orig_tem(*a, **k)
        if Mon.tem_log is not None:
            try:
                ba = sig.bind(*a, **k)
                args = {kk: (np.array(v, copy=True)
                             if isinstance(v, np.ndarray) else v)
                        for kk, v in ba.arguments.items()}
            except TypeError:
                args = {}
            Mon.tem_log.append({'args': args, 'ret': ret})
        return ret
    empymod.model.tem = tem
    F._vf_c20 = True


# ---------------------------------------------------------------------------
# reference transform: operator extraction for the error bound
def transform_operator(freq, time, signal, ft, ftarg):
    N = freq.size
    E = np.eye(N, dtype=complex)
    off = np.arange(N, dtype=float)
    Tre, _ = Mon.orig_tem(E, off, freq, time, signal, ft, ftarg)
    Tim, _ = Mon.orig_tem(1j*E, off, freq, time, signal, ft, ftarg)
    return Tre, Tim


def ref_time(S, freq, time, signal, ft, ftarg):
    t, _ = Mon.orig_tem(np.asarray(S, complex)[:, None], np.array(1.0), freq,
                        time, signal, ft, ftarg)
    return t[:, 0]


# ---------------------------------------------------------------------------
# driver
def quiet_call(fn, *a, **k):
    buf = io.StringIO()
    with warnings.catch_warnings():
        warnings.simplefilter('ignore')
        with contextlib.redirect_stdout(buf):
            return fn(*a, **k)


def describe(cfg):
    d = {k: cfg[k] for k in ('cls', 'tkind', 'signal', 'td', 'fmin', 'fmax',
                             'band', 'every_x_freq', 'coarse')}
    d['time'] = cfg['time']
    d['input_freq'] = cfg['input_freq']
    d['n_required'] = int(cfg['fr'].size)
    return d


def construct(cfg, verb):
    import emg3d
    ft, ftarg = build_ftarg(cfg['td'])
    kw = {'verb': verb}
    if cfg['input_freq'] is not None:
        kw['input_freq'] = cfg['input_freq'].copy()
    if cfg['every_x_freq'] is not None:
        kw['every_x_freq'] = cfg['every_x_freq']
    return quiet_call(emg3d.Fourier, cfg['time'].copy(), cfg['fmin'],
                      cfg['fmax'], cfg['signal'], ft, ftarg, **kw)


def reach_by_setters(r, start, cfg, steps):
    """Construct ``start`` and move it to ``cfg`` with the public setters."""
    F = construct(start, int(gen.choice(r, [0, 1, 2])))
    todo = ['time', 'band', 'transform', 'coarse']
    order = [todo[j] for j in r.permutation(len(todo))]
    if cfg['signal'] != start['signal']:
        # the signal setter is followed by an update of the transform
        # arguments (see ASSUMPTIONS); its stand-alone use is a class of its own
        order.insert(order.index('transform'), 'signal')
    elif r.random() < 0.5:
        order.insert(int(r.integers(0, len(order)+1)), 'signal')
    for op in order:
        steps.append(op)
        if op == 'time':
            F.time = cfg['time'].copy()
        elif op == 'signal':
            F.signal = cfg['signal']
        elif op == 'transform':
            ft, ftarg = build_ftarg(cfg['td'])
            quiet_call(F.fourier_arguments, ft, ftarg)
        elif op == 'band':
            if cfg['fmin'] >= F.fmax:
                F.fmax = cfg['fmax']
                F.fmin = cfg['fmin']
            else:
                F.fmin = cfg['fmin']
                F.fmax = cfg['fmax']
        else:
            with warnings.catch_warnings():
                warnings.simplefilter('ignore')
                if cfg['every_x_freq'] is not None:
                    F.every_x_freq = cfg['every_x_freq']
                elif cfg['input_freq'] is not None:
                    F.input_freq = cfg['input_freq'].copy()
                else:
                    # neither: reset whichever is set
                    F.input_freq = None
                    F.every_x_freq = None
    return F


def check_attributes(rec, F, cfg, case):
    """Object state against the model of the nominal settings."""
    rec.event('attr_checks')
    fr = cfg['fr']
    got = np.asarray(F.freq_required)
    if got.shape != fr.shape or not np.all(
            np.abs(got - fr) <= 1e-13*np.abs(fr)):
        rec.violation('C20:required-frequencies-stale',
                      f'freq_required ({got.shape}) is not what the reference '
                      f'transform requires for the current time/signal/ft/'
                      f'ftarg ({fr.shape})', case)
        return False
    ok = True
    gc = np.asarray(F.freq_coarse)
    evx = cfg['every_x_freq']
    if evx is not None and cfg['input_freq'] is None:
        # 'every n-th required frequency': the starting index is not promised
        cands = [fr[s0::evx] for s0 in range(evx)]
    else:
        cands = [model_coarse(fr, cfg['input_freq'], evx)]
    if not any(gc.shape == c.shape and np.all(
            np.abs(gc - c) <= 1e-13*np.abs(c)) for c in cands):
        rec.violation('C20:coarse-frequencies-wrong', 'freq_coarse does not '
                      'follow from input_freq / every_x_freq', case)
        ok = False
    if F.fmin != cfg['fmin'] or F.fmax != cfg['fmax'] or \
            F.signal != cfg['signal']:
        rec.violation('C20:settings-not-stored', 'fmin/fmax/signal differ '
                      'from what was set', case)
        ok = False
    return ok


def run_case(rec, seed, k, i, tier, force=None):
    install_monitor()
    cls = force['cls'] if force else PATTERN[i % len(PATTERN)]
    r = gen.rng(seed, 'C20', k, i)
    cfg = gen_config(r, cls, tier, force=force)
    if cfg is None:
        rec.event('skipped_no_valid_config')
        return
    case = {'seed': seed, 'k': k, 'i': i, **describe(cfg)}
    if force:
        rec.extra_set('enumerated_combinations', [
            f"{cfg['td']['mode']}/{cfg['td'].get('dlf') or '-'}/"
            f"{cfg['signal']}/{cls}"])
    Mon.rec, Mon.case, Mon.cls = rec, case, cls
    Mon.interp_log = []
    fr = cfg['fr']
    rec.event('configs')

    # ---- reach the configuration
    steps = []
    try:
        if cls == 'setters':
            start = None
            for _ in range(5):
                start = gen_config(r, gen.choice(
                    r, ['plain', 'every_x', 'input_diff']), tier, True)
                if start is not None:
                    break
            if start is None:
                rec.event('skipped_no_valid_config')
                return
            case['start'] = describe(start)
            F = reach_by_setters(r, start, cfg, steps)
            case['steps'] = steps
        elif cls == 'signal_setter':
            old = int(gen.choice(r, [s for s in (-1, 0, 1)
                                     if s != cfg['signal']]))
            if cfg['signal'] == 0:
                # keep the class unambiguous: the new signal forces the kind
                cfg['signal'], old = old, 0
                cfg['td'] = sanitize_td(dict(cfg['td'], kind=None),
                                        cfg['signal'])
                cfg['fr'], cfg['ft_ref'], cfg['ftarg_ref'] = \
                    ref_transform_args(cfg['time'], cfg['signal'], cfg['td'])
                fr = cfg['fr']
                case.update(describe(cfg))
            td2 = sanitize_td(cfg['td'], old)
            if td2 != cfg['td']:
                cfg['td'] = td2
                cfg['fr'], cfg['ft_ref'], cfg['ftarg_ref'] = \
                    ref_transform_args(cfg['time'], cfg['signal'], cfg['td'])
                fr = cfg['fr']
                case.update(describe(cfg))
            start = dict(cfg, signal=old)
            case['signal_before_setter'] = old
            F = construct(start, 0)
            # Half of the histories pass through the third signal value first
            # (e.g. -1 -> 0 -> +1): the transform arguments must follow every
            # assignment, not only those that change the sign group.
            mid = [s_ for s_ in (-1, 0, 1) if s_ not in (old, cfg['signal'])]
            if mid and r.random() < 0.5 and \
                    sanitize_td(cfg['td'], mid[0]) == cfg['td']:
                case['signal_via'] = mid[0]
                F.signal = mid[0]
                rec.event('signal_setter_two_step_histories')
            F.signal = cfg['signal']
        else:
            F = construct(cfg, int(gen.choice(r, [0, 0, 1, 3])))
    except Exception as e:  # noqa
        import traceback
        rec.inconclusive(f'Fourier construction/setter raised '
                         f'{type(e).__name__}: {e}; ' +
                         traceback.format_exc()[-400:], case)
        return

    if not check_attributes(rec, F, cfg, case):
        return
    fc = np.asarray(F.freq_compute, float)
    fmin, fmax = cfg['fmin'], cfg['fmax']
    nE = int(np.count_nonzero(fr < fmin))
    nZ = int(np.count_nonzero(fr > fmax))
    nI = fr.size - nE - nZ

    # ---- reference transform settings (nominal) and its linear operator
    ft_ref, ftarg_ref = cfg['ft_ref'], cfg['ftarg_ref']
    time = cfg['time']
    try:
        with np.errstate(all='ignore'):
            Tre, Tim = transform_operator(fr, time, cfg['signal'], ft_ref,
                                          ftarg_ref)
    except Exception as e:  # noqa
        rec.inconclusive(f'reference transform failed: {e}', case)
        return
    ref_defined = bool(np.all(np.isfinite(Tre)) and np.all(np.isfinite(Tim)))
    if not ref_defined:
        # the reference transform itself is undefined here (NaN for any input)
        rec.event('reference_transform_undefined')
    Tabs = np.abs(Tre) + np.abs(Tim)
    stale = None
    if cls == 'signal_setter':
        key = 'kind' if ft_ref == 'dlf' else 'mu'
        stale = F.ftarg.get(key) != ftarg_ref.get(key)
        case['transform_arg'] = {'name': key, 'Fourier': F.ftarg.get(key),
                                 'reference': ftarg_ref.get(key)}

    nspec = 2 if tier == 'quick' else 3
    for s in range(nspec):
        skind, fd = gen_spectrum(r, fc)
        case['spectrum'] = {'kind': skind, 'fdata': fd, 'index': s}
        off = float(10**r.uniform(1, 4))
        rec.case()
        predicted_mismatch = (cls == 'hostile_same_size' and fc.size != nI)
        # -- interpolate (judged by the monitor)
        n0 = len(Mon.interp_log)
        try:
            out = F.interpolate(fd.copy())
        except Exception as e:  # noqa
            if predicted_mismatch and isinstance(e, ValueError):
                rec.event('hostile_same_size_raised')
                rec.violation(K_SAME, 'input_freq has the size of '
                              'freq_required but other values: interpolate() '
                              f'tries to copy {fc.size} computed values onto '
                              f'{nI} in-band required frequencies: '
                              f'{type(e).__name__}: {e}', case)
                rec.distinct((cls, 'raised'))
            else:
                rec.inconclusive(f'interpolate raised {type(e).__name__}: '
                                 f'{e}', case)
            continue
        ob = Mon.interp_log[-1] if len(Mon.interp_log) > n0 else None
        if ob is None:
            rec.inconclusive('interpolate monitor not reached', case)
            continue
        # -- freq2time
        n0 = len(Mon.interp_log)
        try:
            td = F.freq2time(fd.copy(), off)
        except Exception as e:  # noqa
            rec.inconclusive(f'freq2time raised {type(e).__name__}: {e}',
                             case)
            continue
        ob2 = Mon.interp_log[-1] if len(Mon.interp_log) > n0 else None
        ref = ob['ref']
        if ref is None or not ref['ok']:
            rec.inconclusive('reference fill not available', case)
            continue
        flagged = ob['flagged'] or (ob2 is not None and ob2['flagged'])
        # spectrum the reference transform is applied to: the reference fill;
        # if the fill itself was already reported, what interpolate returned
        # (one defect, one key)
        if flagged:
            S = np.asarray(ob['out'], complex)
            tolS = np.zeros(fr.size)
            rec.event('time_checks_on_reported_fill')
        else:
            jd = ref['judged']
            S = np.where(jd, ref['exp'], np.asarray(out, complex))
            tolS = np.where(jd, ref['tol'], 0.0)
        td = np.asarray(td)
        if not ref_defined:
            continue
        with np.errstate(all='ignore'):
            want = ref_time(S, fr, time, cfg['signal'], ft_ref, ftarg_ref)
        if not np.all(np.isfinite(want)):
            rec.event('reference_transform_undefined')
            continue
        rec.event('freq2time_checks')
        if td.size != time.size or not np.all(np.isfinite(td)) or \
                np.iscomplexobj(td):
            rec.violation(K_SIG if (cls == 'signal_setter' and stale) else
                          'C20:time-result-malformed', f'freq2time returned '
                          f'shape {td.shape} dtype {td.dtype} (finite: '
                          f'{bool(np.all(np.isfinite(td)))}) for '
                          f'{time.size} times', case)
            continue
        mag = np.abs(Tre) @ np.abs(S.real) + np.abs(Tim) @ np.abs(S.imag)
        # rounding of the reference transform itself: the digital filters
        # cancel heavily (key_601 with 3 points per decade: 2.4e-11*mag seen
        # on the pinned tree), allowance TOL_RND = 1e-8 (x400)
        rnd = TOL_RND*mag + 1e-2*TOL_RND*float(mag.max()) + 1e-290
        bound = Tabs @ tolS + rnd
        # framework self-check: the reference transform is linear
        lin = np.abs(Tre @ S.real + Tim @ S.imag - want)
        rec.margin('selfcheck_linearity_over_bound', float((lin/rnd).max()))
        if not np.all(lin <= rnd):
            rec.inconclusive('framework self-check: reference transform not '
                             'reproduced by its extracted linear operator', {
                                 'k': k, 'i': i})
            continue
        err = np.abs(td.ravel() - want)
        rec.event('time_points_compared', int(time.size))
        rec.margin('time_err_over_bound', float((err/bound).max()))
        if not np.all(err <= bound):
            j = int(np.argmax(err/bound))
            key = 'C20:time-result-not-reference-transform'
            if cls == 'signal_setter' and stale:
                key = K_SIG
            rec.violation(key, f'freq2time differs from the reference '
                          f'transform (signal={cfg["signal"]}, {ft_ref}) of '
                          f'the filled spectrum: t={time[j]:.4e} got '
                          f'{td.ravel()[j]:.6e} expected {want[j]:.6e} (bound '
                          f'{bound[j]:.2e}); max rel. dev over the time '
                          f'vector {err.max()/max(np.abs(want).max(), 1e-300):.3e}'
                          + (f'; Fourier.ftarg[{case["transform_arg"]["name"]!r}]'
                             f'={case["transform_arg"]["Fourier"]!r} but '
                             f'signal={cfg["signal"]} requires '
                             f'{case["transform_arg"]["reference"]!r}'
                             if key == K_SIG else ''), case)
        td_ = cfg['td']
        rec.distinct((cls, td_['mode'], td_.get('dlf', '-'), cfg['signal'],
                      nE > 0, nZ > 0, skind))
        rec.extra_set('coarse_kinds', [cfg['coarse']])
        rec.extra_set('band_kinds', [cfg['band']])
        if s == 0 and i < 3:
            rec.sample({'cls': cls, 'time_kind': cfg['tkind'],
                        'n_time': int(time.size), 'signal': cfg['signal'],
                        'transform': td_, 'fmin': fmin, 'fmax': fmax,
                        'n_required': int(fr.size), 'n_extrapolated': nE,
                        'n_inband': nI, 'n_above': nZ,
                        'n_computed': int(fc.size), 'coarse': cfg['coarse'],
                        'spectrum': skind, 'steps': steps})

    # ---- guard of the reference models against scipy (framework self-check)
    if i % 4 == 0:
        selfcheck_refs(rec, r, fc, fr, fmin, fmax, k, i)


def selfcheck_refs(rec, r, fc, fr, fmin, fmax, k, i):
    import scipy.interpolate as si
    _, fd = gen_spectrum(r, fc, 'normal')
    ref = ref_fill(fr, fc, fd, fmin, fmax)
    if not ref['ok']:
        return
    rec.event('selfcheck_refs')
    In = ref['I'] & ref['judged'] & ~ref['coinc']
    if fc.size >= 4 and In.any():
        cs = si.CubicSpline(np.log(fc), np.c_[fd.real, fd.imag],
                            bc_type='not-a-knot', extrapolate=True)
        v = cs(np.log(fr[In]))
        d = np.abs(v[:, 0] + 1j*v[:, 1] - ref['exp'][In])
        rec.margin('selfcheck_spline_over_tol', float(
            (d/ref['tol'][In]).max()))
        if not np.all(d <= ref['tol'][In]):
            rec.inconclusive('framework self-check: own not-a-knot spline != '
                             f'scipy CubicSpline ({d.max():.3e})',
                             {'k': k, 'i': i})
    E = ref['E']
    if E.any():
        x = np.r_[1e-100, fc]
        v = (si.PchipInterpolator(x, np.r_[fd[0].real, fd.real])(fr[E]) +
             1j*si.PchipInterpolator(x, np.r_[0.0, fd.imag])(fr[E]))
        d = np.abs(v - ref['exp'][E])
        rec.margin('selfcheck_pchip_over_tol', float(
            (d/ref['tol'][E]).max()))
        if not np.all(d <= ref['tol'][E]):
            rec.inconclusive('framework self-check: own PCHIP != scipy '
                             f'PchipInterpolator ({d.max():.3e})',
                             {'k': k, 'i': i})


def run_batch(batch):
    rec = common.Rec(max_viol=16)
    only = batch.get('only')
    for i in range(batch['n']):
        if only is not None and i != only:
            continue
        try:
            run_case(rec, batch['seed'], batch['k'], i, batch['tier'],
                     batch['enum'][i] if batch.get('enum') else None)
        except Exception:  # noqa - harness error => inconclusive
            import traceback
            rec.inconclusive('harness error: ' + traceback.format_exc()[-900:],
                             {'k': batch['k'], 'i': i})
    return rec.result()


def finalize(merged, tier):
    q = tier == 'quick'
    common.require_events(merged, {
        'configs': 600 if q else 4500,
        'invariant_checks': 1000 if q else 8000,
        'computed_band_checks': 1000 if q else 8000,
        'attr_checks': 600 if q else 4500,
        'interpolate_post': 2000 if q else 25000,
        'inband_points': 20000, 'passthrough_points': 20000,
        'extrap_points': 20000, 'above_points': 20000,
        'extrap_shape_checks': 1000,
        'freq2time_checks': 1000 if q else 12000,
        'tem_handover_checks': 1000 if q else 12000,
        'time_points_compared': 10000,
        'selfcheck_refs': 100})
    if not q:
        merged['extra']['enumeration'] = (
            'transform mode x filter x signal x input class: complete cross '
            'product (sine-only filter without signal -1 / histories), one '
            'seeded configuration each; everything else sampled')
