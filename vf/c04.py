"""C04 - restriction = prolongation^T; coarse model conserves volumes.

Driver: full edge bases through solver.restriction / solver.prolongation for
all seven coarsening patterns.  In situ: wrappers on the same two functions
during live solves test the adjoint identity with random probes on every grid
the solver actually visits, plus the conservation sums.
"""
import numpy as np
from vf import common, gen

PROP = 'C04'
NEEDS_JIT = True
TIMEOUT = {'quick': 900, 'thorough': 3000}
RULE = ("(pattern 0..6, fine grid) pairs: coarsened directions from "
        "{4,6,8,10,12}, others from 2..7, random stretching (ratio up to 3 per "
        "cell), real and complex, four anisotropy cases; per pair the complete "
        "fine residual basis goes through restriction() and the complete "
        "coarse field basis through prolongation(); in situ: adjoint probes "
        "on every level of live solves; distinct = (pattern, shape, dtype, "
        "case) with complete bases, plus (level shape, pattern) seen in situ")
ASSUMPTIONS = [
    "linear maps: basis enumeration is complete per sampled grid",
    "1-D linear interpolation weights recomputed from node coordinates are "
    "the definition of 'bilinear across, constant along'",
]
CO = {0: (1, 1, 1), 1: (0, 1, 1), 2: (1, 0, 1), 3: (1, 1, 0),
      4: (1, 0, 0), 5: (0, 1, 0), 6: (0, 0, 1)}   # which directions coarsen


def plan(tier, seed):
    if tier == 'quick':
        b = [{'id': f'd{k}', 'mode': 'driver', 'k': k, 'n': 7} for k in range(44)]
        b += [{'id': f's{k}', 'mode': 'insitu', 'k': k, 'n': 8}
              for k in range(12)]
        return b
    b = [{'id': f'd{k}', 'mode': 'driver', 'k': k, 'n': 28} for k in range(180)]
    b += [{'id': f's{k}', 'mode': 'insitu', 'k': k, 'n': 30} for k in range(48)]
    b += [{'id': f'bc{k}', 'mode': 'driver', 'k': 5000+k, 'n': 7,
           'boundscheck': True} for k in range(16)]
    b += [{'id': f'bcs{k}', 'mode': 'insitu', 'k': 6000+k, 'n': 6,
           'boundscheck': True} for k in range(8)]
    return b


# ---------------------------------------------------------------- helpers
def edge_masks(shape):
    nx, ny, nz = shape
    mx = np.zeros((nx, ny+1, nz+1), bool)
    mx[:, 1:-1, 1:-1] = True
    my = np.zeros((nx+1, ny, nz+1), bool)
    my[1:-1, :, 1:-1] = True
    mz = np.zeros((nx+1, ny+1, nz), bool)
    mz[1:-1, 1:-1, :] = True
    return np.r_[mx.ravel('F'), my.ravel('F'), mz.ravel('F')]


def lin_nodes(cn, fn):
    """(len(fn) x len(cn)) linear interpolation matrix coarse->fine nodes."""
    W = np.zeros((len(fn), len(cn)))
    for i, x in enumerate(fn):
        j = int(np.searchsorted(cn, x, side='right') - 1)
        j = min(max(j, 0), len(cn)-2)
        t = (x - cn[j])/(cn[j+1] - cn[j])
        W[i, j] += 1 - t
        W[i, j+1] += t
    return W


def const_cells(nf, coarsen):
    """(nf x nc) piecewise-constant injection coarse cells -> fine cells."""
    if not coarsen:
        return np.eye(nf)
    W = np.zeros((nf, nf//2))
    for i in range(nf):
        W[i, i//2] = 1.0
    return W


def p_reference(fnodes, cnodes, co):
    """Reference prolongation (fine edges x coarse edges), incl. boundaries."""
    import scipy.sparse as sp
    L = [lin_nodes(cnodes[d], fnodes[d]) for d in range(3)]
    C = [const_cells(len(fnodes[d])-1, co[d]) for d in range(3)]

    def k3(az, ay, ax):
        return sp.kron(az, sp.kron(ay, ax))
    return sp.block_diag([k3(L[2], L[1], C[0]), k3(L[2], C[1], L[0]),
                          k3(C[2], L[1], L[0])]).toarray()


def children_sum(a, co):
    a = np.asarray(a)
    for d in range(3):
        if co[d]:
            sl0 = [slice(None)]*3
            sl1 = [slice(None)]*3
            sl0[d] = slice(0, None, 2)
            sl1[d] = slice(1, None, 2)
            a = a[tuple(sl0)] + a[tuple(sl1)]
    return a


# ---------------------------------------------------------------- driver
def gen_pair(r, force=None):
    sc = int(r.integers(0, 7))
    co = CO[sc]
    shape = tuple(int(gen.choice(r, [4, 6, 8, 10, 12] if co[d] else
                                 [2, 3, 4, 5, 6, 7])) for d in range(3))
    if force is not None:          # same pattern and shapes, other widths
        sc, shape = force
        co = CO[sc]
    # keep the number of fine edges moderate
    while 3*np.prod([s+1 for s in shape]) > 2600:
        d = int(np.argmax(shape))
        shape = tuple(s if i != d else (s-2 if co[d] else s-1)
                      for i, s in enumerate(shape))

    def w(n):
        kind = gen.choice(r, ['uniform', 'ratio3', 'jitter'])
        if kind == 'uniform':
            h = np.ones(n)
        elif kind == 'ratio3':
            h = np.cumprod(r.uniform(1/3, 3, n))
            h /= h.mean()
        else:
            h = r.uniform(0.3, 3.0, n)
        return h*10.0**r.uniform(0, 2)
    gs = {'hx': w(shape[0]), 'hy': w(shape[1]), 'hz': w(shape[2]),
          'origin': [float(r.uniform(-100, 100)) for _ in range(3)]}
    ms = gen.model_spec(r, shape, homogeneous=False)
    freq = gen.frequency(r)
    return sc, shape, gs, ms, freq


def check_pair(rec, r, tag, force=None):
    import emg3d
    from emg3d import solver, models
    sc, shape, gs, ms, freq = gen_pair(r, force)
    co = CO[sc]
    grid, model = gen.build_emg3d(gs, ms)
    sf = emg3d.Field(grid, frequency=freq)
    dtype = sf.field.dtype
    vm = models.VolumeModel(model, sf)
    case = {'tag': tag, 'sc_dir': sc, 'shape': shape, 'frequency': freq,
            'case': ms['case'], 'grid': gen.summarize_grid(gs)}
    rec.case()
    nf = grid.n_edges
    fint = edge_masks(shape)

    # one call for grid / model / dtype clauses
    res = emg3d.Field(grid, data=gen.random_field(
        r, nf, dtype == np.complex128).astype(dtype), frequency=freq)
    cm, cs, ce = solver.restriction(vm, sf, res, sc)
    rec.event('restriction_calls')
    cg = cm.grid
    fnodes = [grid.nodes_x, grid.nodes_y, grid.nodes_z]
    cnodes = [cg.nodes_x, cg.nodes_y, cg.nodes_z]
    for d in range(3):
        want = fnodes[d][::2] if co[d] else fnodes[d]
        if len(cnodes[d]) != len(want) or not np.array_equal(cnodes[d], want):
            # allow rounding of nodes recomputed from widths
            if len(cnodes[d]) != len(want) or not np.allclose(
                    cnodes[d], want, rtol=1e-13, atol=1e-9*np.abs(want).max()):
                rec.violation('C04:coarse-grid-nodes', f'coarse nodes in '
                              f'direction {d} are not every second fine node '
                              f'(pattern {sc})', case)
                return
    rec.event('coarse_grid_checks')
    # material parameters: each coarse value = sum of its children
    for name in ('eta_x', 'eta_y', 'eta_z', 'zeta'):
        fine = getattr(vm, name)
        coarse = getattr(cm, name)
        want = children_sum(fine, co)
        scale = np.abs(want).max()
        d_ = np.abs(coarse - want).max()/scale if coarse.shape == want.shape \
            else np.nan
        rec.margin('model_children_sum_rel', d_)
        rec.event('model_conservation_checks')
        if not (d_ <= 1e-14):
            rec.violation('C04:coarse-model-not-sum-of-children',
                          f'{name}: coarse parameter differs from the sum of '
                          f'its fine children by {d_:.3e} (pattern {sc}, '
                          f'case {ms["case"]})', case)
        tot = abs(coarse.sum() - fine.sum())/abs(fine.sum())
        if not (tot <= 1e-12):
            rec.violation('C04:coarse-model-total-not-conserved',
                          f'{name}: total changed by {tot:.3e}', case)
    if cs.field.dtype != dtype or ce.field.dtype != dtype:
        rec.violation('C04:coarse-field-dtype', f'coarse fields '
                      f'{cs.field.dtype}/{ce.field.dtype} for source {dtype}',
                      case)
    if np.count_nonzero(ce.field):
        rec.violation('C04:coarse-efield-not-zero', 'initial coarse field is '
                      'not zero', case)

    cshape = tuple(cg.shape_cells)
    nc = cg.n_edges
    cint = edge_masks(cshape)

    # ---- R by columns (fine unit residuals)
    R = np.zeros((nc, nf), dtype=dtype)
    unit = emg3d.Field(grid, dtype=dtype, frequency=freq)
    for j in range(nf):
        unit.field[:] = 0
        unit.field[j] = 1.0
        _, csj, _ = solver.restriction(vm, sf, unit, sc)
        R[:, j] = csj.field
    rec.event('restriction_calls', nf)
    # ---- P by columns (coarse unit fields onto a zero fine field)
    P = np.zeros((nf, nc), dtype=dtype)
    cu = emg3d.Field(cg, dtype=dtype, frequency=freq)
    for j in range(nc):
        cu.field[:] = 0
        cu.field[j] = 1.0
        fz = emg3d.Field(grid, dtype=dtype, frequency=freq)
        solver.prolongation(fz, cu, sc)
        P[:, j] = fz.field
    rec.event('prolongation_calls', nc)
    if not (np.all(np.isfinite(R)) and np.all(np.isfinite(P))):
        rec.violation('C04:nonfinite', 'non-finite restriction/prolongation',
                      case)
        return

    # (1) transpose on interior coarse rows (all fine columns)
    d1 = float(np.abs(R[cint, :] - P[:, cint].T).max())
    # rounding bound: a weight is (difference of two coordinates)/(dual width),
    # coordinates carry ~n*eps*|x| of rounding from the cumulative sums.
    cond = max(np.abs(fnodes[d]).max()/np.diff(fnodes[d]).min()
               for d in range(3))
    tol_r = 1e-13 + 200*np.finfo(float).eps*cond
    rec.margin('R_minus_PT_over_tol', d1/tol_r)
    rec.margin('R_minus_PT', d1)
    rec.event('transpose_checks')
    if not (d1 <= tol_r):
        ii = np.unravel_index(np.argmax(np.abs(R[cint, :] - P[:, cint].T)),
                              (int(cint.sum()), nf))
        rec.violation('C04:restriction-not-transpose-of-prolongation',
                      f'max |R - P^T| = {d1:.3e} on interior coarse edges '
                      f'(pattern {sc}, coarse row {np.flatnonzero(cint)[ii[0]]}'
                      f', fine col {ii[1]})', case)
    # (2) prolongation never touches fine boundary edges
    rec.event('boundary_checks')
    if np.count_nonzero(P[~fint, :]):
        rec.violation('C04:prolongation-writes-boundary', 'prolongation '
                      'writes to tangential boundary edges', case)
    if np.count_nonzero(R[np.ix_(cint, ~fint)]):
        rec.violation('C04:restriction-reads-boundary', 'interior coarse '
                      'residual depends on fine boundary residual', case)
    # (3) weights >= 0, interior fine rows sum to one
    Pr = P.real
    rs = np.abs(Pr[fint, :].sum(axis=1) - 1).max() if fint.any() else 0.0
    rec.margin('row_sum_dev', rs)
    rec.event('weight_checks')
    if np.iscomplexobj(P) and np.count_nonzero(P.imag):
        rec.violation('C04:complex-weights', 'prolongation weights not real',
                      case)
    if Pr.min() < 0:
        rec.violation('C04:negative-weight', f'negative prolongation weight '
                      f'{Pr.min():.3e}', case)
    if not (rs <= 1e-13):
        rec.violation('C04:weights-do-not-sum-to-one', f'interior fine row '
                      f'sums deviate from 1 by {rs:.3e}', case)
    # (4) pattern: constant along, (bi)linear across
    Pref = p_reference(fnodes, cnodes, co)
    d4 = float(np.abs(Pr[fint, :] - Pref[fint, :]).max()) if fint.any() else 0.
    rec.margin('P_minus_reference', d4)
    rec.event('pattern_checks')
    if not (d4 <= 1e-13):
        rec.violation('C04:prolongation-weights-wrong', f'prolongation differs'
                      f' from constant-along/linear-across reference by '
                      f'{d4:.3e} (pattern {sc})', case)
    # (5) prolongation adds
    e0 = gen.random_field(r, nf, dtype == np.complex128).astype(dtype)
    cv = gen.random_field(r, nc, dtype == np.complex128).astype(dtype)
    f0 = emg3d.Field(grid, data=e0.copy(), frequency=freq)
    solver.prolongation(f0, emg3d.Field(cg, data=cv.copy(), frequency=freq),
                        sc)
    want = e0 + P @ cv
    untouched = ~np.any(P != 0, axis=1)
    rec.event('additivity_checks')
    if not np.array_equal(f0.field[untouched], e0[untouched]):
        rec.violation('C04:prolongation-overwrites', 'entries outside the '
                      'prolongation stencil changed', case)
    d5 = float(np.abs(f0.field - want).max()/np.abs(want).max())
    rec.margin('additivity_rel', d5)
    if not (d5 <= 1e-13):
        rec.violation('C04:prolongation-not-additive', f'P(e0, c) != e0 + '
                      f'P(0, c): {d5:.3e}', case)
    rec.distinct((sc, shape, str(dtype), ms['case']))
    rec.extra_set('patterns_driver', [sc])
    rec.extra_add('twin_pairs' if force is not None else 'fresh_pairs')
    rec.sample({'sc_dir': sc, 'fine_shape': shape, 'coarse_shape': cshape,
                'dtype': str(dtype), 'case': ms['case'], 'fine_edges': nf,
                'coarse_edges': nc, 'R_minus_PT': d1, 'hx': gs['hx']})
    return sc, shape


# ---------------------------------------------------------------- in situ
def insitu(rec, seed, k, i, tier):
    import contextlib
    import io
    import emg3d
    from emg3d import solver
    r = gen.rng(seed, 'C04', 'insitu', k, i)
    sizes = [4, 6, 8, 8, 12, 16] if tier == 'quick' else [4, 6, 8, 12, 16, 20,
                                                          24, 32]
    shape = tuple(int(gen.choice(r, sizes)) for _ in range(3))
    gs = gen.grid_spec(r, shape)
    ms = gen.model_spec(r, shape)
    freq = gen.frequency(r)
    grid, model = gen.build_emg3d(gs, ms)
    src = (float(np.mean(grid.nodes_x[1:-1])), float(np.mean(grid.nodes_y[1:-1])),
           float(np.mean(grid.nodes_z[1:-1])), 30.0, 20.0)
    sf = emg3d.get_source_field(grid, src, freq)
    kw = {'sslsolver': gen.choice(r, [False, False, True]),
          'semicoarsening': gen.choice(r, [False, True, 1, 2, 3, 123, 31]),
          'linerelaxation': gen.choice(r, [False, True, 4, 7]),
          'cycle': gen.choice(r, ['F', 'V', 'W']), 'maxit': 3, 'verb': -1}
    case = {'k': k, 'i': i, 'shape': shape, 'kw': kw, 'frequency': freq}
    orig_r, orig_p = solver.restriction, solver.prolongation
    probe_rng = gen.rng(seed, 'C04', 'probe', k, i)
    state = {'n': 0}

    def w_restriction(model_, sfield_, residual_, sc_dir):
        out = orig_r(model_, sfield_, residual_, sc_dir)
        state['n'] += 1
        if state['n'] % 2 == 0:        # every second restriction
            return out
        cm = out[0]
        fshape = tuple(model_.grid.shape_cells)
        cshape = tuple(cm.grid.shape_cells)
        co = tuple(int(fshape[d] != cshape[d]) for d in range(3))
        dt = sfield_.field.dtype
        cplx = dt == np.complex128
        fint, cint = edge_masks(fshape), edge_masks(cshape)
        rv = gen.random_field(probe_rng, fint.size, cplx).astype(dt)
        rv[~fint] = 0
        cv = gen.random_field(probe_rng, cint.size, cplx).astype(dt)
        cv[~cint] = 0
        rf = emg3d.Field(model_.grid, data=rv, frequency=sfield_._frequency)
        _, Rr, _ = orig_r(model_, sfield_, rf, sc_dir)
        fz = emg3d.Field(model_.grid, dtype=dt, frequency=sfield_._frequency)
        orig_p(fz, emg3d.Field(cm.grid, data=cv.copy(),
                               frequency=sfield_._frequency), sc_dir)
        lhs = np.sum(Rr.field[cint]*cv[cint])
        rhs = np.sum(rv*fz.field)
        den = np.linalg.norm(rv)*np.linalg.norm(fz.field) + 1e-300
        d = abs(lhs - rhs)/den
        cond = max(np.abs(getattr(model_.grid, 'nodes_'+a)).max() /
                   model_.grid.h[j].min() for j, a in enumerate('xyz'))
        tol_i = 1e-12 + 200*np.finfo(float).eps*cond
        rec.event('insitu_adjoint_probes')
        rec.margin('insitu_adjoint_over_tol', d/tol_i)
        if not (d <= tol_i):
            rec.violation('C04:restriction-not-transpose-of-prolongation',
                          f'in situ: <R r, c> - <r, P c> = {d:.3e} (relative) '
                          f'on level grid {fshape} -> {cshape}, sc_dir '
                          f'{sc_dir}', case)
        for name in ('eta_x', 'eta_y', 'eta_z', 'zeta'):
            fine, coarse = getattr(model_, name), getattr(cm, name)
            want = children_sum(fine, co)
            dd = (np.abs(coarse - want).max()/np.abs(want).max()
                  if coarse.shape == want.shape else np.nan)
            rec.event('insitu_conservation_checks')
            if not (dd <= 1e-14):
                rec.violation('C04:coarse-model-not-sum-of-children',
                              f'in situ {name}: {dd:.3e} on {fshape}->{cshape}',
                              case)
        for d_ in range(3):
            fn = getattr(model_.grid, 'nodes_'+'xyz'[d_])
            cn = getattr(cm.grid, 'nodes_'+'xyz'[d_])
            want = fn[::2] if co[d_] else fn
            if len(cn) != len(want) or not np.allclose(
                    cn, want, rtol=1e-13, atol=1e-9*np.abs(want).max()):
                rec.violation('C04:coarse-grid-nodes', f'in situ: direction '
                              f'{d_} on {fshape}->{cshape}', case)
        rec.distinct(('insitu', fshape, cshape, int(sc_dir)))
        rec.extra_set('patterns_insitu', [int(sc_dir)])
        return out

    solver.restriction = w_restriction
    try:
        with contextlib.redirect_stdout(io.StringIO()):
            emg3d.solve(model, sf, **kw)
    finally:
        solver.restriction, solver.prolongation = orig_r, orig_p
    rec.case()
    rec.event('insitu_solves')


def run_batch(batch):
    rec = common.Rec()
    for i in range(batch['n']):
        if batch['mode'] == 'driver':
            r = gen.rng(batch['seed'], 'C04', batch['k'], i)
            got = check_pair(rec, r, f"{batch['k']}:{i}")
            # A twin: same pattern and shapes, different widths, in the same
            # process with no solve() in between (anything remembered from
            # the first grid pair must not leak into the second).
            if got is not None and i % 2 == 0:
                r2 = gen.rng(batch['seed'], 'C04', batch['k'], i, 'twin')
                check_pair(rec, r2, f"{batch['k']}:{i}:twin", force=got)
        else:
            insitu(rec, batch['seed'], batch['k'], i, batch['tier'])
    return rec.result()


def finalize(merged, tier):
    common.require_events(merged, {
        'restriction_calls': 20000, 'prolongation_calls': 5000,
        'transpose_checks': 100, 'pattern_checks': 100,
        'model_conservation_checks': 400, 'insitu_adjoint_probes': 100})
    pats = merged['extra'].get('set:patterns_driver', [])
    if len(pats) < 7:
        merged['inconclusive'].append(
            {'reason': f'only coarsening patterns {pats} exercised',
             'case': None})
