"""Shared plumbing: environment, worker pool, merging, verdicts, evidence.

Nothing in here knows anything about a particular property.  A property module
``vf/cNN.py`` provides

    PROP        'Cnn'
    NEEDS_JIT   bool - warm the numba cache before the workers start
    RULE        str  - how cases are generated / what counts as distinct
    ASSUMPTIONS list of str
    plan(tier, seed)          -> list of batch specs (JSON-able dicts)
    run_batch(batch)          -> result dict, see ``new_result``
    finalize(merged, tier)    -> optional; may add coverage keys to
                                 merged['extra'] and append reasons to
                                 merged['inconclusive']

Verdicts are three-valued (DESIGN 1.5): 0 held, 1 violated, 2 inconclusive.
"""
import hashlib
import json
import os
import subprocess
import sys
import time
import traceback
from concurrent.futures import ThreadPoolExecutor
from pathlib import Path

VERIF = Path(__file__).resolve().parent.parent
REPO = Path(os.environ.get('VERIF_REPO', '/repo')).resolve()
PY = os.environ.get('VERIF_PYTHON', '/venv/bin/python')
NPROC = int(os.environ.get('VERIF_NPROC', os.cpu_count() or 4))
DEPS = VERIF / '.deps'
CACHE = VERIF / '.cache'
WHEELS = '/opt/veriftools/wheels'


# --------------------------------------------------------------------------
# JSON helpers
def jsonable(x, depth=0):
    """Convert numpy scalars/arrays, complex numbers, tuples, sets to JSON."""
    import numpy as np
    if depth > 12:
        return str(x)
    if x is None or isinstance(x, (bool, str)):
        return x
    if isinstance(x, (int, np.integer)):
        return int(x)
    if isinstance(x, (float, np.floating)):
        x = float(x)
        if x != x:
            return 'nan'
        if x in (float('inf'), float('-inf')):
            return 'inf' if x > 0 else '-inf'
        return x
    if isinstance(x, (complex, np.complexfloating)):
        return {'re': jsonable(x.real), 'im': jsonable(x.imag)}
    if isinstance(x, np.bool_):
        return bool(x)
    if isinstance(x, np.ndarray):
        if x.size > 400:
            return {'ndarray': list(x.shape), 'dtype': str(x.dtype),
                    'sha1': hashlib.sha1(
                        np.ascontiguousarray(x).tobytes()).hexdigest()[:16]}
        return jsonable(x.tolist(), depth+1)
    if isinstance(x, dict):
        return {str(k): jsonable(v, depth+1) for k, v in x.items()}
    if isinstance(x, (list, tuple, set, frozenset)):
        return [jsonable(v, depth+1) for v in x]
    return repr(x)


def dumps(x, **kw):
    return json.dumps(jsonable(x), **kw)


# --------------------------------------------------------------------------
# Result record
def new_result():
    return {
        'n_cases': 0,          # executions of the system under test
        'events': {},          # monitor name -> number of events it judged
        'distinct': [],        # distinct non-trivial abstract cases (strings)
        'margins': {},         # name -> worst (largest) observed value
        'violations': [],      # {'key', 'msg', 'case'}
        'inconclusive': [],    # {'reason', 'case'}
        'samples': [],         # a few written-out cases
        'extra': {},           # property specific coverage
    }


class Rec:
    """Accumulator used inside a worker."""

    def __init__(self, max_viol=20, max_samples=3):
        self.r = new_result()
        self._distinct = set()
        self.max_viol = max_viol
        self.max_samples = max_samples

    def case(self, n=1):
        self.r['n_cases'] += n

    def event(self, name, n=1):
        self.r['events'][name] = self.r['events'].get(name, 0) + n

    def distinct(self, key):
        self._distinct.add(str(key))

    def margin(self, name, value):
        """Track the largest value seen; NaN is kept as NaN (worst)."""
        value = float(value)
        old = self.r['margins'].get(name)
        if old is None:
            self.r['margins'][name] = value
        elif value != value or old != old:
            self.r['margins'][name] = float('nan')
        elif value > old:
            self.r['margins'][name] = value

    def violation(self, key, msg, case=None):
        self.event('violations')
        if len(self.r['violations']) < self.max_viol:
            self.r['violations'].append(
                {'key': key, 'msg': msg, 'case': jsonable(case)})
        else:
            # Keep at least one witness per key.
            keys = {v['key'] for v in self.r['violations']}
            if key not in keys:
                self.r['violations'].append(
                    {'key': key, 'msg': msg, 'case': jsonable(case)})

    def inconclusive(self, reason, case=None):
        if len(self.r['inconclusive']) < 20:
            self.r['inconclusive'].append(
                {'reason': reason, 'case': jsonable(case)})
        self.event('inconclusive_cases')

    def sample(self, s):
        if len(self.r['samples']) < self.max_samples:
            self.r['samples'].append(jsonable(s))

    def extra_add(self, name, n=1):
        self.r['extra'][name] = self.r['extra'].get(name, 0) + n

    def extra_set(self, name, items):
        """Union of string items, merged across workers (prefix 'set:')."""
        cur = set(self.r['extra'].get('set:'+name, []))
        cur.update(str(i) for i in items)
        self.r['extra']['set:'+name] = sorted(cur)

    def result(self):
        self.r['distinct'] = sorted(self._distinct)
        return self.r


def merge(results):
    m = new_result()
    distinct = set()
    for r in results:
        m['n_cases'] += r.get('n_cases', 0)
        for k, v in r.get('events', {}).items():
            m['events'][k] = m['events'].get(k, 0) + v
        distinct.update(r.get('distinct', []))
        for k, v in r.get('margins', {}).items():
            old = m['margins'].get(k)
            if isinstance(v, str):      # 'nan' / 'inf' from JSON
                v = float(v)
            if old is None:
                m['margins'][k] = v
            elif v != v or old != old:
                m['margins'][k] = float('nan')
            elif v > old:
                m['margins'][k] = v
        m['violations'].extend(r.get('violations', []))
        m['inconclusive'].extend(r.get('inconclusive', []))
        if len(m['samples']) < 6:
            m['samples'].extend(r.get('samples', [])[:2])
        for k, v in r.get('extra', {}).items():
            if k.startswith('set:'):
                cur = set(m['extra'].get(k, []))
                cur.update(v)
                m['extra'][k] = sorted(cur)
            elif isinstance(v, (int, float)):
                m['extra'][k] = m['extra'].get(k, 0) + v
            else:
                m['extra'].setdefault(k, v)
    m['distinct'] = sorted(distinct)
    return m


# --------------------------------------------------------------------------
# Environment
def source_stamp(repo=REPO):
    """Content hash of the emg3d sources under test."""
    h = hashlib.sha1()
    for p in sorted((repo / 'emg3d').rglob('*.py')):
        h.update(str(p.relative_to(repo)).encode())
        h.update(p.read_bytes())
    return h.hexdigest()[:16]


def ensure_deps():
    """icontract/deal beside the repo's interpreter (git-ignored dir)."""
    if (DEPS / 'icontract').is_dir() and (DEPS / 'deal').is_dir():
        return
    DEPS.mkdir(exist_ok=True)
    cmd = [PY, '-m', 'pip', 'install', '--quiet', '--no-index',
           '--find-links', WHEELS, '--target', str(DEPS), 'deal', 'icontract']
    subprocess.run(cmd, check=True, stdout=subprocess.DEVNULL,
                   stderr=subprocess.DEVNULL)


def worker_env(boundscheck=False, stamp=None):
    stamp = stamp or source_stamp()
    env = dict(os.environ)
    cdir = CACHE / 'numba' / (stamp + ('-bc' if boundscheck else ''))
    cdir.mkdir(parents=True, exist_ok=True)
    env.update({
        'PYTHONPATH': f"{REPO}{os.pathsep}{VERIF}",
        'VERIF_REPO': str(REPO),
        'NUMBA_CACHE_DIR': str(cdir),
        'OMP_NUM_THREADS': '1', 'OPENBLAS_NUM_THREADS': '1',
        'MKL_NUM_THREADS': '1', 'NUMBA_NUM_THREADS': '1',
        'PYTHONHASHSEED': '0',
        'EMG3D_VERIF': '1',
        'MPLBACKEND': 'Agg',
        'PYTHONDONTWRITEBYTECODE': '1',
    })
    if boundscheck:
        env['NUMBA_BOUNDSCHECK'] = '1'
    else:
        env.pop('NUMBA_BOUNDSCHECK', None)
    return env, cdir


def prune_cache(keep_stamp):
    """Remove numba caches of other source stamps not used for 6 hours."""
    base = CACHE / 'numba'
    if not base.is_dir():
        return
    import shutil
    now = time.time()
    for d in base.iterdir():
        try:
            if (not d.name.startswith(keep_stamp) and
                    now - d.stat().st_mtime > 6*3600):
                shutil.rmtree(d, ignore_errors=True)
        except OSError:
            pass


def warm(env, cdir, log):
    """Compile the JIT kernels once so that 16 workers do not all do it."""
    marker = cdir / '.warm'
    if marker.exists():
        return 0.0
    t0 = time.time()
    p = subprocess.run([PY, '-m', 'vf.warm'], env=env, cwd=str(VERIF),
                       stdout=subprocess.PIPE, stderr=subprocess.STDOUT,
                       timeout=1800)
    log.write(p.stdout.decode(errors='replace'))
    if p.returncode == 0:
        marker.write_text('ok')
    return time.time() - t0


# --------------------------------------------------------------------------
# Known findings
def known_findings():
    out = {}
    f = VERIF / 'KNOWN_FINDINGS.txt'
    if f.exists():
        for line in f.read_text().splitlines():
            line = line.strip()
            if not line.startswith('known:'):
                continue
            toks = line.split()
            prop = key = None
            for t in toks:
                if t.startswith('property='):
                    prop = t.split('=', 1)[1]
                if t.startswith('key='):
                    key = t.split('=', 1)[1]
            if prop and key:
                out[(prop, key)] = line
    return out


# --------------------------------------------------------------------------
# Running batches
def run_one(prop, batch, env, timeout, workdir, idx):
    spec = workdir / f'b{idx}.spec.json'
    outf = workdir / f'b{idx}.out.json'
    logf = workdir / f'b{idx}.log'
    spec.write_text(dumps(batch))
    if outf.exists():
        outf.unlink()
    t0 = time.time()
    import signal
    with open(logf, 'wb') as lf:
        # own session: on a watchdog timeout the whole process group goes
        # (pool workers forked by emg3d would otherwise be orphaned)
        p = subprocess.Popen(
            [PY, '-X', 'faulthandler', '-m', 'vf.worker', prop, str(spec),
             str(outf)],
            env=env, cwd=str(VERIF), stdout=lf, stderr=subprocess.STDOUT,
            start_new_session=True)
        # Watchdog in load-scaled time: while the machine is oversubscribed
        # (load average above the number of cores) the budget is consumed
        # proportionally slower; a hard wall-clock limit of four times the
        # budget remains.  Its firing is 'inconclusive', never a verdict.
        used, rc = 0.0, None
        ncpu = os.cpu_count() or 1
        while rc is None:
            try:
                rc = p.wait(timeout=5)
            except subprocess.TimeoutExpired:
                try:
                    over = max(1.0, os.getloadavg()[0]/ncpu)
                except OSError:
                    over = 1.0
                used += 5.0/over
                if used > timeout or time.time() - t0 > 4*timeout:
                    rc = 'timeout'
                    try:
                        os.killpg(p.pid, signal.SIGKILL)
                    except OSError:
                        pass
                    p.wait()
    dt = time.time() - t0
    if outf.exists():
        try:
            res = json.loads(outf.read_text())
            res['_wall'] = dt
            if rc not in (0,):
                res.setdefault('inconclusive', []).append(
                    {'reason': f'worker ended with {rc} after writing result',
                     'case': {'batch': batch.get('id', idx)}})
            return res
        except Exception:  # noqa
            pass
    tail = ''
    try:
        tail = logf.read_text(errors='replace')[-1500:]
    except Exception:  # noqa
        pass
    r = new_result()
    r['inconclusive'].append(
        {'reason': f'worker {rc} without result (watchdog/crash)',
         'case': {'batch': batch.get('id', idx), 'log_tail': tail}})
    r['_wall'] = dt
    return r


def run_property(mod, tier, seed, replay=None):
    prop = mod.PROP
    t0 = time.time()
    ensure_deps()
    stamp = source_stamp()
    prune_cache(stamp)
    workdir = CACHE / 'work' / f'{prop}-{tier}-{seed}-{os.getpid()}'
    workdir.mkdir(parents=True, exist_ok=True)
    log = open(workdir / 'run.log', 'w')

    if replay:
        rp = json.loads(Path(replay).read_text())
        batches = [rp['batch']]
        tier = rp.get('tier', tier)
    else:
        batches = mod.plan(tier, seed)
    for b in batches:
        b.setdefault('tier', tier)
        b.setdefault('seed', seed)

    envs = {}
    warm_s = 0.0
    for bc in sorted({bool(b.get('boundscheck')) for b in batches}):
        env, cdir = worker_env(boundscheck=bc, stamp=stamp)
        envs[bc] = env
        if getattr(mod, 'NEEDS_JIT', False):
            warm_s += warm(env, cdir, log)

    timeout = getattr(mod, 'TIMEOUT', {}).get(tier, 1500)
    nproc = min(NPROC, getattr(mod, 'MAX_PARALLEL', NPROC))
    with ThreadPoolExecutor(max_workers=nproc) as ex:
        futs = [ex.submit(run_one, prop, b, envs[bool(b.get('boundscheck'))],
                          b.get('timeout', timeout), workdir, i)
                for i, b in enumerate(batches)]
        results = [f.result() for f in futs]

    # Attach batch to each violation so a replay can re-run it.
    for b, r in zip(batches, results):
        for v in r.get('violations', []):
            v['batch'] = b
    merged = merge(results)
    merged['extra']['batches'] = len(batches)
    walls = sorted(((round(r.get('_wall', 0), 1), b.get('id', '?'))
                    for b, r in zip(batches, results)), reverse=True)
    merged['extra']['slowest_batches_s'] = [f'{i}:{w}' for w, i in walls[:4]]
    merged['extra']['warm_s'] = round(warm_s, 1)
    merged['extra']['source_stamp'] = stamp
    if hasattr(mod, 'finalize') and not replay:
        try:
            mod.finalize(merged, tier)
        except Exception:  # noqa
            merged['inconclusive'].append(
                {'reason': 'finalize failed: ' + traceback.format_exc()[-800:],
                 'case': None})
    log.close()
    return verdict(mod, merged, tier, seed, time.time() - t0, workdir,
                   replay=replay)


def verdict(mod, merged, tier, seed, wall, workdir, replay=None):
    prop = mod.PROP
    known = known_findings()
    by_key = {}
    for v in merged['violations']:
        by_key.setdefault(v['key'], []).append(v)

    new_keys = [k for k in by_key if (prop, k) not in known]
    known_keys = [k for k in by_key if (prop, k) in known]

    lines = []
    for k in sorted(known_keys):
        v = by_key[k][0]
        lines.append(f"KNOWN-FINDING: property={prop} key={k} "
                     f"({len(by_key[k])} witnesses this run) {v['msg'][:300]}")

    rdir = VERIF / 'replays'
    replay_paths = []
    for k in sorted(new_keys):
        v = by_key[k][0]
        rdir.mkdir(exist_ok=True)
        safe = ''.join(c if c.isalnum() or c in '-_.' else '_' for c in k)
        path = rdir / f'{prop}-{safe}-{tier}-s{seed}.json'
        path.write_text(dumps({
            'property': prop, 'key': k, 'msg': v['msg'], 'tier': tier,
            'seed': seed, 'case': v.get('case'), 'batch': v.get('batch'),
            'witnesses_this_run': len(by_key[k]),
            'replay_cmd': f'./check {prop} --replay {path}',
        }, indent=1))
        replay_paths.append(path)
        lines.append(f"VIOLATION property={prop} replay={path}")
        lines.append(f"  key={k}: {v['msg'][:600]}")

    # Evidence (always rewritten, also on violation / inconclusive).
    n_distinct = len(merged['distinct'])
    cov = {
        # executions judged; every distinct case was one, so never smaller
        'evaluations': int(max(merged['n_cases'], n_distinct)),
        'distinct_nontrivial': int(n_distinct),
        'rule': mod.RULE,
        'samples': merged['samples'][:6] or [],
        'exhaustive': bool(merged['extra'].pop('exhaustive', False)),
        'monitor_events': merged['events'],
        'worst_margins': merged['margins'],
        'known_finding_keys_seen': sorted(known_keys),
        'violation_keys_seen': sorted(new_keys),
        'inconclusive': merged['inconclusive'][:5],
    }
    for k, v in merged['extra'].items():
        if k.startswith('set:'):
            cov[k[4:]] = v if len(v) <= 60 else v[:60] + [f'... {len(v)} total']
            cov['n_' + k[4:]] = len(v)
        else:
            cov[k] = v
    ev = {
        'property_id': prop, 'tier': tier, 'seed': int(seed),
        'level': 'exploration', 'coverage': cov,
        'assumptions': list(getattr(mod, 'ASSUMPTIONS', [])),
        'wall_s': round(wall, 2),
        'violations': len(merged['violations']) - sum(
            len(by_key[k]) for k in known_keys),
    }
    if not replay:
        edir = VERIF / 'evidence'
        edir.mkdir(exist_ok=True)
        (edir / f'{prop}.json').write_text(dumps(ev, indent=1) + '\n')

    for ln in lines:
        print(ln)
    evsum = ', '.join(f'{k}={v}' for k, v in sorted(merged['events'].items()))
    print(f"[{prop}] tier={tier} seed={seed} cases={merged['n_cases']} "
          f"distinct={n_distinct} wall={wall:.1f}s events: {evsum}")
    if merged['margins']:
        print(f"[{prop}] worst margins: " + ', '.join(
            f'{k}={v:.3g}' for k, v in sorted(merged['margins'].items())))

    if new_keys:
        for i in merged['inconclusive'][:3]:
            print(f"(also INCONCLUSIVE: {i['reason'][:300]})")
        import shutil
        shutil.rmtree(workdir, ignore_errors=True)
        return 1
    if merged['inconclusive']:
        for i in merged['inconclusive'][:5]:
            print(f"INCONCLUSIVE property={prop} reason={i['reason'][:500]}")
            c = i.get('case')
            if isinstance(c, dict) and c.get('log_tail'):
                print('  log tail: ' + c['log_tail'][-800:].replace('\n', '\n  '))
        print(f"  (work dir kept: {workdir})")
        return 2
    # Clean the work dir on success.
    import shutil
    shutil.rmtree(workdir, ignore_errors=True)
    return 0


def require_events(merged, minimum):
    """Helper for finalize(): too few events of a deciding monitor."""
    for name, n in minimum.items():
        got = merged['events'].get(name, 0)
        if got < n:
            merged['inconclusive'].append(
                {'reason': f'monitor {name!r} saw {got} events (< {n}): '
                           'deciding monitor not (sufficiently) reached',
                 'case': None})
