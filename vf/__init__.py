"""Runtime-monitoring framework for emsig/emg3d (see /verif/DESIGN.md)."""
