"""C08 - J v is the data derivative, J^T its exact adjoint.

Client-boundary monitor on Simulation.jvec / jtvec / gradient /
data.synthetic.  Oracles: (a) Richardson-extrapolated central differences of
the synthetic data of fresh simulations (gridding='same'); (b) the adjoint
identity Re<w, J v> = <J^T w, v> in every gridding mode, in memory and
file-based; (c) jtvec(residual*weights) == gradient of a fresh simulation.
"""
import os
import shutil
import tempfile
import warnings
import numpy as np
from vf import common, gen, simgen, refop

PROP = 'C08'
NEEDS_JIT = True
TIMEOUT = {'quick': 2400, 'thorough': 3500}
RULE = ("random small survey problems (see C07) with 1-2 sources x 1-2 "
        "frequencies; gridding in {same, single, frequency, source, both, "
        "input, dict} (automatic grids of 8..32 cells from fully specified "
        "gridding_opts), in memory and file_dir; real random v (dense / "
        "single component), complex random w with NaN where data are "
        "missing; solver tol 1e-10; distinct = (gridding, case, mapping, "
        "file-based?, source kinds, receiver kinds) that reached an oracle")
ASSUMPTIONS = [
    "finite differences of fresh simulations define 'the data derivative' "
    "(only for gridding='same', as in the property)",
    "all solves must report convergence, otherwise the case is skipped and "
    "counted",
    "bound of the adjoint test: 1e-6*|<J^T w, v>| + 1e-9*|w||Jv| (solver "
    "tolerance 1e-10)",
]
MODES = ['same', 'same', 'single', 'frequency', 'source', 'both', 'input',
         'dict']
H0 = 1e-2


def plan(tier, seed):
    if tier == 'quick':
        return [{'id': f'j{k}', 'k': k, 'n': 4} for k in range(16)]
    return [{'id': f'j{k}', 'k': k, 'n': 12} for k in range(84)]


def grid_kwargs(r, mode, grid):
    """Simulation keyword arguments for a gridding mode."""
    import emg3d
    if mode == 'same':
        return {}
    base = float(min(grid.h[0].min(), grid.h[1].min(), grid.h[2].min()))
    if mode in ('single', 'frequency', 'source', 'both'):
        ext = [[float(getattr(grid, 'nodes_'+a)[2]),
                float(getattr(grid, 'nodes_'+a)[-3])] for a in 'xyz']
        return {'gridding': mode, 'gridding_opts': {
            'domain': {'x': ext[0], 'y': ext[1], 'z': ext[2]},
            'min_width_limits': [base*0.7, base*1.5],
            'cell_numbers': [8, 12, 16, 20, 24, 32],
            'lambda_factor': float(r.uniform(0.2, 0.4)), 'max_buffer': 2000.,
            'stretching': [1.0, float(r.uniform(1.4, 1.7))],
            'center_on_edge': bool(r.random() < 0.5)}}

    def mk():
        n = int(gen.choice(r, [8, 10, 12]))
        h = np.r_[3*base, 1.6*base, np.ones(n)*base*r.uniform(0.7, 1.1),
                  1.6*base, 3*base]
        hs = [h*r.uniform(0.95, 1.05) for _ in range(3)]
        org = [float(-hh.sum()/2 + r.uniform(-10, 10)) for hh in hs]
        return emg3d.TensorMesh(hs, origin=org)
    if mode == 'input':
        return {'gridding': 'input', 'gridding_opts': mk()}
    if r.random() < 0.5:
        # per-task grids that are translations of one another: identical
        # widths, different origins (as automatic gridding produces for
        # sources on a tow line)
        n = int(gen.choice(r, [8, 10, 12]))
        h = np.r_[3*base, 1.6*base, np.ones(n)*base*r.uniform(0.7, 1.1),
                  1.6*base, 3*base]
        cnt = {'n': 0}
        shift = float(r.uniform(0.15, 0.45)*base)

        def mk_shifted():
            cnt['n'] += 1
            o = -h.sum()/2 + (cnt['n'] % 3 - 1)*shift
            return emg3d.TensorMesh([h, h, h], origin=(o, -h.sum()/2 + 3.0,
                                                      -h.sum()/2))
        return {'gridding': 'dict', 'gridding_opts': 'DICT', '_mk': mk_shifted}
    return {'gridding': 'dict', 'gridding_opts': 'DICT', '_mk': mk}


def run_case(rec, seed, k, i, tier):
    warnings.simplefilter('ignore')
    r = gen.rng(seed, 'C08', k, i)
    mode = MODES[(k*7 + i) % len(MODES)]
    ps = simgen.problem_spec(r, nsrc=int(gen.choice(r, [1, 2])),
                             nfreq=int(gen.choice(r, [1, 2])))
    ms = ps['ms']
    obs = simgen.observed_from(ps, r)
    grid, model = simgen.build_model(ps)
    kw = grid_kwargs(r, mode, grid)
    file_based = bool(r.random() < 0.3)
    tmp = None
    case = {'seed': seed, 'k': k, 'i': i, 'gridding': mode,
            'file_based': file_based, 'problem': simgen.summarize(ps)}
    keys = [kk for kk in ('sigx', 'sigy', 'sigz') if ms[kk] is not None]
    shape = tuple(ps['shape'])

    def make_sim(over=None, data=True):
        g_, m_ = simgen.build_model(ps, over)
        sv = simgen.build_survey(ps, data=obs.copy())
        kk = {a: b for a, b in kw.items() if a != '_mk'}
        if kk.get('gridding_opts') == 'DICT':
            mk = kw['_mk']
            kk['gridding_opts'] = {s: {f: mk() for f in sv.frequencies}
                                   for s in sv.sources}
        if file_based:
            kk['file_dir'] = tmp
        return simgen.simulation(sv, m_, tol=1e-10, **kk), sv

    try:
        if file_based:
            tmp = tempfile.mkdtemp(prefix='vf-c08-')
        sim, sv = make_sim()
        rec.case()
        _ = sim.misfit
        # direction v
        dk = gen.choice(r, ['dense', 'dense', 'component'])
        v = r.standard_normal((len(keys),) + shape)
        if dk == 'component' and len(keys) > 1:
            c = int(r.integers(len(keys)))
            for j in range(len(keys)):
                if j != c:
                    v[j] = 0
        vin = v if len(keys) > 1 else (v[0] if r.random() < 0.5 else v)
        jv = np.array(sim.jvec(vin))
        rec.event('jvec_calls')
        if jv.shape != sv.shape:
            rec.violation('C08:jvec-shape', f'jvec shape {jv.shape} != data '
                          f'shape {sv.shape}', case)
            return
        w = r.standard_normal(jv.shape) + 1j*r.standard_normal(jv.shape)
        w[~np.isfinite(obs)] = np.nan + 1j*np.nan
        jtw = np.array(sim.jtvec(w))
        rec.event('jtvec_calls')
        want_shape = shape if len(keys) == 1 else (len(keys),) + shape
        if tuple(jtw.shape) != want_shape:
            rec.violation('C08:jtvec-shape', f'jtvec shape {jtw.shape}, '
                          f'expected {want_shape}', case)
            return
        if not simgen.all_converged(sim):
            rec.event('skipped_solver_not_converged')
            return
        fin = np.isfinite(w)
        if not (np.all(np.isfinite(jv[fin])) and np.all(np.isfinite(jtw))):
            rec.violation('C08:nonfinite', 'non-finite J v (at finite '
                          'observations) or J^T w', case)
            return
        # ---- (b) adjoint identity
        lhs = float(np.sum(np.conj(w[fin])*jv[fin]).real)
        rhs = float(np.sum(jtw.reshape(v.shape)*v))
        bound = 1e-6*abs(rhs) + 1e-9*float(np.linalg.norm(w[fin]) *
                                            np.linalg.norm(jv[fin]))
        rec.event('adjoint_checks')
        rec.margin('adjoint_over_bound', abs(lhs-rhs)/bound)
        case.update({'lhs': lhs, 'rhs': rhs, 'direction': dk})
        if not (abs(lhs - rhs) <= bound):
            rec.violation('C08:jtvec-not-adjoint-of-jvec',
                          f'Re<w,Jv>={lhs:.10e} but <J^T w,v>={rhs:.10e} '
                          f'(gridding={mode}, file_based={file_based}, case '
                          f'{ms["case"]}, mapping {ms["mapping"]})', case)
            return
        # ---- (c) jtvec(residual*weights) == gradient of a fresh simulation
        if (k + i) % 2 == 0:
            sim2, sv2 = make_sim()
            g2 = np.array(sim2.gradient)
            sim3, sv3 = make_sim()
            _ = sim3.misfit
            vec = sv3.data.residual.data*sv3.data.weights.data
            g3 = np.array(sim3.jtvec(vec))
            if simgen.all_converged(sim2) and simgen.all_converged(sim3):
                sc = float(np.abs(g2).max())
                d = float(np.abs(g2-g3).max()/sc) if sc > 0 else 0.0
                rec.event('jtvec_gradient_checks')
                rec.margin('jtvec_vs_gradient_rel', d)
                if not (d <= 1e-7):
                    rec.violation('C08:jtvec-of-weighted-residual-not-gradient',
                                  f'jtvec(residual*weights) differs from the '
                                  f'gradient by {d:.3e} (relative)', case)
                    return
        # ---- (a) J v = derivative of the synthetic data (gridding='same')
        if mode == 'same':
            props = [refop.from_conductivity(ms[kk], ms['mapping'])
                     for kk in keys]
            D = []
            dmax = 0.0
            ok = True
            for h in (H0, H0/2, H0/4):
                dd = []
                for sgn in (1, -1):
                    over = {kk: refop.conductivity(p + sgn*h*vv, ms['mapping'])
                            for kk, p, vv in zip(keys, props, v)}
                    s_, sv_ = make_sim(over)
                    s_.compute()
                    ok &= simgen.all_converged(s_)
                    dd.append(np.array(sv_.data.synthetic.data))
                    dmax = max(dmax, float(np.nanmax(np.abs(dd[-1]))))
                D.append((dd[0]-dd[1])/(2*h))
            if not ok:
                rec.event('skipped_solver_not_converged')
                return
            R1 = (4*D[1]-D[0])/3
            R2 = (4*D[2]-D[1])/3
            RR = (16*R2-R1)/15
            allfin = np.isfinite(RR) & np.isfinite(jv)
            sc = float(np.abs(jv[allfin]).max())
            floor = 8e-8*dmax/(H0/4)
            err = float(np.abs(RR[allfin]-jv[allfin]).max())
            tol = 1e-5*sc + floor
            rec.event('jvec_derivative_checks')
            rec.margin('jvec_fd_over_tol', err/tol)
            if not (err <= tol):
                rec.violation('C08:jvec-not-data-derivative',
                              f'J v differs from the extrapolated central '
                              f'difference of data.synthetic by {err:.3e} '
                              f'(|Jv|max={sc:.3e}, tol {tol:.3e})', case)
                return
            # NaN pattern: J v is defined exactly where synthetic is
            if not np.array_equal(np.isfinite(jv), np.isfinite(dd[0])):
                rec.violation('C08:jvec-nan-pattern', 'finite pattern of J v '
                              'differs from that of data.synthetic', case)
        rec.distinct((mode, ms['case'], ms['mapping'], file_based,
                      tuple(sorted({s['kind'] for s in ps['sources']})),
                      tuple(sorted({c['kind'] for c in ps['receivers']}))))
        rec.extra_set('gridding_modes', [mode + (':file' if file_based else '')])
        g0 = sim.get_grid(*sim._srcfreq[0])
        rec.sample({'gridding': mode, 'file_based': file_based,
                    'comp_grid': list(g0.shape_cells), 'Re<w,Jv>': lhs,
                    '<JTw,v>': rhs, 'problem': simgen.summarize(ps)})
    finally:
        if tmp and os.path.isdir(tmp):
            shutil.rmtree(tmp, ignore_errors=True)


def run_batch(batch):
    rec = common.Rec(max_samples=2)
    for i in range(batch['n']):
        try:
            run_case(rec, batch['seed'], batch['k'], i, batch['tier'])
        except IndexError:
            raise
        except Exception:  # noqa
            import traceback
            rec.inconclusive('harness/emg3d exception: ' +
                             traceback.format_exc()[-900:],
                             {'k': batch['k'], 'i': i})
    return rec.result()


def finalize(merged, tier):
    common.require_events(merged, {'adjoint_checks': 40,
                                   'jvec_derivative_checks': 8,
                                   'jtvec_gradient_checks': 15})
    modes = {m.split(':')[0] for m in
             merged['extra'].get('set:gridding_modes', [])}
    if len(modes) < 7:
        merged['inconclusive'].append(
            {'reason': f'only gridding modes {sorted(modes)} reached the '
                       'adjoint oracle', 'case': None})
    sk = merged['events'].get('skipped_solver_not_converged', 0)
    if sk > 0.25*max(1, merged['n_cases']):
        merged['inconclusive'].append(
            {'reason': f'{sk} cases skipped (solver not converged)',
             'case': None})
