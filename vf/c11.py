"""C11 - results independent of worker count, scheduling and file mode.

Parent side: every process_map call is recorded (tasks submitted, results per
position).  Worker side: a wrapper around emg3d._multiprocessing.solve (pickled
by reference, inherited by the forked pool workers) takes a ticket, sleeps
according to an adversarial delay schedule chosen by the driver, and appends
start/end events to a log file.  Offline oracle: every source-frequency slot
of every observable is bit-identical to the sequential in-memory reference;
each task started and ended exactly once; the completion order really
differed from the submission order.
"""
import fcntl
import functools
import os
import shutil
import tempfile
import time
import warnings
import numpy as np
from vf import common, gen, simgen

PROP = 'C11'
NEEDS_JIT = True
TIMEOUT = {'quick': 2400, 'thorough': 3500}
MAX_PARALLEL = 8         # every run spawns up to 16 pool workers itself
RULE = ("3-4 distinct sources x 2-3 distinct frequencies on 8^3 grids "
        "(isotropic / VTI / triaxial), forward + misfit + gradient + jvec; "
        "max_workers in {1,2,3,4,7,16} (thorough: 1..16), tqdm backend on/off,"
        " file_dir on/off, delay schedules {reverse, random, straggler, equal}"
        " injected before the real solve in the pool worker; reference = "
        "max_workers=1 in memory; distinct = (max_workers, tqdm?, file?, "
        "schedule, phase) whose worker log shows a completion order different "
        "from the submission order (or max_workers == 1)")
ASSUMPTIONS = [
    "BLAS/OpenMP/numba threads pinned to 1, so bit-identity is a property of "
    "emg3d and not of the machine",
    "only a forced sample of the n! completion orders is observed (listed in "
    "the evidence)",
    "pool start method is fork (the wrapper is inherited); otherwise the run "
    "is inconclusive",
]

SCHED = {'log': None, 'lock': None, 'delays': None}


def plan(tier, seed):
    if tier == 'quick':
        return [{'id': f'r{k}', 'k': k, 'n': 1} for k in range(8)]
    return [{'id': f'r{k}', 'k': k, 'n': 2} for k in range(24)]


# ------------------------------------------------------------ worker side
def _ident(inp):
    import hashlib
    if isinstance(inp, str):
        return os.path.basename(inp)
    if 'sfield' in inp:
        return 'sf:' + hashlib.sha1(
            np.ascontiguousarray(inp['sfield'].field).tobytes()).hexdigest()[:12]
    return 'src:%r|%r' % (tuple(np.ravel(inp['source'].coordinates)),
                          inp['frequency'])


def _ticket():
    with open(SCHED['lock'], 'a+') as f:
        fcntl.flock(f, fcntl.LOCK_EX)
        f.seek(0)
        n = len(f.read().splitlines())
        f.write('x\n')
        f.flush()
        fcntl.flock(f, fcntl.LOCK_UN)
    return n


def _log(line):
    fd = os.open(SCHED['log'], os.O_WRONLY | os.O_APPEND | os.O_CREAT)
    try:
        os.write(fd, (line + '\n').encode())
    finally:
        os.close(fd)


def install_wrapper():
    from emg3d import _multiprocessing as mp
    if getattr(mp.solve, '_vf', False):
        return
    orig = mp.solve

    @functools.wraps(orig)
    def solve(inp):
        if SCHED['log'] is None:
            return orig(inp)
        n = _ticket()
        ident = _ident(inp)
        _log(f'start {n} {os.getpid()} {time.monotonic():.6f} {ident}')
        d = SCHED['delays']
        if d:
            time.sleep(d[n % len(d)])
        out = orig(inp)
        _log(f'end {n} {os.getpid()} {time.monotonic():.6f} {ident}')
        return out
    solve._vf = True
    mp.solve = solve


def delays_for(kind, ntask, r):
    if kind == 'reverse':
        return [0.04*(ntask - j) for j in range(ntask)]
    if kind == 'random':
        return [float(x) for x in r.uniform(0, 0.35, ntask)]
    if kind == 'straggler':
        d = [0.0]*ntask
        d[0] = 0.6
        return d
    return [0.05]*ntask


def bits(a):
    return np.ascontiguousarray(a).tobytes()


def observables(sim, v, own=None):
    """Run forward, misfit, gradient, jvec; return (phase -> slot -> bytes)."""
    out = {}
    sim.compute()
    out['efield'] = {(s, f): bits(sim._dict_get('efield', s, f).field)
                     for s, f in sim._srcfreq}
    out['synthetic'] = {'all': bits(sim.data.synthetic.data)}
    out['misfit'] = {'all': bits(np.float64(sim.misfit))}
    g = np.array(sim.gradient)
    out['gradient'] = {'all': bits(g)}
    out['bfield'] = {(s, f): bits(sim._dict_get('bfield', s, f).field)
                     for s, f in sim._srcfreq}
    if own is not None:
        own(sim)
    jv = np.array(sim.jvec(v))
    out['jvec'] = {'all': bits(jv)}
    # a second forward run on the same object (what an inversion loop does
    # after every gradient)
    sim.clean('computed')
    sim.compute()
    out['efield_second_run'] = {
        (s, f): bits(sim._dict_get('efield', s, f).field)
        for s, f in sim._srcfreq}
    out['synthetic_second_run'] = {'all': bits(sim.data.synthetic.data)}
    return out


def run_config(rec, seed, k, i, tier):
    import emg3d
    from emg3d import _multiprocessing as mp
    warnings.simplefilter('ignore')
    install_wrapper()
    r = gen.rng(seed, 'C11', k, i)
    ps = simgen.problem_spec(
        r, shape=(8, 8, 8), case=gen.choice(r, ['isotropic', 'VTI',
                                                'triaxial']),
        nsrc=int(gen.choice(r, [3, 4])), nfreq=int(gen.choice(r, [2, 3])),
        nrec=3, nan_frac=0.0, stretched=False)
    obs = simgen.observed_from(ps, r, tol=1e-7)
    ntask = len(ps['sources'])*len(ps['frequencies'])
    nk = sum(ps['ms'][kk] is not None for kk in ('sigx', 'sigy', 'sigz'))
    v = r.standard_normal((nk, 8, 8, 8)) if nk > 1 else \
        r.standard_normal((8, 8, 8))
    base = {'seed': seed, 'k': k, 'i': i, 'problem': simgen.summarize(ps)}
    workers_all = [2, 3, 4, 7, 16] if tier == 'quick' else list(range(2, 17))
    cfgs = []
    # a handful of configurations per problem, all against one reference
    for _ in range(4 if tier == 'quick' else 6):
        cfgs.append({'max_workers': int(gen.choice(r, workers_all)),
                     'tqdm': bool(r.random() < 0.5),
                     'file': bool(r.random() < 0.4),
                     'schedule': gen.choice(r, ['reverse', 'random',
                                                'straggler', 'equal'])})
    cfgs.append({'max_workers': 1, 'tqdm': False, 'file': True,
                 'schedule': 'equal'})

    # Gridding: the model grid for all tasks, or an own computational grid
    # per source-frequency pair with *different* sizes (so that any
    # size-dependent scheduling / ordering of the tasks becomes visible).
    gridding = gen.choice(r, ['same', 'dict', 'dict'])
    base['gridding'] = gridding
    gseed = int(r.integers(2**31))

    def grids(sv, grid):
        rr = gen.rng(gseed, 'grids')
        b = float(grid.h[0].min())
        out = {}
        for s_ in sv.sources:
            out[s_] = {}
            for f_ in sv.frequencies:
                n = int(gen.choice(rr, [6, 8, 10, 12]))
                h = np.r_[3*b, 1.6*b, np.ones(n)*b*rr.uniform(0.75, 1.1)
                          * 8.0/n, 1.6*b, 3*b]
                out[s_][f_] = emg3d.TensorMesh(
                    [h, h, h], origin=(-h.sum()/2, -h.sum()/2, -h.sum()/2))
        return out

    # Half of the problems use user-named frequencies whose keys contain a
    # dot ('0.25Hz'); file-based runs use a directory with a dot in its
    # name.  Both are legal and end up in the names of the exchanged files.
    named = bool(r.random() < 0.5)
    base['named_frequencies'] = named
    # back-propagation / J v with their own (relaxed) tolerance
    tolg = gen.choice(r, [None, 1e-3, 1e-4])
    base['tol_gradient'] = tolg

    def make(cfg, tmp):
        grid, model = simgen.build_model(ps)
        if named:
            ps_ = dict(ps, frequencies={f'{f_:.3f}Hz': f_
                                        for f_ in ps['frequencies']})
        else:
            ps_ = ps
        sv = simgen.build_survey(ps_, data=obs.copy())
        kw = {'max_workers': cfg['max_workers']}
        if gridding == 'dict':
            kw.update(gridding='dict', gridding_opts=grids(sv, grid))
        if cfg['file']:
            kw['file_dir'] = tmp
        if tolg:
            kw['solver_opts'] = {'tol_gradient': tolg}
        return simgen.simulation(sv, model, tol=1e-7, **kw), sv

    orig_tqdm = mp.tqdm
    # ---- sequential in-memory reference (no log, no delays)
    SCHED.update(log=None, lock=None, delays=None)
    simr, _ = make({'max_workers': 1, 'file': False}, None)

    def own(sim):
        # Every slot of the sequential run holds the result of its *own*
        # task: the stored forward / back-propagated field solves the system
        # of that source (residual source) at that frequency.  (Comparing
        # the other runs with this one says nothing about a slot mix-up that
        # all execution modes share.)
        if gridding != 'same':
            return
        tg = tolg or 1e-7
        for s_, f_ in sim._srcfreq:
            fq = float(sim.survey.frequencies[f_])
            op = gen.build_refop(ps['gs'], ps['ms'], fq)
            for what, rhs, tl in (
                    ('efield', emg3d.fields.get_source_field(
                        sim.model.grid, sim.survey.sources[s_], fq), 1e-7),
                    ('bfield', sim._get_rfield(s_, f_), tg)):
                info = sim._dict_get(what + '_info', s_, f_)
                if info is None or info['exit'] != 0:
                    continue          # reported as not converged
                e_ = np.array(sim._dict_get(what, s_, f_).field)
                sv_ = np.array(rhs.field)
                nrm = float(np.linalg.norm(sv_[op.interior]))
                if nrm == 0:
                    continue
                q = float(np.linalg.norm((sv_ - op.A @ e_)[op.interior]))/nrm
                rec.event('slot_ownership_checks')
                rec.margin('slot_residual_over_tol', q/tl)
                if not (q <= 50*tl):
                    rec.violation(
                        'C11:slot-holds-foreign-result',
                        f'sequential run: {what}[{s_}, {f_}] does not solve '
                        f'the system of its own source and frequency '
                        f'(relative residual {q:.3e}, tolerance {tl:.0e})',
                        base)
                    return

    try:
        ref = observables(simr, v, own)
    except Exception as e:  # noqa
        import traceback
        tb = traceback.extract_tb(e.__traceback__)
        if tb and os.sep + 'emg3d' + os.sep in tb[-1].filename and \
                os.sep + 'vf' + os.sep not in tb[-1].filename:
            # the sequential in-memory run of a valid survey raises inside
            # emg3d: no result at all, for any schedule
            rec.case()
            rec.violation(f'C11:sequential-run-raises-{type(e).__name__}',
                          f'{type(e).__name__}: {e} in '
                          f'{tb[-1].filename.split(os.sep)[-1]}:{tb[-1].lineno}'
                          f' ({tb[-1].name}); gridding={gridding}', base)
            return
        raise
    rec.case()
    # tasks must be distinguishable (unique-value trick)
    if len(set(ref['efield'].values())) != ntask:
        rec.inconclusive('task fields not pairwise distinct', base)
        return
    if not simgen.all_converged(simr):
        rec.event('skipped_solver_not_converged')
        return
    # repeating the computation changes nothing
    simr.compute()
    rec.event('repeat_checks')
    if bits(simr.data.synthetic.data) != ref['synthetic']['all']:
        rec.violation('C11:repeat-changes-result', 'a second compute() '
                      'changed data.synthetic of the sequential run', base)

    for cfg in cfgs:
        case = dict(base, cfg=cfg)
        tmp = tempfile.mkdtemp(prefix='vf-c11-')
        try:
            SCHED.update(log=os.path.join(tmp, 'events.log'),
                         lock=os.path.join(tmp, 'tickets'),
                         delays=delays_for(cfg['schedule'], ntask, r))
            mp.tqdm = orig_tqdm if cfg['tqdm'] else None
            fdir = os.path.join(tmp, 'files.v1')
            sim, sv = make(cfg, fdir)
            out = observables(sim, v)
            rec.case()
            rec.event('parallel_runs')
            # ---- worker log
            ev = [ln.split(' ', 4) for ln in
                  open(SCHED['log']).read().splitlines()]
            starts = [e for e in ev if e[0] == 'start']
            ends = [e for e in ev if e[0] == 'end']
            pids = {e[2] for e in ev}
            if not ev:
                rec.inconclusive('worker wrapper not reached (start method?)',
                                 case)
                continue
            rec.event('worker_events', len(ev))
            # four phases (forward, back-propagation, jvec, second
            # forward) x ntask
            if len(starts) != 4*ntask or len(ends) != 4*ntask:
                rec.violation('C11:task-count', f'{len(starts)} starts / '
                              f'{len(ends)} ends for {4*ntask} tasks', case)
            for phase in range(4):
                st = [e for e in starts if phase*ntask <= int(e[1]) <
                      (phase+1)*ntask]
                en = [e for e in ends if phase*ntask <= int(e[1]) <
                      (phase+1)*ntask]
                idents = [e[4] for e in st]
                rec.event('exactly_once_checks')
                if len(set(idents)) != len(idents) or sorted(idents) != sorted(
                        e[4] for e in en):
                    rec.violation('C11:task-not-exactly-once',
                                  f'phase {phase}: started {idents}, ended '
                                  f'{[e[4] for e in en]}', case)
                order_s = [int(e[1]) for e in sorted(st, key=lambda e:
                                                     float(e[3]))]
                order_e = [int(e[1]) for e in sorted(en, key=lambda e:
                                                     float(e[3]))]
                differs = order_e != sorted(order_e)
                rec.extra_add('phases_total')
                if differs:
                    rec.extra_add('phases_with_nonidentity_completion')
                    rec.extra_set('completion_orders',
                                  ['-'.join(str(x - phase*ntask)
                                            for x in order_e)])
                if differs or cfg['max_workers'] == 1:
                    rec.distinct((cfg['max_workers'], cfg['tqdm'],
                                  cfg['file'], cfg['schedule'], phase,
                                  gridding, tolg is not None))
                _ = order_s
            rec.extra_set('gridding_seen', [gridding])
            rec.extra_set('pool_sizes_seen', [f"{cfg['max_workers']}:"
                                              f"{len(pids)}pids"])
            # ---- bit identity of every slot
            for name, slots in ref.items():
                for slot, b in slots.items():
                    rec.event('slot_comparisons')
                    if out[name][slot] != b:
                        # find where the value went, if anywhere
                        where = [s for s, bb in ref[name].items()
                                 if bb == out[name][slot] and s != slot]
                        a1 = np.frombuffer(out[name][slot], dtype=np.uint8)
                        a2 = np.frombuffer(b, dtype=np.uint8)
                        nd = int(np.count_nonzero(a1 != a2)) if \
                            a1.size == a2.size else -1
                        key = ('C11:result-in-wrong-slot' if where else
                               'C11:result-differs-from-sequential')
                        rec.violation(key, f'{name}[{slot}] differs from the '
                                      f'sequential in-memory run ({nd} bytes'
                                      f'); same bytes found in slots {where}; '
                                      f'cfg={cfg}', case)
            rec.sample({'cfg': cfg, 'tasks': ntask, 'pool_pids': len(pids),
                        'completion_order_forward':
                        [int(e[1]) for e in sorted(
                            [e for e in ends if int(e[1]) < ntask],
                            key=lambda e: float(e[3]))]})
        finally:
            mp.tqdm = orig_tqdm
            SCHED.update(log=None, lock=None, delays=None)
            shutil.rmtree(tmp, ignore_errors=True)
    _ = emg3d


def run_batch(batch):
    rec = common.Rec(max_samples=3)
    for i in range(batch['n']):
        try:
            run_config(rec, batch['seed'], batch['k'], i, batch['tier'])
        except IndexError:
            raise
        except Exception:  # noqa
            import traceback
            rec.inconclusive('harness/emg3d exception: ' +
                             traceback.format_exc()[-900:],
                             {'k': batch['k'], 'i': i})
    return rec.result()


def finalize(merged, tier):
    common.require_events(merged, {'parallel_runs': 20,
                                   'slot_comparisons': 500,
                                   'worker_events': 1000,
                                   'exactly_once_checks': 60})
    n = merged['extra'].get('n_completion_orders',
                            len(merged['extra'].get('set:completion_orders',
                                                    [])))
    if n < 3:
        merged['inconclusive'].append(
            {'reason': f'only {n} distinct non-identity completion orders '
                       'observed: schedules not exercised', 'case': None})
