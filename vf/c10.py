"""C10 - sources inject exactly their nominal moment in their nominal direction.

Monitor at the client boundary of ``emg3d.get_source_field`` (Tx* instances and
raw tuple/list/ndarray inputs, frequency / Laplace / frequency-free) and of the
conversion helpers in ``emg3d.electrodes``.  Oracle: a reference model written
from the property statement only (vector sums, my own slab clipping of every
wire segment against the inflated cell boxes, my own cos/sin/atan2 formulas,
cross products for the loop); it shares no code with emg3d.fields /
emg3d.electrodes.

Clauses (monitor names in brackets)
  sums      per component, sum(vec) = strength * (last - first electrode)
            (dipoles, wires, closed loops -> 0)            [sum_checks]
            point: strength * (cos az cos el, sin az cos el, sin el)
                                                           [point_sum_checks]
  scaling   field(f) = -s mu0 * vec, s = 2 i pi f / -f     [scaling_checks]
  support   every non-zero edge is an edge of a cell whose closed box
            (inflated by 2 nm) is hit by a wire segment    [support_checks]
            point: edge lies inside the trilinear stencil  [point_support..]
  finite    the vector holds no NaN/Inf                    [finite_checks]
  convert   electrodes -> (centre, az, el, L) -> electrodes; angles -> dipole
            -> angles; the three Dipole formats expose the same electrodes
                                                           [roundtrip_*]
  loop      TxMagneticDipole.points closed, planar, square, area = length,
            right-handed normal = dipole direction         [loop_checks]
The "Normalizing Source" warning is counted in the evidence, never judged.
"""
import math
import warnings
import numpy as np
from vf import common, gen

PROP = 'C10'
NEEDS_JIT = False
TIMEOUT = {'quick': 900, 'thorough': 3000}
RULE = ("seeded sources on random stretched grids (2..8 cells per direction, "
        "thorough to 16): TxElectricDipole in its three coordinate formats, "
        "TxElectricWire with 3..8 electrodes (some closed), TxElectricPoint, "
        "TxMagneticDipole, raw tuple/list/ndarray inputs; electrode classes "
        "free / snapped onto nodes, edges, faces, cell centres / axis-aligned "
        "(Manhattan) / inside a node plane (incl. the lower boundary plane) / "
        "tiny / grid-spanning / inside an UPPER boundary plane (own class); "
        "real and complex strength; frequency, Laplace, frequency-free; plus "
        "the complete set of dipoles between lattice points (nodes and cell "
        "centres) of one small stretched grid (2x2x2; thorough 3x3x2), and "
        "seeded conversion/loop cases over the full angle ranges incl. the "
        "special angles; distinct = (source type, format, electrode class, "
        "number of electrodes, frequency kind, strength kind) tuples whose "
        "vector reached the sum oracle, plus (conversion kind, angle class)")
ASSUMPTIONS = [
    "'inside the grid' includes the outer boundary (closed box): emg3d's own "
    "guard accepts such electrodes (it raises only for coordinates strictly "
    "outside), the lower boundary planes work and _point_vector handles the "
    "upper one explicitly",
    "complex strength is generated with frequency > 0 only: emg3d raises a "
    "numpy casting error for a complex strength in the Laplace domain / "
    "frequency-free call (counted in the evidence, not judged)",
    "Laplace parameter s = 2 i pi f (f > 0), s = -f (f < 0), mu_0 from "
    "scipy.constants (same convention as reference model R1 / C02)",
    "sum tolerance |strength| (1e-8 + 1e-9 L): emg3d rounds coordinates to "
    "nanometres (<= 1e-9 per component); rounding of the weights is ~1e-15 L",
    "support of a point source is judged against the stencil of trilinear "
    "interpolation with linear extrapolation in the outermost half cells "
    "(documented in get_source_field), TxMagneticPoint is left to C09",
    "the rotation of the square loop about its normal is not prescribed; the "
    "support oracle of a magnetic dipole uses the loop corners returned by "
    "emg3d after they passed the independent loop-geometry check",
    "the distribution of the weights inside the touched cells is not part of "
    "the property and is not judged (only sums and support); a wrong "
    "distribution hidden by the run-time re-normalisation stays invisible",
    "sampled, not exhaustive, except the lattice dipoles of one small grid",
]

EPS = np.finfo(float).eps
INFL = 2e-9            # inflation of cell boxes (emg3d rounds to 1e-9)
SPECIAL_AZ = [-135.0, -90.0, -45.0, 0.0, 30.0, 45.0, 90.0, 135.0, 180.0]
SPECIAL_EL = [-90.0, -45.0, 0.0, 30.0, 45.0, 90.0]
K_UPPER = 'C10:nan-segment-in-upper-boundary-plane'


# --------------------------------------------------------------------------
# Plan
def plan(tier, seed):
    out = []
    # importing emg3d costs a worker several seconds: few, large batches
    if tier == 'quick':
        nsrc, per = 10, 2000         # 20 000 sources
        nconv, cper = 2, 6000        # 12 000 conversion cases
        nenum = 3
    else:
        nsrc, per = 40, 4000         # 160 000 sources (~25 CPU-minutes)
        nconv, cper = 6, 20000       # 120 000 conversion cases
        nenum = 12                   # 59 780 lattice dipoles
    for k in range(nsrc):
        out.append({'id': f'src{k}', 'mode': 'src', 'k': k, 'n': per})
    for k in range(nconv):
        out.append({'id': f'conv{k}', 'mode': 'conv', 'k': 1000+k, 'n': cper})
    for k in range(nenum):
        out.append({'id': f'enum{k}', 'mode': 'enum', 'k': k, 'of': nenum})
    return out


# --------------------------------------------------------------------------
# Reference model
def ref_rotation(az, el):
    """Unit direction for azimuth/elevation in degrees."""
    a, e = math.radians(az), math.radians(el)
    return np.array([math.cos(a)*math.cos(e), math.sin(a)*math.cos(e),
                     math.sin(e)])


def ref_angles(d):
    """(azimuth, elevation, length) of a vector, degrees."""
    dx, dy, dz = (float(v) for v in d)
    return (math.degrees(math.atan2(dy, dx)),
            math.degrees(math.atan2(dz, math.hypot(dx, dy))),
            math.sqrt(dx*dx + dy*dy + dz*dz))


def ref_sval(frequency):
    return 2j*math.pi*frequency if frequency > 0 else float(-frequency)


def ref_nodes(gs):
    return [np.r_[0.0, np.cumsum(np.asarray(gs[h], float))] + gs['origin'][d]
            for d, h in enumerate(('hx', 'hy', 'hz'))]


def touched_cells(nodes, segments, infl=INFL):
    """Cells whose closed, inflated box is hit by one of the segments."""
    shape = tuple(len(n)-1 for n in nodes)
    # my nodes (origin + cumsum) and the mesh's may differ by a few ulp
    infl = infl + 64*EPS*max(float(np.abs(n).max()) for n in nodes)
    T = np.zeros(shape, bool)
    for p0, p1 in segments:
        lows, highs = [], []
        for d in range(3):
            lo = nodes[d][:-1] - infl
            hi = nodes[d][1:] + infl
            dd = float(p1[d] - p0[d])
            if dd == 0.0:
                inside = (p0[d] >= lo) & (p0[d] <= hi)
                t0 = np.where(inside, -np.inf, np.inf)
                t1 = np.where(inside, np.inf, -np.inf)
            else:
                ta = (lo - p0[d])/dd
                tb = (hi - p0[d])/dd
                t0 = np.minimum(ta, tb)
                t1 = np.maximum(ta, tb)
            lows.append(t0)
            highs.append(t1)
        tmin = np.maximum(np.maximum(lows[0][:, None, None],
                                     lows[1][None, :, None]),
                          lows[2][None, None, :])
        tmax = np.minimum(np.minimum(highs[0][:, None, None],
                                     highs[1][None, :, None]),
                          highs[2][None, None, :])
        T |= np.maximum(tmin, 0.0) <= np.minimum(tmax, 1.0)
    return T


def allowed_edges(T):
    """Edges (x, y, z arrays) that belong to at least one cell of T."""
    out = []
    for d in range(3):
        pad = [(1, 1)]*3
        pad[d] = (0, 0)
        P = np.pad(T, pad, constant_values=False)
        a, b = [x for x in range(3) if x != d]
        acc = None
        for sa in (slice(None, -1), slice(1, None)):
            for sb in (slice(None, -1), slice(1, None)):
                idx = [slice(None)]*3
                idx[a] = sa
                idx[b] = sb
                part = P[tuple(idx)]
                acc = part if acc is None else (acc | part)
        out.append(acc)
    return out


def point_allowed(nodes, xyz, infl=1e-9):
    """Edges inside the stencil of trilinear interpolation around a point.

    Per direction an index i of the 1-D location vector v (cell centres in the
    edge's own direction, nodes otherwise) is allowed if the point lies in
    [v[i-1], v[i+1]]; the two outermost indices on each side are open-ended
    (linear extrapolation in the outermost half cell).
    """
    def one(v, c):
        n = len(v)
        lo = np.r_[-np.inf, v[:-1]] - infl
        hi = np.r_[v[1:], np.inf] + infl
        if n > 1:
            lo[1] = -np.inf
            hi[n-2] = np.inf
        return (c >= lo) & (c <= hi)
    infl = infl + 64*EPS*max(float(np.abs(n).max()) for n in nodes)
    cc = [(n[:-1] + n[1:])/2 for n in nodes]
    out = []
    for d in range(3):
        masks = [one(cc[q] if q == d else nodes[q], xyz[q]) for q in range(3)]
        out.append(masks[0][:, None, None] & masks[1][None, :, None] &
                   masks[2][None, None, :])
    return out


def in_upper_plane(points, nodes):
    """Does a segment lie entirely in the last node plane of a direction?"""
    pts = np.round(np.asarray(points, float), 9)
    for d in range(3):
        # np.round for both (Python's round() is correctly rounded, np.round
        # scales and uses rint: the two can differ in the last bit)
        last = np.round(np.asarray(nodes[d], float), 9)[-1]
        on = pts[:, d] == last
        if np.any(on[:-1] & on[1:]):
            return True
    return False


def loop_geometry(pts, centre, direction, area, scale_in=0.0):
    """List of (what, value, tolerance) for the square-loop clause.

    ``scale_in``: largest coordinate handed to emg3d (two electrodes `area`
    apart can lie far away from the loop; their rounding limits the accuracy
    of the centre / direction / length emg3d can recover from them).
    """
    pts = np.asarray(pts, float)
    centre = np.asarray(centre, float)
    side = math.sqrt(area)
    scale = max(float(np.abs(centre).max()), float(scale_in)) + side
    tl = 256*EPS*scale                     # a length / coordinate
    ta = 256*EPS*scale*side + 256*EPS*area  # an area / product of two sides
    res = []
    if pts.shape != (5, 3):
        return [('shape', float('nan'), 0.0)]
    res.append(('closed', float(np.abs(pts[4] - pts[0]).max()), tl))
    s = np.diff(pts, axis=0)
    for k in range(4):
        res.append((f'side{k}-length', abs(float(np.linalg.norm(s[k])) - side),
                    tl))
        res.append((f'corner{k}-right-angle',
                    abs(float(s[k] @ s[(k+1) % 4])), ta))
        res.append((f'side{k}-in-plane', abs(float(s[k] @ direction)), tl))
    rel = pts[:4] - centre
    res.append(('centred', float(np.abs(rel.mean(axis=0)).max()), tl))
    varea = 0.5*sum(np.cross(rel[k], rel[(k+1) % 4]) for k in range(4))
    res.append(('vector-area', float(np.abs(varea - area*direction).max()),
                ta))
    return res


# --------------------------------------------------------------------------
# Generators
def pick_angle(r, special, lo, hi, p_special=0.3):
    if r.random() < p_special:
        return float(gen.choice(r, special))
    return float(r.uniform(lo, hi))


def coord(r, n, snap):
    """One coordinate inside [n[0], n[-1]]; snapped = node or cell centre."""
    if snap and r.random() < 0.6:
        if r.random() < 0.75:
            return float(n[int(r.integers(len(n)))])
        i = int(r.integers(len(n)-1))
        return float((n[i] + n[i+1])/2)
    return float(r.uniform(n[0], n[-1]))


def gen_points(r, nodes, m, cls):
    """m electrodes of class ``cls`` inside the grid (nodes from emg3d)."""
    if cls == 'free':
        return np.array([[coord(r, nodes[d], False) for d in range(3)]
                         for _ in range(m)])
    if cls == 'snap':
        return np.array([[coord(r, nodes[d], True) for d in range(3)]
                         for _ in range(m)])
    if cls == 'axis':
        pts = [[coord(r, nodes[d], r.random() < 0.5) for d in range(3)]]
        for _ in range(m-1):
            p = list(pts[-1])
            d = int(r.integers(3))
            p[d] = coord(r, nodes[d], r.random() < 0.5)
            pts.append(p)
        return np.array(pts)
    if cls in ('plane', 'lower-plane', 'upper-plane'):
        d = int(r.integers(3))
        n = nodes[d]
        k = (0 if cls == 'lower-plane' else len(n)-1 if cls == 'upper-plane'
             else int(r.integers(0, len(n)-1)))
        snap = r.random() < 0.4
        pts = np.array([[coord(r, nodes[q], snap) for q in range(3)]
                        for _ in range(m)])
        pts[:, d] = n[k]
        return pts
    if cls == 'tiny':
        # consecutive electrodes 1e-6 .. 1 m apart (may straddle a node)
        p = [coord(r, nodes[d], r.random() < 0.3) for d in range(3)]
        pts = [p]
        for _ in range(m-1):
            step = ref_rotation(r.uniform(-180, 180), r.uniform(-90, 90))
            q = np.array(pts[-1]) + step*10.0**r.uniform(-6, 0)
            for d in range(3):
                q[d] = min(max(q[d], nodes[d][0]), nodes[d][-1])
            pts.append(list(q))
        return np.array(pts)
    if cls == 'span':
        # from one corner region to the opposite one, corners included
        pts = []
        flip = [r.random() < 0.5 for _ in range(3)]
        for j in range(m):
            p = []
            for d in range(3):
                n = nodes[d]
                t = j/(m-1)
                if flip[d]:
                    t = 1-t
                if j in (0, m-1) and r.random() < 0.6:
                    p.append(float(n[0] if t == 0 else n[-1]))
                else:
                    w = 0.2*(n[-1]-n[0])
                    c = n[0] + t*(n[-1]-n[0]) + r.uniform(-w, w)
                    p.append(float(min(max(c, n[0]), n[-1])))
            pts.append(p)
        return np.array(pts)
    raise ValueError(cls)


def degenerate(pts):
    """Two consecutive electrodes coincide after nanometre rounding."""
    p = np.round(np.asarray(pts, float), 9)
    return bool(np.any(np.all(p[1:] == p[:-1], axis=1)))


CLASSES = ['free']*30 + ['snap']*25 + ['axis']*20 + ['plane']*6 + \
    ['lower-plane']*4 + ['tiny']*4 + ['span']*5 + ['upper-plane']*6


def gen_src_case(r, nodes, tier):
    """Source description (JSON-able) for one case."""
    c = {}
    u = r.random()
    c['stype'] = ('dipole' if u < 0.33 else 'wire' if u < 0.60 else
                  'point' if u < 0.75 else 'mdipole' if u < 0.87 else 'raw')
    # strength / frequency
    u = r.random()
    fk = 'none' if u < 0.3 else 'freq' if u < 0.75 else 'laplace'
    mag = float(10.0**r.uniform(-2, 3))*(1 if r.random() < 0.7 else -1)
    if fk == 'freq' and r.random() < 0.35:
        ph = r.uniform(-math.pi, math.pi)
        c['strength'] = complex(mag*math.cos(ph), mag*math.sin(ph))
    else:
        c['strength'] = mag if r.random() < 0.85 else 1.0
    f = float(10.0**r.uniform(-3, 3))
    c['frequency'] = None if fk == 'none' else f if fk == 'freq' else -f
    c['fkind'] = fk

    ext = [float(n[-1]-n[0]) for n in nodes]
    stype = c['stype']
    if stype == 'raw':
        c['raw'] = gen.choice(r, ['tuple5', 'list6', 'array23', 'arrayN3',
                                  'tuple5-magnetic', 'array23-magnetic',
                                  'listN3'])
        stype = ('mdipole' if 'magnetic' in c['raw'] else
                 'wire' if 'N3' in c['raw'] else 'dipole')
        c['fmt'] = {'tuple5': 'point5', 'list6': 'flat6', 'array23': '2x3',
                    'tuple5-magnetic': 'point5', 'array23-magnetic': '2x3',
                    'arrayN3': 'nx3', 'listN3': 'nx3'}[c['raw']]
    c['kind'] = stype

    if stype == 'point':
        c['cls'] = gen.choice(r, ['free', 'free', 'snap', 'snap', 'corner'])
        if c['cls'] == 'corner':
            p = [float(n[0] if r.random() < 0.5 else n[-1]) for n in nodes]
            if r.random() < 0.5:
                d = int(r.integers(3))
                p[d] = coord(r, nodes[d], False)
        else:
            p = [coord(r, nodes[d], c['cls'] == 'snap') for d in range(3)]
        c['coords'] = p + [pick_angle(r, SPECIAL_AZ, -180, 180),
                           pick_angle(r, SPECIAL_EL, -90, 90)]
        c['fmt'] = 'point5'
        c['m'] = 1
        return c

    if stype == 'mdipole':
        # the loop (half diagonal sqrt(area/2)) has to stay inside the grid
        c['cls'] = gen.choice(r, ['free', 'free', 'snap'])
        if 'fmt' not in c:
            c['fmt'] = gen.choice(r, ['point5', '2x3', 'flat6'])
        for _ in range(50):
            ctr = [coord(r, nodes[d], c['cls'] == 'snap') for d in range(3)]
            room = min(min(ctr[d]-nodes[d][0], nodes[d][-1]-ctr[d])
                       for d in range(3))
            if room > 1e-3*min(ext):
                break
        else:
            ctr = [float((n[0]+n[-1])/2) for n in nodes]
            room = min(ext)/2
        # emg3d rejects electrodes (here: loop corners) that are np.allclose
        # (rtol 1e-5 of the coordinate); stay clear of that rejection.
        maxabs = max(max(abs(n[0]), abs(n[-1])) for n in nodes)
        need = 1e-4*(maxabs + 1.0)
        hd = max(room*r.uniform(0.05, 0.98), min(0.9*room, need))
        if hd < need:
            # too small a loop for the two-electrode formats: centre format
            c['fmt'] = 'point5'
            if 'raw' in c:
                c['raw'] = 'tuple5-magnetic'
        area = 2*hd*hd
        az = pick_angle(r, SPECIAL_AZ, -180, 180)
        el = pick_angle(r, SPECIAL_EL, -90, 90)
        c['centre'], c['az'], c['el'], c['length'] = ctr, az, el, area
        if c['fmt'] == 'point5':
            c['coords'] = ctr + [az, el]
        else:
            # two electrodes `area` apart; they may lie outside the grid,
            # only the loop matters
            e = np.array(ctr) + np.outer([-0.5, 0.5], ref_rotation(az, el))*area
            c['coords'] = (e.ravel('F') if c['fmt'] == 'flat6' else e).tolist()
        c['m'] = 5
        return c

    # dipoles and wires
    if stype == 'dipole':
        m = 2
        if 'fmt' not in c:
            c['fmt'] = gen.choice(r, ['2x3', '2x3', 'flat6', 'point5'])
    else:
        m = int(r.integers(3, 9))
        c['fmt'] = 'nx3'
        if 'raw' not in c and r.random() < 0.25:
            m = 2                      # a wire with two electrodes
    c['cls'] = gen.choice(r, CLASSES)
    for _ in range(100):
        pts = gen_points(r, nodes, m, c['cls'])
        if degenerate(pts):
            continue
        if c['cls'] != 'upper-plane' and in_upper_plane(pts, nodes):
            continue
        break
    else:
        c['cls'] = 'free'
        pts = gen_points(r, nodes, m, 'free')
    if stype == 'dipole' and np.allclose(pts[0], pts[1]):
        # TxElectricDipole rejects (ValueError) electrodes that are
        # np.allclose; a two-electrode wire is accepted
        c.pop('raw', None)
        c['stype'] = c['kind'] = stype = 'wire'
        c['fmt'] = 'nx3'
    c['closed'] = False
    if stype == 'wire' and m >= 4 and r.random() < 0.2:
        pts[-1] = pts[0]
        c['closed'] = True
        if degenerate(pts) or (c['cls'] != 'upper-plane' and
                               in_upper_plane(pts, nodes)):
            pts = gen_points(r, nodes, m, 'free')
            pts[-1] = pts[0]
            c['cls'] = 'free'
    c['m'] = m
    c['points'] = pts.tolist()
    if c['fmt'] == 'point5':
        # hand the dipole over as centre / angles / length
        az, el, L = ref_angles(pts[1] - pts[0])
        c['centre'] = ((pts[0] + pts[1])/2).tolist()
        c['az'], c['el'], c['length'] = az, el, L
        c['coords'] = c['centre'] + [az, el]
    elif c['fmt'] == 'flat6':
        c['coords'] = pts.ravel('F').tolist()
    else:
        c['coords'] = pts.tolist()
    return c


# --------------------------------------------------------------------------
# Driving emg3d
def build_source(c):
    """(source argument, kwargs) for emg3d.get_source_field."""
    import emg3d
    st = c['strength']
    kind = c['kind']
    if 'raw' in c:
        kw = {'strength': st}
        if c['fmt'] == 'point5':
            kw['length'] = c['length']
        if 'magnetic' in c['raw']:
            kw['electric'] = False
        raw = c['raw']
        if raw.startswith('tuple'):
            src = tuple(c['coords'])
        elif raw.startswith('list'):
            src = [list(p) if isinstance(p, (list, tuple)) else p
                   for p in c['coords']]
        else:
            src = np.array(c['coords'], dtype=float)
        return src, kw
    if kind == 'point':
        return emg3d.TxElectricPoint(tuple(c['coords']), strength=st), {}
    cls = {'dipole': emg3d.TxElectricDipole, 'mdipole': emg3d.TxMagneticDipole,
           'wire': emg3d.TxElectricWire}[kind]
    if kind == 'wire':
        return cls(np.array(c['coords']), strength=st), {}
    if c['fmt'] == 'point5':
        return cls(tuple(c['coords']), strength=st, length=c['length']), {}
    return cls(np.array(c['coords']), strength=st), {}


def call_gsf(grid, src, frequency, kw):
    """emg3d.get_source_field at the client boundary; returns the three
    component arrays and the number of 'Normalizing Source' warnings."""
    import emg3d
    with warnings.catch_warnings(record=True) as w:
        warnings.simplefilter('always')
        sf = emg3d.get_source_field(grid, src, frequency, **kw)
    nw = sum('Normalizing Source' in str(x.message) for x in w)
    return [np.array(sf.fx), np.array(sf.fy), np.array(sf.fz)], nw, sf


def unit_twin(c):
    t = dict(c)
    t['strength'] = 1.0
    return t


def check_source(rec, grid, gs, c, case):
    """Run one source through get_source_field and judge it."""
    from scipy.constants import mu_0
    nodes = ref_nodes(gs)
    # classification of the input (not the oracle): the mesh's own nodes, the
    # values the generator snapped electrodes to
    gnodes = [np.array(grid.nodes_x), np.array(grid.nodes_y),
              np.array(grid.nodes_z)]
    st = c['strength']
    f = c['frequency']
    cplx = isinstance(st, complex)
    kind = c['kind']

    # ---- the calls, at the client boundary
    try:
        src, kw = build_source(c)
        loop_pts = None
        if kind == 'mdipole' and 'raw' not in c:
            loop_pts = np.array(src.points, dtype=float)
        if cplx:
            tsrc, tkw = build_source(unit_twin(c))
            unit, nw, _ = call_gsf(grid, tsrc, None, tkw)
            field, nw2, sfo = call_gsf(grid, src, f, kw)
            vec = None
        else:
            vec, nw, sfo = call_gsf(grid, src, None, kw)
            field = None
            if f is not None:
                field, nw2, sfo = call_gsf(grid, src, f, kw)
    except Exception as e:  # noqa - no outcome promised for an exception
        rec.case()
        rec.inconclusive(f'get_source_field raised {type(e).__name__}: {e}',
                         case)
        return
    rec.case()
    rec.event('get_source_field_calls', 1 if (f is None and not cplx) else 2)
    if nw:
        rec.extra_add('sources_with_normalizing_warning')
        rec.extra_add('normalizing_warnings', nw)
        rec.extra_set('normalizing_warning_classes', [c.get('cls')])

    # ---- geometry of the wire as the oracle sees it
    if kind == 'point':
        segs = None
        az, el = c['coords'][3], c['coords'][4]
        want = ref_rotation(az, el)
        Ltot = 1.0
    elif kind == 'mdipole':
        if loop_pts is None:
            # raw input: emg3d builds the Tx object internally; take the loop
            # of the equivalent Tx object (its geometry is judged below)
            import emg3d
            if c['fmt'] == 'point5':
                o = emg3d.TxMagneticDipole(tuple(c['coords']),
                                           length=c['length'])
            else:
                o = emg3d.TxMagneticDipole(np.array(c['coords']))
            loop_pts = np.array(o.points, dtype=float)
        geo = loop_geometry(loop_pts, c['centre'],
                            ref_rotation(c['az'], c['el']), c['length'],
                            float(np.abs(np.array(c['coords']).ravel()[:3]
                                         if c['fmt'] == 'point5' else
                                         np.array(c['coords'])).max()))
        rec.event('loop_checks')
        bad = [(w_, v, t) for (w_, v, t) in geo if not (v <= t)]
        for w_, v, t in geo:
            if t > 0:
                rec.margin('loop_dev_over_tol', v/t)
        if bad:
            rec.violation('C10:magnetic-loop-geometry',
                          'TxMagneticDipole.points is not the closed planar '
                          'square loop of area=length with right-handed '
                          f'normal = dipole direction: {bad[:4]}', case)
            return
        pts = loop_pts
        segs = list(zip(pts[:-1], pts[1:]))
        want = np.zeros(3)
        Ltot = float(np.linalg.norm(np.diff(pts, axis=0), axis=1).sum())
    else:
        pts = np.array(c['points'], dtype=float)
        segs = list(zip(pts[:-1], pts[1:]))
        want = pts[-1] - pts[0]
        Ltot = float(np.linalg.norm(np.diff(pts, axis=0), axis=1).sum())
    case['expected_sum_over_strength'] = want

    # ---- finite
    rec.event('finite_checks')
    upper = segs is not None and in_upper_plane(pts, gnodes)
    if upper:
        rec.extra_add('sources_with_segment_in_upper_boundary_plane')
    arrays = [a for a in ((vec or []) + (field or []))]
    if cplx:
        arrays += unit
    if not all(np.all(np.isfinite(a)) for a in arrays):
        nnan = int(sum(np.count_nonzero(~np.isfinite(a)) for a in arrays))
        ntot = int(sum(a.size for a in arrays))
        if upper:
            rec.extra_add('upper_plane_nonfinite')
            rec.violation(K_UPPER, 'a wire segment lying in the last node '
                          'plane of a direction (accepted as inside the grid) '
                          f'gives a non-finite source vector ({nnan} of {ntot}'
                          ' entries); the first node plane works', case)
        else:
            rec.violation('C10:nonfinite-source-vector',
                          f'{nnan} of {ntot} entries of the source vector are '
                          'NaN/Inf', case)
        return

    # ---- scaling: field = -s mu0 strength vec
    if f is not None:
        fac = -ref_sval(f)*mu_0
        base = unit if cplx else vec
        mult = fac*st if cplx else fac
        worst = 0.0
        for a, b in zip(field, base):
            ref = b*mult
            err = np.abs(a - ref)
            den = np.abs(ref)
            nz = den > 0
            if np.any(err[~nz] != 0):
                worst = float('inf')
            if np.any(nz):
                worst = max(worst, float((err[nz]/den[nz]).max()))
        rec.event('scaling_checks')
        rec.margin('scaling_rel_err_over_eps', worst/EPS)
        if not (worst <= 16*EPS):
            rec.violation('C10:field-not-minus-s-mu0-vec',
                          f'source field differs from -s mu0 strength vec by '
                          f'{worst:.3e} (relative, per edge); frequency {f}',
                          case)
        if cplx:
            vec_eff = [a/mult*st for a in field]   # = strength * unit
        else:
            vec_eff = vec
    else:
        vec_eff = vec

    # ---- sums
    sums = np.array([a.sum() for a in vec_eff])
    if kind == 'point':
        tol = 1e-12*abs(st)
        name, key = 'point_sum_checks', 'C10:point-sum-not-unit-direction'
    else:
        tol = abs(st)*(1e-8 + 1e-9*Ltot)
        name, key = 'sum_checks', 'C10:sum-not-electrode-vector'
    dev = float(np.abs(sums - st*want).max())
    rec.event(name)
    rec.margin(name[:-7] + '_dev_over_tol', dev/tol)
    case['sums'] = sums
    if not (dev <= tol):
        rec.violation(key, f'component sums {sums.tolist()} != strength x '
                      f'nominal vector {(st*want).tolist()} (dev {dev:.3e} > '
                      f'tol {tol:.3e}); normalizing warnings: {nw}', case)

    # ---- support
    if kind == 'point':
        allowed = point_allowed(nodes, c['coords'][:3])
        name, key = 'point_support_checks', 'C10:point-outside-stencil'
    else:
        allowed = allowed_edges(touched_cells(nodes, segs))
        name, key = 'support_checks', 'C10:edge-outside-touched-cells'
    rec.event(name)
    nbad = 0
    nnz = 0
    for a, al in zip(vec_eff, allowed):
        nzm = a != 0
        nnz += int(nzm.sum())
        nbad += int(np.count_nonzero(nzm & ~al))
    rec.event('nonzero_edges_judged', nnz)
    if nbad:
        rec.violation(key, f'{nbad} of {nnz} non-zero edges do not belong to '
                      'a cell touched by the wire' if kind != 'point' else
                      f'{nbad} of {nnz} non-zero edges lie outside the '
                      'interpolation stencil of the point', case)
    if nnz == 0 and (kind == 'point' or np.abs(want).max() > 1e-6):
        rec.violation('C10:empty-source-vector', 'no edge carries a '
                      'contribution', case)

    rec.distinct((c['stype'], c.get('raw', ''), c['fmt'], c.get('cls'),
                  c['m'], c['fkind'], 'complex' if cplx else 'real'))
    rec.extra_set('electrode_classes', [c.get('cls')])
    return True


def run_src(rec, batch):
    import emg3d
    seed, k, tier = batch['seed'], batch['k'], batch['tier']
    sizes = [2, 3, 3, 4, 4, 5, 6, 8] if tier == 'quick' else \
        [2, 3, 4, 5, 6, 8, 8, 10, 12, 16]
    only = batch.get('only')
    grid = gs = None
    for i in range(batch['n']):
        if only is not None and i != only:
            continue
        r = gen.rng(seed, 'C10', k, i)
        if grid is None or i % 4 == 0 or only is not None:
            rg = gen.rng(seed, 'C10', k, i - i % 4, 'grid')
            shape = tuple(int(gen.choice(rg, sizes)) for _ in range(3))
            gs = gen.grid_spec(rg, shape, same_base=rg.random() < 0.7)
            grid = gen.build_emg3d(gs)
        nodes = [np.array(grid.nodes_x), np.array(grid.nodes_y),
                 np.array(grid.nodes_z)]
        c = gen_src_case(r, nodes, tier)
        case = {'k': k, 'i': i, 'grid': gen.summarize_grid(gs), 'source': c}
        try:
            ok = check_source(rec, grid, gs, c, case)
        except Exception:  # noqa - harness error
            import traceback
            rec.inconclusive('harness error: ' + traceback.format_exc()[-900:],
                             case)
            continue
        if ok and i < 2:
            rec.sample({'shape': list(grid.shape_cells), 'stype': c['stype'],
                        'fmt': c['fmt'], 'cls': c.get('cls'),
                        'coords': c['coords'], 'strength': c['strength'],
                        'frequency': c['frequency'],
                        'sums': case.get('sums')})
    # complex strength in a real-valued call: outcome recorded, not judged
    if grid is not None and only is None:
        for f in (None, -1.0):
            try:
                emg3d.get_source_field(
                    grid, emg3d.TxElectricPoint(
                        (float(grid.nodes_x[1]), float(grid.nodes_y[1]),
                         float(grid.nodes_z[1]), 0, 0), strength=1+1j), f)
                rec.extra_add('complex_strength_real_call_returned')
            except Exception:  # noqa
                rec.extra_add('complex_strength_real_call_raised')


# --------------------------------------------------------------------------
# Complete lattice of dipoles on one small grid
def run_enum(rec, batch):
    import itertools
    seed, tier = batch['seed'], batch['tier']
    rg = gen.rng(seed, 'C10', 'enumgrid')
    shape = (2, 2, 2) if tier == 'quick' else (3, 3, 2)
    gs = gen.grid_spec(rg, shape, kind='jitter')
    grid = gen.build_emg3d(gs)
    nodes = [np.array(grid.nodes_x), np.array(grid.nodes_y),
             np.array(grid.nodes_z)]
    lat = []
    for n in nodes:
        v = np.empty(2*len(n)-1)
        v[0::2] = n
        v[1::2] = (n[:-1] + n[1:])/2
        lat.append(v)
    pts = list(itertools.product(*[range(len(v)) for v in lat]))
    pairs = [(a, b) for a in range(len(pts)) for b in range(len(pts))
             if a != b]
    mine = pairs[batch['k']::batch['of']]
    only = batch.get('only')
    for j, (a, b) in enumerate(mine):
        if only is not None and j != only:
            continue
        p = np.array([[lat[d][pts[a][d]] for d in range(3)],
                      [lat[d][pts[b][d]] for d in range(3)]])
        up = in_upper_plane(p, nodes)
        c = {'stype': 'dipole', 'kind': 'dipole', 'fmt': '2x3', 'm': 2,
             'cls': 'lattice-upper-plane' if up else 'lattice',
             'strength': 1.0, 'frequency': None, 'fkind': 'none',
             'points': p.tolist(), 'coords': p.tolist(),
             'lattice': [list(pts[a]), list(pts[b])]}
        case = {'enum': batch['k'], 'j': j, 'grid': gen.summarize_grid(gs),
                'source': c}
        try:
            check_source(rec, grid, gs, c, case)
        except Exception:  # noqa
            import traceback
            rec.inconclusive('harness error: ' + traceback.format_exc()[-900:],
                             case)
        rec.event('lattice_dipoles')
    rec.extra_add('lattice_pairs_total_' + 'x'.join(map(str, shape)),
                  len(pairs) if batch['k'] == 0 else 0)


# --------------------------------------------------------------------------
# Conversions
def run_conv(rec, batch):
    import emg3d
    from emg3d import electrodes as el_
    seed, k = batch['seed'], batch['k']
    only = batch.get('only')
    for i in range(batch['n']):
        if only is not None and i != only:
            continue
        r = gen.rng(seed, 'C10', k, i)
        centre = np.array([float(np.round(r.uniform(-1e4, 1e4), 3))
                           for _ in range(3)])
        if r.random() < 0.1:
            centre[:] = 0.0
        L = float(10.0**r.uniform(-3, 4))
        azs = r.random() < 0.35
        els = r.random() < 0.35
        az = float(gen.choice(r, SPECIAL_AZ)) if azs else \
            float(r.uniform(-180, 180))
        if az == -180.0:
            az = 180.0
        el = float(gen.choice(r, SPECIAL_EL)) if els else \
            float(r.uniform(-90, 90))
        acls = ('az-special' if azs else 'az-free') + '/' + (
            'vertical' if abs(el) == 90 else 'el-special' if els
            else 'el-free')
        case = {'k': k, 'i': i, 'centre': centre, 'az': az, 'el': el,
                'length': L}
        scale = float(np.abs(centre).max()) + L
        tolc = 64*EPS*scale                 # a coordinate
        told = tolc/L + 64*EPS              # a unit direction / rel. length
        d = ref_rotation(az, el)
        e_ref = centre + np.outer([-0.5, 0.5], d)*L
        which = i % 4
        rec.case()
        try:
            if which == 0:
                # rotation against cos/sin, degrees and radians
                got = np.asarray(el_.rotation(az, el), float)
                gotr = np.asarray(el_.rotation(math.radians(az),
                                               math.radians(el), deg=False),
                                  float)
                dev = max(float(np.abs(got - d).max()),
                          float(np.abs(gotr - d).max()))
                rec.event('rotation_checks')
                rec.margin('rotation_dev', dev)
                if not (dev <= 8*EPS):
                    rec.violation('C10:rotation', f'rotation({az},{el}) = '
                                  f'{got.tolist()} / rad {gotr.tolist()} != '
                                  f'{d.tolist()}', case)
                rec.distinct(('rotation', acls))
            elif which == 1:
                # angles -> electrodes -> angles
                dip = np.asarray(el_.point_to_dipole((*centre, az, el), L),
                                 float)
                dev = float(np.abs(dip - e_ref).max())
                rec.event('point_to_dipole_checks')
                rec.margin('point_to_dipole_dev_over_tol', dev/tolc)
                if not (dip.shape == (2, 3) and dev <= tolc):
                    rec.violation('C10:point-to-dipole', 'point_to_dipole '
                                  f'electrodes off by {dev:.3e} (tol '
                                  f'{tolc:.3e}): {dip.tolist()} vs '
                                  f'{e_ref.tolist()}', case)
                    continue
                az2, el2, L2 = (float(v) for v in el_.dipole_to_point(dip))
                d2 = ref_rotation(az2, el2)
                dev = max(float(np.abs(d2 - d).max()), abs(L2 - L)/L)
                rng_ok = (-180.0 < az2 <= 180.0) and (-90.0 <= el2 <= 90.0)
                rec.event('roundtrip_angle_checks')
                rec.margin('roundtrip_angle_dev_over_tol', dev/told)
                if not (dev <= told and rng_ok):
                    rec.violation('C10:angles-roundtrip', 'dipole_to_point('
                                  f'point_to_dipole(az={az}, el={el}, L={L}))'
                                  f' = ({az2}, {el2}, {L2}); direction/length '
                                  f'dev {dev:.3e} (tol {told:.3e}), in range: '
                                  f'{rng_ok}', case)
                # angles themselves, where they are well conditioned
                cel = math.cos(math.radians(el))
                if cel > 1e-3:
                    da = abs((az2 - az + 180.0) % 360.0 - 180.0)
                    de = abs(el2 - el)
                    tang = math.degrees(told)*4/cel + 1e-12
                    rec.event('roundtrip_angle_value_checks')
                    rec.margin('roundtrip_angle_value_over_tol',
                               max(da, de*cel)/tang)
                    if not (da <= tang and de <= tang):
                        rec.violation('C10:angles-roundtrip', 'angles not '
                                      f'returned: ({az}, {el}) -> ({az2}, '
                                      f'{el2}), tol {tang:.3e} deg', case)
                rec.distinct(('angles-roundtrip', acls))
            elif which == 2:
                # electrodes -> (centre, az, el, L) -> electrodes
                e0 = centre + r.uniform(-1, 1, 3)*L
                e1 = centre + r.uniform(-1, 1, 3)*L
                if r.random() < 0.3:        # axis aligned / in a plane
                    q = int(r.integers(3))
                    e1[q] = e0[q]
                    if r.random() < 0.5:
                        q2 = (q+1) % 3
                        e1[q2] = e0[q2]
                if np.allclose(e0, e1):
                    e1 = e0 + d*L
                dip = np.array([e0, e1])
                case['electrodes'] = dip
                az2, el2, L2 = (float(v) for v in el_.dipole_to_point(dip))
                raz, rel_, rL = ref_angles(e1 - e0)
                sc = float(np.abs(dip).max())
                tl = 64*EPS*(sc + rL)
                dd = max(float(np.abs(ref_rotation(az2, el2) -
                                      (e1-e0)/rL).max()), abs(L2-rL)/rL)
                rng_ok = (-180.0 < az2 <= 180.0) and (-90.0 <= el2 <= 90.0)
                rec.event('dipole_to_point_checks')
                rec.margin('dipole_to_point_dev_over_tol',
                           dd/(tl/rL + 64*EPS))
                if not (dd <= tl/rL + 64*EPS and rng_ok):
                    rec.violation('C10:dipole-to-point', 'dipole_to_point = '
                                  f'({az2}, {el2}, {L2}), expected ({raz}, '
                                  f'{rel_}, {rL}); dev {dd:.3e}, in range '
                                  f'{rng_ok}', case)
                ctr = dip.mean(axis=0)
                back = np.asarray(el_.point_to_dipole((*ctr, az2, el2), L2),
                                  float)
                dev = float(np.abs(back - dip).max())
                rec.event('roundtrip_electrode_checks')
                rec.margin('roundtrip_electrode_dev_over_tol', dev/tl)
                if not (dev <= tl):
                    rec.violation('C10:electrodes-roundtrip', 'electrodes -> '
                                  'centre/azimuth/elevation/length -> '
                                  f'electrodes moved them by {dev:.3e} (tol '
                                  f'{tl:.3e})', case)
                rec.distinct(('electrodes-roundtrip', 'oblique' if np.all(
                    e1 != e0) else 'aligned'))
            else:
                # the three Dipole formats expose the same electrodes; loop
                fmts = {
                    'point5': lambda C: C((*centre, az, el), length=L),
                    '2x3': lambda C: C(e_ref.copy()),
                    'flat6': lambda C: C(e_ref.ravel('F').copy()),
                }
                if min(L, math.sqrt(L)) <= 1e-3*(scale + 1.0):
                    # emg3d rejects electrodes / loop corners that are
                    # np.allclose (rtol 1e-5): only the centre format then
                    fmts = {'point5': fmts['point5']}
                    rec.event('formats_skipped_nearly_identical_electrodes')
                bad = []
                worst = 0.0
                for name, mk in fmts.items():
                    o = mk(emg3d.TxElectricDipole)
                    p = np.asarray(o.points, float)
                    dev = float(np.abs(p - e_ref).max()) if p.shape == (2, 3) \
                        else float('nan')
                    a2, e2 = float(o.azimuth), float(o.elevation)
                    ddir = float(np.abs(ref_rotation(a2, e2) - d).max())
                    dl = abs(float(o.length) - L)/L
                    worst = max(worst, dev/tolc, ddir/told, dl/told) if (
                        dev == dev) else float('nan')
                    if not (dev <= tolc and ddir <= told and dl <= told):
                        bad.append((name, dev, ddir, dl))
                rec.event('dipole_format_checks', len(fmts))
                rec.margin('dipole_format_dev_over_tol', worst)
                if bad:
                    rec.violation('C10:dipole-formats-differ', 'Dipole built '
                                  'from (format, electrode dev, direction dev,'
                                  f' length dev) {bad} does not expose the '
                                  'nominal electrodes/angles/length', case)
                # magnetic dipole: loop geometry from the three formats
                for name, mk in fmts.items():
                    o = mk(emg3d.TxMagneticDipole)
                    geo = loop_geometry(np.asarray(o.points, float), centre,
                                        d, L, scale)
                    rec.event('loop_checks')
                    badg = [(w_, v, t) for (w_, v, t) in geo if not (v <= t)]
                    for w_, v, t in geo:
                        if t > 0:
                            rec.margin('loop_dev_over_tol', v/t)
                    if badg:
                        rec.violation(
                            'C10:magnetic-loop-geometry', 'TxMagneticDipole ('
                            f'{name}) .points is not the closed planar square '
                            'loop of area=length with right-handed normal = '
                            f'dipole direction: {badg[:4]}', case)
                rec.distinct(('formats+loop', acls))
        except Exception as e:  # noqa
            rec.inconclusive(f'conversion raised {type(e).__name__}: {e}',
                             case)


def run_batch(batch):
    rec = common.Rec(max_viol=12)
    if batch['mode'] == 'src':
        run_src(rec, batch)
    elif batch['mode'] == 'enum':
        run_enum(rec, batch)
    else:
        run_conv(rec, batch)
    return rec.result()


def finalize(merged, tier):
    common.require_events(merged, {
        'get_source_field_calls': 5000, 'sum_checks': 4000,
        'point_sum_checks': 500, 'support_checks': 4000,
        'point_support_checks': 500, 'scaling_checks': 2000,
        'nonzero_edges_judged': 100000, 'lattice_dipoles': 5000,
        'rotation_checks': 1000, 'roundtrip_angle_checks': 1000,
        'roundtrip_electrode_checks': 1000, 'dipole_format_checks': 1000,
        'loop_checks': 1000})
    ev = merged['events']
    ex = merged['extra']
    n = ev.get('sum_checks', 0)
    if n:
        ex['normalizing_warning_rate_per_wire'] = round(
            ex.get('sources_with_normalizing_warning', 0)/n, 4)
    if tier == 'thorough':
        ex['exhaustive'] = False
