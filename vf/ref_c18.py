"""Reference model for C18: the documented CLI options and what they mean.

Everything in here is transcribed from ``docs/manual/cli.rst`` and
``emg3d --help`` (section, key, type, API argument); nothing is imported from
``emg3d.cli``.  It contains

* SPEC      - the table of documented configuration keys,
* TERM      - the documented command-line options,
* generators of valid values (text as written into the file + the Python
  value the API is expected to receive),
* ``resolve_files`` - the documented file-name rules,
* ``expected_api``  - configuration -> expected API calls,
* ``canon``/``same`` - value comparison (numbers by value, bools/str/None
  exact, lists == arrays).
"""
import os
import numpy as np
from vf import gen

# --------------------------------------------------------------------------
# Documented configuration keys: section -> [(key, kind, API argument)]
SPEC = {
    'files': [
        ('path', 'dir', 'directory of all files'),
        ('survey', 'file', 'emg3d.load(...)["survey"]'),
        ('model', 'file', 'emg3d.load(...)["model"]'),
        ('output', 'file', 'emg3d.save(output, data=..., misfit=..., ...)'),
        ('save', 'file', 'Simulation.to_file'),
        ('load', 'file', 'Simulation.from_file'),
        ('cache', 'file', 'Simulation.from_file + Simulation.to_file'),
    ],
    'simulation': [
        ('max_workers', 'int', 'Simulation(max_workers=)'),
        ('gridding', 'str', 'Simulation(gridding=)'),
        ('name', 'str', 'Simulation(name=)'),
        ('file_dir', 'str', 'Simulation(file_dir=)'),
        ('receiver_interpolation', 'str',
         'Simulation(receiver_interpolation=)'),
        ('layered', 'bool', 'Simulation(layered=)'),
    ],
    'solver_opts': [
        ('sslsolver', 'bool', "solver_opts['sslsolver']"),
        ('semicoarsening', 'bool', "solver_opts['semicoarsening']"),
        ('linerelaxation', 'bool', "solver_opts['linerelaxation']"),
        ('cycle', 'str', "solver_opts['cycle']"),
        ('tol', 'float', "solver_opts['tol']"),
        ('tol_gradient', 'float', "solver_opts['tol_gradient']"),
        ('verb', 'int', "solver_opts['verb']"),
        ('maxit', 'int', "solver_opts['maxit']"),
        ('nu_init', 'int', "solver_opts['nu_init']"),
        ('nu_pre', 'int', "solver_opts['nu_pre']"),
        ('nu_coarse', 'int', "solver_opts['nu_coarse']"),
        ('nu_post', 'int', "solver_opts['nu_post']"),
        ('clevel', 'int', "solver_opts['clevel']"),
        ('plain', 'bool', "solver_opts['plain']"),
    ],
    'gridding_opts': [
        ('properties', 'flist', "gridding_opts['properties']"),
        ('center', 'flist', "gridding_opts['center']"),
        ('cell_number', 'flist', "gridding_opts['cell_numbers']"),
        ('min_width_pps', 'flist', "gridding_opts['min_width_pps']"),
        ('domain', 'llist', "gridding_opts['domain']"),
        ('distance', 'llist', "gridding_opts['distance']"),
        ('stretching', 'llist', "gridding_opts['stretching']"),
        ('min_width_limits', 'llist', "gridding_opts['min_width_limits']"),
        ('mapping', 'str', "gridding_opts['mapping']"),
        ('vector', 'str', "gridding_opts['vector']"),
        ('frequency', 'float', "gridding_opts['frequency']"),
        ('seasurface', 'float', "gridding_opts['seasurface']"),
        ('max_buffer', 'float', "gridding_opts['max_buffer']"),
        ('lambda_factor', 'float', "gridding_opts['lambda_factor']"),
        ('verb', 'int', "gridding_opts['verb']"),
        ('lambda_from_center', 'bool', "gridding_opts['lambda_from_center']"),
    ],
    'noise_opts': [
        ('add_noise', 'bool', 'compute(observed=True, add_noise=)'),
        ('min_offset', 'float', 'compute(observed=True, min_offset=)'),
        ('max_offset', 'float', 'compute(observed=True, max_offset=)'),
        ('mean_noise', 'float', 'compute(observed=True, mean_noise=)'),
        ('ntype', 'str', 'compute(observed=True, ntype=)'),
    ],
    'data': [
        ('sources', 'names', 'survey.select(sources=)'),
        ('receivers', 'names', 'survey.select(receivers=)'),
        ('frequencies', 'names', 'survey.select(frequencies=)'),
        ('remove_empty', 'bool', 'survey.select(remove_empty=)'),
    ],
    'layered': [
        ('method', 'str', "layered_opts['method']"),
        ('radius', 'float', "layered_opts['ellipse']['radius']"),
        ('factor', 'float', "layered_opts['ellipse']['factor']"),
        ('minor', 'float', "layered_opts['ellipse']['minor']"),
        ('merge', 'bool', "layered_opts['merge']"),
        ('check_foci', 'bool', "layered_opts['ellipse']['check_foci']"),
    ],
}
SECTIONS = list(SPEC)
KIND = {(s, k): kind for s, items in SPEC.items() for k, kind, _ in items}
# API key names where they differ from the documented CLI key.
API_NAME = {('gridding_opts', 'cell_number'): 'cell_numbers'}

# Documented command-line options (long, short, kind).
TERM = [
    ('nproc', ['-n', '--nproc'], 'int'),
    ('forward', ['-f', '--forward'], 'flag'),
    ('misfit', ['-m', '--misfit'], 'flag'),
    ('gradient', ['-g', '--gradient'], 'flag'),
    ('path', ['--path'], 'str'),
    ('survey', ['--survey'], 'str'),
    ('model', ['--model'], 'str'),
    ('output', ['--output'], 'str'),
    ('save', ['--save'], 'str'),
    ('load', ['--load'], 'str'),
    ('cache', ['--cache'], 'str'),
    ('clean', ['--clean'], 'flag'),
    ('layered', ['-l', '--layered'], 'flag'),
    ('dry_run', ['-d', '--dry-run'], 'flag'),
    ('verbosity', ['--verbosity'], 'int'),
    ('verbose', ['-v', '--verbose'], 'count'),
    ('quiet', ['-q', '--quiet'], 'flag'),
    ('report', ['--report'], 'flag'),
    ('version', ['--version'], 'flag'),
]

# Defaults stated in cli.rst for [noise_opts] (used to compare the noise
# arguments after filling in what was not given).
NOISE_DEFAULTS = {'add_noise': True, 'min_offset': 0.0,
                  'max_offset': float('inf'), 'mean_noise': 0.0,
                  'ntype': 'white_noise'}
# API defaults of Simulation (a not-requested argument with its default value
# is not an effect).
SIM_DEFAULTS = {'max_workers': 4, 'gridding': 'single', 'gridding_opts': {},
                'solver_opts': {}, 'file_dir': None, 'layered': False,
                'layered_opts': {}}
# Arguments the documentation leaves to the CLI.
SIM_FREE = {'name', 'receiver_interpolation', 'verb', 'tqdm_opts', 'info'}

# Unknown keys (never names that emg3d's API knows under a similar section).
UNKNOWN_KEYS = {
    'files': ['surveys', 'input', 'logfile', 'outputs'],
    'simulation': ['max_worker', 'workers', 'griding', 'nproc', 'title'],
    'solver_opts': ['tolerance', 'maxiter', 'nu', 'cycles', 'precision'],
    'gridding_opts': ['centre', 'min_width', 'freq', 'buffer', 'domains'],
    'noise_opts': ['noise', 'std', 'offset', 'noise_type'],
    'data': ['source', 'receiver', 'frequency', 'remove', 'select'],
    'layered': ['ellipse_radius', 'methods', 'major', 'foci'],
}
UNKNOWN_TERM = ['--surveys', '--nprocs', '--foo', '--grid', '-x', '--dryrun',
                '--tol']

MAPPINGS4 = ['Resistivity', 'Conductivity', 'LgResistivity',
             'LgConductivity', 'LnResistivity', 'LnConductivity']


# --------------------------------------------------------------------------
# Canonical comparison
def canon(x):
    """Numbers by value, bool/str/None exact, list == tuple == array."""
    if x is None or isinstance(x, str):
        return x
    if isinstance(x, (bool, np.bool_)):
        return ('bool', bool(x))
    if isinstance(x, (int, float, np.integer, np.floating)):
        return float(x)
    if isinstance(x, dict):
        return {str(k): canon(v) for k, v in x.items()}
    if isinstance(x, np.ndarray):
        if x.ndim == 0:
            return canon(x.item())
        return [canon(v) for v in x.tolist()]
    if isinstance(x, (complex, np.complexfloating)):
        return ('complex', complex(x))
    if isinstance(x, (list, tuple)):
        return [canon(v) for v in x]
    return ('repr', repr(x))


def same(a, b):
    a, b = canon(a), canon(b)
    return _same(a, b)


def _same(a, b):
    if isinstance(a, float) and isinstance(b, float):
        return a == b or (a != a and b != b)
    if type(a) is not type(b):
        return False
    if isinstance(a, dict):
        return a.keys() == b.keys() and all(_same(a[k], b[k]) for k in a)
    if isinstance(a, (list, tuple)):
        return len(a) == len(b) and all(_same(x, y) for x, y in zip(a, b))
    return a == b


# --------------------------------------------------------------------------
# Text formatting of values (documented syntax)
def t_bool(r, v):
    return gen.choice(r, ['True', 'true'] if v else ['False', 'false'])


def t_float(r, v):
    """A text that float() reads back exactly as v."""
    s = repr(float(v))
    if float(v) == int(v) and abs(v) < 1e6 and r.random() < 0.5:
        s = str(int(v))
    return s


def rfloat(r, lo, hi, digits=3, log=False):
    if log:
        v = 10.0**r.uniform(np.log10(lo), np.log10(hi))
    else:
        v = r.uniform(lo, hi)
    return float(f'{v:.{digits}g}')


def t_flist(r, vals):
    sep = gen.choice(r, [', ', ',', ' , '])
    return sep.join(t_float(r, v) for v in vals)


def t_llist(r, parts):
    """parts: list of None or list of floats."""
    out = []
    for p in parts:
        out.append(gen.choice(r, ['None', 'none']) if p is None
                   else t_flist(r, p))
    return gen.choice(r, ['; ', ';']).join(out)


def llist_value(parts):
    if len(parts) == 1:
        return parts[0]
    return {'x': parts[0], 'y': parts[1], 'z': parts[2]}


def from_cond(sig, mapping):
    sig = float(sig)
    if mapping == 'Conductivity':
        return sig
    if mapping == 'Resistivity':
        return 1.0/sig
    if mapping == 'LgConductivity':
        return float(np.log10(sig))
    if mapping == 'LgResistivity':
        return float(np.log10(1.0/sig))
    if mapping == 'LnConductivity':
        return float(np.log(sig))
    return float(np.log(1.0/sig))


def gen_value(r, section, key, ctx):
    """Return (text, value) of a valid value for a documented key.

    ctx: dict with world information (names, mapping, center, layered ok).
    """
    kind = KIND[(section, key)]
    if kind == 'bool':
        v = bool(r.random() < 0.5)
        if (section, key) == ('simulation', 'layered') and not ctx['lay_ok']:
            v = False
        if key == 'plain':
            v = bool(r.random() < 0.3)
        return t_bool(r, v), v
    if section == 'simulation':
        if key == 'max_workers':
            v = int(gen.choice(r, ctx.get('workers', [1]*8 + [2, 3])))
            return str(v), v
        if key == 'gridding':
            v = gen.choice(r, ctx.get('griddings',
                                      ['same', 'single', 'frequency',
                                       'source', 'both']))
            return v, v
        if key == 'name':
            v = gen.choice(r, ['MyTestSimulation', 'run 42', 'Test-A_b',
                               'sim with spaces', 'x', 'Größe 3'])
            return v, v
        if key == 'file_dir':
            v = gen.choice(r, ['fdir', 'tmp_fields',
                               os.path.join(ctx['cwd'], 'absdir')])
            return v, v
        if key == 'receiver_interpolation':
            v = gen.choice(r, ['cubic', 'linear'])
            return v, v
    if section == 'solver_opts':
        if key == 'cycle':
            v = gen.choice(r, ['F', 'V', 'W'])
            return v, v
        if key in ('tol', 'tol_gradient'):
            v = rfloat(r, 1e-8, 1e-3, 2, log=True)
            s = gen.choice(r, [repr(v), f'{v:.1e}'])
            return s, float(s)
        rng_ = {'verb': (-1, 4), 'maxit': (1, 30), 'nu_init': (0, 2),
                'nu_pre': (1, 3), 'nu_coarse': (0, 3), 'nu_post': (1, 3),
                'clevel': (-1, 3)}[key]
        v = int(r.integers(rng_[0], rng_[1]+1))
        return str(v), v
    if section == 'gridding_opts':
        cx, cy, cz = ctx['center']
        mapping = ctx.get('gmapping', ctx['mapping'])
        if key == 'properties':
            n = int(gen.choice(r, [1, 2, 3, 4, 7]))
            c0 = ctx['sig0']
            vals = [float(f'{from_cond(c0*10**r.uniform(-0.4, 0.4), mapping):.4g}')
                    for _ in range(n)]
            return t_flist(r, vals), vals
        if key == 'center':
            vals = [float(np.round(cx + r.uniform(-50, 50))),
                    float(np.round(cy + r.uniform(-50, 50))),
                    float(np.round(cz + r.uniform(-30, 30)))]
            return t_flist(r, vals), vals
        if key == 'cell_number':
            vals = gen.choice(r, [[16, 24, 32, 40, 48, 64],
                                  [16, 32, 64, 128], [24, 48, 96],
                                  [16, 20, 24, 32, 40, 48, 64, 80]])
            return ', '.join(str(v) for v in vals), [int(v) for v in vals]
        if key == 'min_width_pps':
            vals = [float(r.integers(2, 5)) for _ in range(3)]
            return t_flist(r, vals), vals
        if key in ('domain', 'distance'):
            parts = []
            for c, w in ((cx, 600), (cy, 400), (cz, 300)):
                if r.random() < 0.4:
                    parts.append(None)
                elif key == 'domain':
                    parts.append([float(np.round(c - w*r.uniform(0.8, 1.5))),
                                  float(np.round(c + w*r.uniform(0.8, 1.5)))])
                else:
                    parts.append([float(np.round(w*r.uniform(0.8, 1.5))),
                                  float(np.round(w*r.uniform(0.8, 1.5)))])
            if all(p is None for p in parts):
                parts[0] = ([cx-700.0, cx+700.0] if key == 'domain'
                            else [700.0, 700.0])
            return t_llist(r, parts), llist_value(parts)
        if key == 'stretching':
            def one():
                return [rfloat(r, 1.0, 1.08, 3), rfloat(r, 1.35, 1.6, 3)]
            parts = [one()] if r.random() < 0.5 else [
                (one() if r.random() < 0.7 else None) for _ in range(3)]
            return t_llist(r, parts), llist_value(parts)
        if key == 'min_width_limits':
            def one():
                lo = rfloat(r, 20, 120, 2)
                return [lo, float(lo*gen.choice(r, [3, 5, 10]))]
            parts = [one()] if r.random() < 0.5 else [
                (one() if r.random() < 0.7 else None) for _ in range(3)]
            return t_llist(r, parts), llist_value(parts)
        if key == 'mapping':
            v = ctx.get('gmapping') or gen.choice(r, MAPPINGS4)
            return v, v
        if key == 'vector':
            v = gen.choice(r, ['x', 'y', 'z', 'xy', 'xz', 'yz', 'xyz', 'XY'])
            return v, v
        if key == 'frequency':
            v = rfloat(r, 0.5, 5.0, 3)
            return t_float(r, v), v
        if key == 'seasurface':
            v = float(np.round(cz + r.uniform(250, 450)))
            return t_float(r, v), v
        if key == 'max_buffer':
            v = rfloat(r, 3000, 60000, 2)
            return t_float(r, v), v
        if key == 'lambda_factor':
            v = rfloat(r, 0.6, 1.2, 2)
            return t_float(r, v), v
        if key == 'verb':
            v = int(gen.choice(r, [0, 0, 1]))
            return str(v), v
    if section == 'noise_opts':
        if key == 'min_offset':
            v = float(np.round(r.uniform(0, 350)))
            return t_float(r, v), v
        if key == 'max_offset':
            if r.random() < 0.25:
                return 'inf', float('inf')
            v = float(np.round(r.uniform(350, 900)))
            return t_float(r, v), v
        if key == 'mean_noise':
            v = rfloat(r, 0.0, 2.0, 2)
            return t_float(r, v), v
        if key == 'ntype':
            v = gen.choice(r, ['white_noise', 'gaussian_correlated',
                               'gaussian_uncorrelated'])
            return v, v
    if section == 'data':
        names = ctx[{'sources': 'src_names', 'receivers': 'rec_names',
                     'frequencies': 'freq_names'}[key]]
        n = int(r.integers(1, len(names)+1))
        sel = [names[j] for j in r.permutation(len(names))[:n]]
        if key != 'receivers':
            sel = sorted(sel, key=names.index)
        sep = gen.choice(r, [', ', ',', ' ,  '])
        return sep.join(sel), sel
    if section == 'layered':
        if key == 'method':
            v = gen.choice(r, ['cylinder', 'prism', 'midpoint', 'source',
                               'receiver'])
            return v, v
        if key == 'radius':
            v = rfloat(r, 150, 1500, 3)
            return t_float(r, v), v
        if key == 'factor':
            v = rfloat(r, 1.0, 1.5, 3)
            return t_float(r, v), v
        if key == 'minor':
            v = rfloat(r, 0.5, 1.0, 3)
            return t_float(r, v), v
    raise KeyError((section, key))


# --------------------------------------------------------------------------
# Documented file-name rules
SUFFIXES = ('.h5', '.npz', '.json')


def _with_suffix(name):
    return name if name.endswith(SUFFIXES) else name + '.h5'


def resolve_files(cfg_files, term, cwd):
    """cfg_files / term: dicts with the given names (missing = not given)."""
    path = term.get('path')
    if path is None:
        path = cfg_files.get('path', '.')
    path = os.path.normpath(os.path.join(cwd, path))
    defaults = {'survey': 'survey', 'model': 'model', 'output': 'emg3d_out',
                'save': None, 'load': None, 'cache': None}
    out = {'path': path}
    for key, dflt in defaults.items():
        name = term.get(key)
        if name is None:
            name = cfg_files.get(key, dflt)
        out[key] = None if not name else _with_suffix(
            os.path.join(path, name))
    if out['cache']:
        out['load'] = out['save'] = out['cache']
    out['log'] = os.path.splitext(out['output'])[0] + '.log'
    return out


# --------------------------------------------------------------------------
# Configuration -> expected API calls
def expected_api(case, cwd):
    """case['cfg']: {section: [[key, text, value], ...]}, case['tv']: the
    terminal values.  Returns the calls the documentation promises."""
    cfg = {s: {k: v for k, _, v in items}
           for s, items in case['cfg'].items()}
    tv = case['tv']
    exp = {}
    exp['function'] = tv.get('function', 'forward')
    exp['dry'] = bool(tv.get('dry_run'))
    exp['clean'] = bool(tv.get('clean'))
    exp['files'] = resolve_files(cfg.get('files', {}), tv, cwd)

    sim = {}
    s = cfg.get('simulation', {})
    for k in ('max_workers', 'gridding', 'name', 'file_dir',
              'receiver_interpolation', 'layered'):
        if k in s:
            sim[k] = s[k]
    if tv.get('nproc') is not None:         # terminal overrides the file
        sim['max_workers'] = tv['nproc']
    if tv.get('layered'):
        sim['layered'] = True
    if cfg.get('solver_opts'):
        sim['solver_opts'] = dict(cfg['solver_opts'])
    if cfg.get('gridding_opts'):
        sim['gridding_opts'] = {
            API_NAME.get(('gridding_opts', k), k): v
            for k, v in cfg['gridding_opts'].items()}
    lay = cfg.get('layered', {})
    if lay:
        lo = {}
        for k in ('method', 'merge'):
            if k in lay:
                lo[k] = lay[k]
        ell = {k: lay[k] for k in ('radius', 'factor', 'minor', 'check_foci')
               if k in lay}
        if ell:
            lo['ellipse'] = ell
        sim['layered_opts'] = lo
    exp['sim'] = sim

    d = cfg.get('data', {})
    exp['select'] = None
    if d:
        exp['select'] = {'sources': d.get('sources'),
                         'receivers': d.get('receivers'),
                         'frequencies': d.get('frequencies'),
                         # "CLI uses False by default"
                         'remove_empty': d.get('remove_empty', False)}
    exp['noise'] = dict(cfg.get('noise_opts', {}))
    return exp


def write_config(r, case, fname):
    """Write case['cfg'] in the documented format (own writer)."""
    lines = []
    if r.random() < 0.3:
        lines.append('# emg3d configuration written by the C18 check')
    for sec, items in case['cfg'].items():
        lines.append(f'[{sec}]')
        for key, text, _ in items:
            eq = gen.choice(r, [' = ', '=', ' =  '])
            line = f'{key}{eq}{text}'
            if r.random() < 0.2:
                line += gen.choice(r, ['  # comment', ' # e.g. 1.0', '   #'])
            lines.append(line)
        if r.random() < 0.3:
            lines.append('')
    with open(fname, 'w') as f:
        f.write('\n'.join(lines) + '\n')
    return '\n'.join(lines)


def term_tokens(r, tv):
    """Terminal values -> argv tokens (random short/long spelling)."""
    toks = []

    def opt(names):
        return gen.choice(r, names)
    if tv.get('nproc') is not None:
        toks += [opt(['-n', '--nproc']), str(tv['nproc'])]
    if tv.get('function_given'):
        toks += [opt({'forward': ['-f', '--forward'],
                      'misfit': ['-m', '--misfit'],
                      'gradient': ['-g', '--gradient']}[tv['function']])]
    for k in ('path', 'survey', 'model', 'output', 'save', 'load', 'cache'):
        if tv.get(k) is not None:
            if r.random() < 0.3:
                toks += [f'--{k}={tv[k]}']
            else:
                toks += [f'--{k}', tv[k]]
    if tv.get('clean'):
        toks += ['--clean']
    if tv.get('layered'):
        toks += [opt(['-l', '--layered'])]
    if tv.get('dry_run'):
        toks += [opt(['-d', '--dry-run'])]
    if tv.get('verb_tokens'):
        toks += list(tv['verb_tokens'])
    # order of options is free
    groups, i = [], 0
    while i < len(toks):
        if toks[i] in ('-n', '--nproc', '--verbosity') or (
                toks[i].startswith('--') and '=' not in toks[i] and
                toks[i][2:] in ('path', 'survey', 'model', 'output', 'save',
                                'load', 'cache')):
            groups.append(toks[i:i+2])
            i += 2
        else:
            groups.append(toks[i:i+1])
            i += 1
    order = r.permutation(len(groups))
    return [t for j in order for t in groups[j]]
