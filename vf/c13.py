"""C13 - misfit and data weights follow the noise model and stay untouched.

Shadow-model monitor.  A history of public operations is driven on a real
``emg3d.Survey`` (explicit assignments of noise_floor / relative_error /
standard_deviation, add_noise, select, copy, to_dict/from_dict,
to_file/from_file, Simulation.misfit on restored results and after real
``compute()`` calls, read-only calls).  Beside it lives a *shadow* which holds
only what was explicitly assigned (nf, re, std) plus the data sets; after every
operation the real survey is read back through its public attributes and
compared with what the shadow says it must be.  All reference computations
(noise model, sub-cube selection, remove_empty, offset/amplitude cuts, noise
modulus, misfit) are written here from the documentation and share no code
with emg3d.
"""
import contextlib
import itertools
import os
import shutil
import tempfile
import warnings
import numpy as np
from vf import common, gen

PROP = 'C13'
NEEDS_JIT = True
TIMEOUT = {'quick': 900, 'thorough': 3400}
RULE = ("random operation histories (<= 6 operations, thorough <= 8) on "
        "surveys of shape 1x1x1 .. 4x5x3 (thorough .. 6x8x5) with point/"
        "dipole sources, absolute/relative electric/magnetic receivers, "
        "list- or dict-given names, data None/array/dict, NaN gaps (random, "
        "whole source/receiver/frequency, all), noise_floor/relative_error in "
        "{None, scalar, per-src, per-rec, per-freq, src-rec, src-freq, "
        "rec-freq, full} array forms and explicit standard deviation; plus an "
        "enumeration of (nf form x re form x explicit std x min_amplitude kind "
        "x ntype x add_to kind) with repeated add_noise (thorough: complete, "
        "quick: seeded eighth), exact-threshold cases (integer geometry, "
        "power-of-two amplitudes) and one pooled noise-statistics case per "
        "batch; distinct = (operation, nf form, re form, explicit std?, shape "
        "class, gap class [, add_noise options]) tuples that reached the "
        "oracle")
ASSUMPTIONS = [
    "the shadow (this file) is the documented noise model: std = explicit if "
    "set else sqrt(nf^2+(re|d|)^2); misfit = 1/2 sum_finite |syn-obs|^2/std^2",
    "numpy.random.default_rng() (no arguments) is replaced by a seeded "
    "generator while add_noise runs, so that the random realisation is "
    "replayable; all per-datum verdicts hold for every realisation, the pooled "
    "moment checks use 10-sigma bounds on >= 1000 samples",
    "bulk of the misfit evaluations use a 'results' dictionary of a "
    "Simulation whose synthetic data were filled in and computed flag set "
    "(what from_file of a what='results' file yields); a smaller number uses "
    "real compute() calls on an 8x8x8 grid (solver quality is irrelevant here)",
    "std is compared only at finite observations; NaN gaps are NaN+NaNj",
    "histories are sampled; only the add_noise option table is enumerated",
]

EPS = float(np.finfo(float).eps)
TOL_STD = 16*EPS        # a handful of roundings in sqrt(a^2+(b|d|)^2)
TOL_W = 64*EPS          # std**-2 on top of that
TOL_MISFIT = 1e-12      # sum of <= 240 positive terms (N*eps ~ 5e-14)
INTERNAL = ('_noise_floor', '_relative_error', 'standard_deviation')
NAN = np.nan + 1j*np.nan

FORMS = {'src': (1, 0, 0), 'rec': (0, 1, 0), 'freq': (0, 0, 1),
         'src_rec': (1, 1, 0), 'src_freq': (1, 0, 1), 'rec_freq': (0, 1, 1),
         'full': (1, 1, 1)}
FORM_NAMES = ['none', 'scalar'] + list(FORMS)
MINAMP = ['default', 'half_nf', 'none', 'float']
NTYPES = ['white_noise', 'gaussian_correlated', 'gaussian_uncorrelated']
ADDTO = ['default', 'observed', 'other', 'new']

K_HALVE = 'C13:add-noise-halves-array-noise-floor'
K_SIZE1 = 'C13:size1-array-noise-parameter-typeerror'
K_STALE = 'C13:misfit-reuses-stale-weights'


# --------------------------------------------------------------------------
# plan
def enum_combos():
    return list(itertools.product(FORM_NAMES, FORM_NAMES, (False, True),
                                  MINAMP, NTYPES, ADDTO))


def plan(tier, seed):
    combos = list(range(len(enum_combos())))
    if tier == 'quick':
        nb, per, nenum = 40, 76, 8
        r = gen.rng(seed, 'C13', 'plan')
        off = int(r.integers(0, 8))
        combos = [c for c in combos if (c + off) % 8 == 0]
    else:
        nb, per, nenum = 60, 200, 48
    out = [{'id': f'h{k}', 'mode': 'hist', 'k': k, 'n': per}
           for k in range(nb)]
    out += [{'id': f'e{k}', 'mode': 'enum', 'k': 5000+k,
             'combos': combos[k::nenum]} for k in range(nenum)]
    return out


# --------------------------------------------------------------------------
# reference model
def ref_std(nf, re, std, obs):
    """Documented standard deviation; None if nothing is defined."""
    if std is not None:
        return std
    if nf is None and re is None:
        return None
    out = np.zeros(obs.shape)
    if nf is not None:
        out = out + np.asarray(nf, dtype=float)**2
    if re is not None:
        out = out + (np.asarray(re, dtype=float)*np.abs(obs))**2
    return np.sqrt(out)


def norm_param(value, shape):
    """What an explicit assignment of `value` means: None, float or the
    array broadcast to the data shape."""
    if value is None:
        return None
    a = np.asarray(value, dtype=float)
    if a.size == 1:
        return float(a.reshape(-1)[0])
    return np.array(np.broadcast_to(a, shape), dtype=float)


def is_size1_ndarray(value):
    return (isinstance(value, (np.ndarray, list)) and
            np.asarray(value).ndim > 0 and np.asarray(value).size == 1)


def same_param(actual, expected):
    """Bitwise equality of a noise parameter with its shadow."""
    if expected is None or actual is None:
        return expected is None and actual is None
    ea, aa = isinstance(expected, np.ndarray), isinstance(actual, np.ndarray)
    if ea != (aa and actual.ndim > 0):
        return False
    if ea:
        return (actual.shape == expected.shape and
                bool(np.array_equal(actual, expected)))
    try:
        return float(actual) == float(expected)
    except Exception:  # noqa
        return False


def same_arr(a, b):
    if a is None or b is None:
        return a is None and b is None
    a, b = np.asarray(a), np.asarray(b)
    if a.shape != b.shape:
        return False
    if a.dtype.kind in 'fc' or b.dtype.kind in 'fc':
        return bool(np.array_equal(a, b, equal_nan=True))
    return bool(np.array_equal(a, b))


class Shadow:
    """Everything the property talks about, kept independently."""

    def __init__(self, skeys, rkeys, fkeys, fvals, scen, rxyz, rrel, nf, re,
                 std, data, forms, scale=1.0, exact=False):
        self.skeys, self.rkeys, self.fkeys = list(skeys), list(rkeys), \
            list(fkeys)
        self.fvals = [float(f) for f in fvals]
        self.scen = np.array(scen, dtype=float).reshape(len(skeys), 3)
        self.rxyz = np.array(rxyz, dtype=float).reshape(len(rkeys), 3)
        self.rrel = np.array(rrel, dtype=bool).reshape(len(rkeys))
        self.nf, self.re, self.std = nf, re, std
        self.data = data                    # name -> ndarray (own copies)
        self.forms = dict(forms)            # labels only (nf/re form names)
        self.w_std = None                   # std the stored weights belong to
        self.scale, self.exact = float(scale), bool(exact)

    @property
    def shape(self):
        return (len(self.skeys), len(self.rkeys), len(self.fkeys))

    def clone(self):
        s = Shadow(self.skeys, self.rkeys, self.fkeys, self.fvals, self.scen,
                   self.rxyz, self.rrel, cp(self.nf), cp(self.re),
                   cp(self.std), {k: v.copy() for k, v in self.data.items()},
                   self.forms, self.scale, self.exact)
        s.w_std = cp(self.w_std)
        return s

    def sub(self, i0, i1, i2):
        ix = np.ix_(i0, i1, i2)

        def cut(a):
            return a[ix].copy() if isinstance(a, np.ndarray) else a
        s = Shadow([self.skeys[i] for i in i0], [self.rkeys[i] for i in i1],
                   [self.fkeys[i] for i in i2], [self.fvals[i] for i in i2],
                   self.scen[i0], self.rxyz[i1], self.rrel[i1], cut(self.nf),
                   cut(self.re), cut(self.std),
                   {k: v[ix].copy() for k, v in self.data.items()},
                   self.forms, self.scale, self.exact)
        s.w_std = cut(self.w_std)
        return s

    def exp_std(self, obs=None):
        return ref_std(self.nf, self.re, self.std,
                       self.data['observed'] if obs is None else obs)

    def offsets(self):
        """Source-receiver offsets (nsrc, nrec) from my own coordinates."""
        ns, nr = len(self.skeys), len(self.rkeys)
        off = np.zeros((ns, nr))
        for i in range(ns):
            for j in range(nr):
                d = self.rxyz[j] if self.rrel[j] else self.rxyz[j]-self.scen[i]
                off[i, j] = np.sqrt(d[0]*d[0] + d[1]*d[1] + d[2]*d[2])
        return off

    def label(self):
        sh = self.shape
        shc = ('1x1x1' if sh == (1, 1, 1) else
               'has1' if 1 in sh else 'general')
        obs = self.data['observed']
        fin = np.isfinite(obs)
        gap = ('nodata' if not fin.any() else 'full' if fin.all() else 'gaps')
        return (self.forms.get('nf'), self.forms.get('re'),
                self.std is not None, shc, gap)


def cp(a):
    return a.copy() if isinstance(a, np.ndarray) else a


# --------------------------------------------------------------------------
# reading the real survey (client side)
def observe(sv):
    ds = sv.data
    nf = sv.noise_floor
    re = sv.relative_error
    sd = sv.standard_deviation
    return {
        'skeys': list(sv.sources.keys()), 'rkeys': list(sv.receivers.keys()),
        'fkeys': list(sv.frequencies.keys()),
        'csrc': [str(x) for x in ds['src'].values],
        'crec': [str(x) for x in ds['rec'].values],
        'cfreq': [str(x) for x in ds['freq'].values],
        'fvals': [float(v) for v in sv.frequencies.values()],
        'nf': cp(nf) if not isinstance(nf, np.ndarray) else np.array(nf),
        're': cp(re) if not isinstance(re, np.ndarray) else np.array(re),
        'std': None if sd is None else np.array(sd.data),
        'raw': {str(k): np.array(v.data) for k, v in ds.items()},
    }


def raw_equal(a, b):
    """Two observations describe bitwise the same survey state."""
    bad = []
    for k in ('skeys', 'rkeys', 'fkeys', 'csrc', 'crec', 'cfreq', 'fvals'):
        if a[k] != b[k]:
            bad.append(k)
    for k in ('nf', 're'):
        if not same_param(a[k], b[k]):
            bad.append(k)
    if not same_arr(a['std'], b['std']):
        bad.append('std')
    if set(a['raw']) != set(b['raw']):
        bad.append('datasets')
    for k in a['raw']:
        if k in b['raw'] and not same_arr(a['raw'][k], b['raw'][k]):
            bad.append('data:'+k)
    return bad


class Abort(Exception):
    """Stop this history (after a generic violation or a harness problem)."""


class Ctx:
    def __init__(self, rec, r, case, tmp, tier):
        self.rec, self.r, self.case, self.tmp, self.tier = rec, r, case, tmp, \
            tier
        self.nfile = 0
        self.nnoise = 0
        self.pool = None            # pooled noise statistics of the batch
        self.real_left = 0

    def viol(self, key, msg, abort=True):
        self.rec.violation(key, msg, self.case)
        if abort:
            raise Abort()


def check_state(ctx, sv, sh, where, obs=None):
    """Invariant: the survey shows what the shadow says."""
    rec = ctx.rec
    o = obs or observe(sv)
    rec.event('state_checks')
    for k, c in (('skeys', 'csrc'), ('rkeys', 'crec'), ('fkeys', 'cfreq')):
        if o[k] != getattr(sh, k) or o[c] != getattr(sh, k):
            ctx.viol(f'C13:keys-wrong-after-{where}',
                     f'{k}: survey has {o[k]} (data coords {o[c]}) expected '
                     f'{getattr(sh, k)}')
    if o['fvals'] != sh.fvals:
        ctx.viol(f'C13:keys-wrong-after-{where}',
                 f"frequencies {o['fvals']} expected {sh.fvals}")
    for name, key in (('nf', 'noise-floor'), ('re', 'relative-error')):
        if not same_param(o[name], getattr(sh, name)):
            ctx.viol(f'C13:{key}-changed-by-{where}',
                     f'{key} after {where}: survey {brief(o[name])} != '
                     f'assigned {brief(getattr(sh, name))}')
    # data sets
    for k, v in sh.data.items():
        if k not in o['raw'] or not same_arr(o['raw'][k], v):
            ctx.viol(f'C13:data-wrong-after-{where}',
                     f'data set {k!r} after {where} differs from expected: '
                     f"{brief(o['raw'].get(k))} vs {brief(v)}")
    # standard deviation
    exp = sh.exp_std()
    if exp is None:
        rec.event('std_none_checks')
        if o['std'] is not None:
            ctx.viol(f'C13:std-wrong-after-{where}', 'standard_deviation is '
                     'not None although nothing is defined')
    elif sh.std is not None:
        rec.event('std_explicit_checks')
        if o['std'] is None or not same_arr(o['std'], exp):
            ctx.viol(f'C13:explicit-std-changed-by-{where}',
                     f'explicitly set standard_deviation after {where}: '
                     f"{brief(o['std'])} != {brief(exp)}")
    else:
        fin = np.isfinite(sh.data['observed'])
        rec.event('std_formula_checks')
        rec.event('std_formula_data', int(fin.sum()))
        if o['std'] is None or o['std'].shape != exp.shape:
            ctx.viol(f'C13:std-formula-after-{where}', 'standard_deviation '
                     f"missing / wrong shape: {brief(o['std'])}")
        a, e = o['std'][fin], exp[fin]
        if a.size:
            ok = np.isfinite(a).all() and np.isfinite(e).all()
            err = float(np.max(np.abs(a-e)/e)) if ok else float('nan')
            rec.margin('std_rel_err_over_tol', err/TOL_STD)
            if not (err <= TOL_STD):
                ctx.viol(f'C13:std-formula-after-{where}',
                         f'standard_deviation != sqrt(nf^2+(re|d|)^2): max '
                         f'rel. deviation {err:.3e} (tol {TOL_STD:.1e}); '
                         f'first: got {a[:3]}, expected {e[:3]}')
    return o


def brief(a):
    if isinstance(a, np.ndarray):
        if a.size <= 12:
            return f'array{a.shape}{a.ravel().tolist()}'
        return f'array{a.shape}[{a.ravel()[:4].tolist()} ...]'
    return repr(a)


# --------------------------------------------------------------------------
# generators
def rnd(x, n=1):
    return float(np.round(x, n))


def gen_geometry(r, ns, nr, exact):
    srcs, recs = [], []
    if exact:
        cen = [(0, 0, 0), (0, 0, 0), (100, -200, 0), (-100, 100, -100)]
        rel = [(300, 400, 0), (0, -400, 300), (180, 240, 0), (500, 0, 0),
               (-300, 0, 400), (0, 300, 0), (0, 0, -500), (240, 0, 180)]
        for i in range(ns):
            c = np.array(cen[i % len(cen)], dtype=float)
            if r.random() < 0.5:
                srcs.append({'kind': 'point', 'xyz': c.tolist(),
                             'azm': 0.0, 'elev': 0.0, 'center': c.tolist()})
            else:
                srcs.append({'kind': 'dipole', 'p0': (c-[100, 0, 0]).tolist(),
                             'p1': (c+[100, 0, 0]).tolist(),
                             'center': c.tolist()})
        for j in range(nr):
            d = np.array(rel[int(r.integers(len(rel)))], dtype=float)
            relative = bool(r.random() < 0.4)
            xyz = d if relative else d + np.array(srcs[0]['center'])
            recs.append({'kind': 'e' if r.random() < 0.7 else 'm',
                         'xyz': xyz.tolist(), 'azm': 0.0, 'elev': 0.0,
                         'relative': relative})
        return srcs, recs
    for i in range(ns):
        c = np.array([rnd(r.uniform(-300, 300)), rnd(r.uniform(-300, 300)),
                      rnd(r.uniform(-200, -20))])
        if r.random() < 0.5:
            srcs.append({'kind': 'point', 'xyz': c.tolist(),
                         'azm': rnd(r.uniform(-180, 180)),
                         'elev': rnd(r.uniform(-80, 80)),
                         'center': c.tolist()})
        else:
            h = np.array([rnd(r.uniform(5, 50)), rnd(r.uniform(-50, 50)),
                          rnd(r.uniform(-10, 10))])
            p0, p1 = c-h, c+h
            srcs.append({'kind': 'dipole', 'p0': p0.tolist(),
                         'p1': p1.tolist(),
                         'center': ((p0+p1)/2).tolist()})
    for j in range(nr):
        relative = bool(r.random() < 0.3)
        if relative:
            xyz = [rnd(r.uniform(-200, 200)), rnd(r.uniform(-200, 200)),
                   rnd(r.uniform(-20, 20))]
        else:
            xyz = [rnd(r.uniform(-500, 500)), rnd(r.uniform(-500, 500)),
                   rnd(r.uniform(-250, 0))]
        recs.append({'kind': 'e' if r.random() < 0.7 else 'm', 'xyz': xyz,
                     'azm': rnd(r.uniform(-180, 180)),
                     'elev': rnd(r.uniform(-80, 80)), 'relative': relative})
    return srcs, recs


def gen_param(r, form, shape, scale, rel=False, exact=False):
    """Value handed to emg3d for a noise parameter of the given form."""
    if form == 'none':
        return None

    def val(shp=None):
        if rel:
            return r.uniform(0.005, 0.2, shp)
        if exact:       # power-of-two multiples: nf/2 can equal |d| exactly
            return scale*2.0**r.integers(-2, 3, shp)
        return scale*10.0**r.uniform(-1, 1, shp)
    if form == 'scalar':
        x = float(val())
        kind = gen.choice(r, ['float', 'float', 'np64', 'arr0d'])
        return {'float': x, 'np64': np.float64(x),
                'arr0d': np.array(x)}[kind]
    shp = tuple(n if m else 1 for n, m in zip(shape, FORMS[form]))
    a = np.array(val(shp), dtype=float).reshape(shp)
    if a.size == 1 and r.random() < 0.8:
        return float(a.reshape(-1)[0])     # keep the size-1 class rare
    if a.size > 1 and r.random() < 0.15:
        return a.tolist()
    return a


def gen_spec(r, tier, shape=None, exact=False, forms=None, complex_extra=None):
    if shape is None:
        mx = (4, 5, 3) if tier == 'quick' else (6, 8, 5)
        u = r.random()
        if u < 0.06:
            shape = (1, 1, 1)
        elif u < 0.25:
            shape = [int(r.integers(1, m+1)) for m in mx]
            shape[int(r.integers(3))] = 1
            shape = tuple(shape)
        else:
            shape = tuple(int(r.integers(1, m+1)) for m in mx)
    ns, nr, nf = shape
    srcs, recs = gen_geometry(r, ns, nr, exact)
    freqs = sorted({rnd(10.0**r.uniform(-1, 1), 4) for _ in range(nf*3)})
    freqs = [float(f) for f in r.permutation(freqs)[:nf]]
    while len(freqs) < nf:
        freqs.append(freqs[-1]+1.0)
    spec = {'shape': shape, 'sources': srcs, 'receivers': recs,
            'freqs': freqs, 'exact': exact}
    spec['src_keys'] = ([f'S{gen.choice(r, "abcdxyz")}{i}' for i in range(ns)]
                        if r.random() < 0.4 else None)
    spec['rec_keys'] = ([f'R{i}{gen.choice(r, "pq")}' for i in range(nr)]
                        if r.random() < 0.4 else None)
    spec['freq_keys'] = ([f'f{gen.choice(r, "uvw")}-{i}' for i in range(nf)]
                         if r.random() < 0.4 else None)
    # observed data
    amp = 10.0**r.uniform(-14, -8)
    if exact:
        base = 2.0**int(r.integers(-50, -30))
        obs = (3+4j)*base*2.0**r.integers(-2, 3, shape)
        obs = obs*gen.choice(r, [1, -1, 1j])
        scale = 10*base                    # half of it is |(3+4j) base|
    else:
        obs = amp*10.0**r.uniform(-1.5, 1.5, shape)*np.exp(
            1j*r.uniform(0, 2*np.pi, shape))
        scale = amp*10.0**r.uniform(-1.5, 0.5)
    u = r.random()
    gap = ('none' if u < 0.35 else 'random' if u < 0.65 else 'src' if u < 0.72
           else 'rec' if u < 0.79 else 'freq' if u < 0.86 else
           'heavy' if u < 0.95 else 'all')
    obs = np.array(obs, dtype=complex)
    if gap == 'random':
        obs[r.random(shape) < 0.2] = NAN
    elif gap == 'heavy':
        obs[r.random(shape) < 0.7] = NAN
    elif gap == 'src':
        obs[int(r.integers(ns))] = NAN
    elif gap == 'rec':
        obs[:, int(r.integers(nr))] = NAN
    elif gap == 'freq':
        obs[:, :, int(r.integers(nf))] = NAN
    elif gap == 'all':
        obs[:] = NAN
    spec['gap'] = gap
    spec['scale'] = float(scale)
    u = r.random()
    spec['data_as'] = ('none' if gap == 'all' and u < 0.5 else
                       'array' if u < 0.4 else 'dict')
    spec['obs'] = obs
    spec['extra'] = None
    if spec['data_as'] == 'dict':
        cx = (r.random() < 0.6) if complex_extra is None else complex_extra
        if r.random() < 0.6 or complex_extra:
            ex = r.standard_normal(shape)*amp
            if cx:
                ex = ex + 1j*r.standard_normal(shape)*amp
            spec['extra'] = ex
        if gap == 'all' and r.random() < 0.5:
            spec['data_as'] = 'dict_noobs'
    # noise parameters
    if forms is None:
        forms = {}
        for k in ('nf', 're'):
            u = r.random()
            forms[k] = ('none' if u < 0.2 else 'scalar' if u < 0.45 else
                        gen.choice(r, list(FORMS)))
        forms['std'] = bool(r.random() < 0.12)
    spec['forms'] = dict(forms)
    spec['nf_in'] = gen_param(r, forms['nf'], shape, scale, exact=exact)
    spec['re_in'] = gen_param(r, forms['re'], shape, scale, rel=True)
    spec['std_in'] = (scale*10.0**r.uniform(-1, 1, shape)
                      if forms.get('std') else None)
    spec['omit_none'] = bool(r.random() < 0.5)
    return spec


def mk_src(s):
    import emg3d
    if s['kind'] == 'point':
        return emg3d.TxElectricPoint((*s['xyz'], s['azm'], s['elev']))
    return emg3d.TxElectricDipole(np.array([s['p0'], s['p1']], dtype=float))


def mk_rec(x):
    import emg3d
    cls = emg3d.RxElectricPoint if x['kind'] == 'e' else emg3d.RxMagneticPoint
    return cls((*x['xyz'], x['azm'], x['elev']), relative=x['relative'])


def spec_summary(spec):
    return {k: spec[k] for k in ('shape', 'sources', 'receivers', 'freqs',
                                 'src_keys', 'rec_keys', 'freq_keys', 'gap',
                                 'data_as', 'obs', 'extra', 'forms', 'nf_in',
                                 're_in', 'std_in', 'exact')}


def assign(ctx, sv, name, value, where):
    """Explicit assignment of noise_floor / relative_error with the labelled
    size-1 ndarray class."""
    try:
        setattr(sv, name, cp(value) if isinstance(value, np.ndarray)
                else value)
        return
    except TypeError as e:
        if not is_size1_ndarray(value):
            raise
        ctx.rec.event('size1_array_class')
        ctx.viol(K_SIZE1, f'{name} = {value!r} (ndarray of size 1, the '
                 'documented ({1;nsrc},{1;nrec},{1;nfreq}) form for this '
                 f'survey) is rejected in {where}: {type(e).__name__}: {e}',
                 abort=False)
        ctx.rec.distinct(('size1-array', name, where))
    setattr(sv, name, float(np.asarray(value).reshape(-1)[0]))


def build(ctx, spec):
    """Construct the real survey and its shadow."""
    import emg3d
    srcs = [mk_src(s) for s in spec['sources']]
    recs = [mk_rec(x) for x in spec['receivers']]
    sources = (dict(zip(spec['src_keys'], srcs)) if spec['src_keys'] else
               srcs[0] if len(srcs) == 1 and spec['omit_none'] else srcs)
    receivers = dict(zip(spec['rec_keys'], recs)) if spec['rec_keys'] else recs
    freqs = (dict(zip(spec['freq_keys'], spec['freqs']))
             if spec['freq_keys'] else list(spec['freqs']))
    data = {'observed': spec['obs'].copy()}
    if spec['data_as'] == 'none':
        din = None
    elif spec['data_as'] == 'array':
        din = spec['obs'].copy()
    else:
        din = {}
        if spec['data_as'] != 'dict_noobs':
            din['observed'] = spec['obs'].copy()
        if spec['extra'] is not None:
            din['extra'] = spec['extra'].copy()
            data['extra'] = spec['extra'].copy()
    kw = {}
    size1 = {}
    for name, key in (('noise_floor', 'nf_in'), ('relative_error', 're_in')):
        v = spec[key]
        if v is None and spec['omit_none']:
            continue
        if is_size1_ndarray(v):
            size1[name] = v
            continue
        kw[name] = cp(v)
    for name, v in size1.items():
        # labelled class: tried through the constructor first
        try:
            emg3d.Survey(sources, receivers, freqs,
                         data=None, **{name: np.array(v)})
            kw[name] = np.array(v)
        except TypeError as e:
            ctx.rec.event('size1_array_class')
            ctx.viol(K_SIZE1, f'Survey(..., {name}={v!r}) (ndarray of size 1, '
                     'the documented ({1;nsrc},{1;nrec},{1;nfreq}) form for '
                     f'this survey) is rejected: {type(e).__name__}: {e}',
                     abort=False)
            ctx.rec.distinct(('size1-array', name, 'constructor'))
            kw[name] = float(np.asarray(v).reshape(-1)[0])
    sv = emg3d.Survey(sources, receivers, freqs, data=din, **kw)
    ctx.rec.case()
    shape = tuple(spec['shape'])
    sh = Shadow(list(sv.sources.keys()), list(sv.receivers.keys()),
                list(sv.frequencies.keys()), spec['freqs'],
                [s['center'] for s in spec['sources']],
                [x['xyz'] for x in spec['receivers']],
                [x['relative'] for x in spec['receivers']],
                norm_param(spec['nf_in'], shape),
                norm_param(spec['re_in'], shape), None, data, spec['forms'],
                spec['scale'], spec['exact'])
    if spec['src_keys'] and sh.skeys != spec['src_keys']:
        ctx.viol('C13:keys-wrong-after-constructor', f'{sh.skeys}')
    if spec['std_in'] is not None:
        sv.standard_deviation = spec['std_in'].copy()
        sh.std = spec['std_in'].copy()
    check_geometry(ctx, sv, sh, 'constructor')
    check_state(ctx, sv, sh, 'constructor')
    return sv, sh


def check_geometry(ctx, sv, sh, where):
    """Sources/receivers of the survey sit where the shadow has them."""
    ctx.rec.event('geometry_checks')
    for i, k in enumerate(sh.skeys):
        s = sv.sources.get(k)
        pts = None if s is None else np.asarray(s.points, dtype=float)
        if pts is None or not np.array_equal(
                np.unique(pts, axis=0).mean(axis=0), sh.scen[i]):
            ctx.viol(f'C13:geometry-wrong-after-{where}',
                     f'source {k!r} after {where}: {pts} centre expected '
                     f'{sh.scen[i]}')
    for j, k in enumerate(sh.rkeys):
        x = sv.receivers.get(k)
        if (x is None or bool(x.relative) != bool(sh.rrel[j]) or
                not np.array_equal(np.asarray(x.coordinates[:3], float),
                                   sh.rxyz[j])):
            ctx.viol(f'C13:geometry-wrong-after-{where}',
                     f'receiver {k!r} after {where}: '
                     f'{None if x is None else x.coordinates} expected '
                     f'{sh.rxyz[j]} relative={sh.rrel[j]}')


# --------------------------------------------------------------------------
# seeded replacement of numpy.random.default_rng() while the SUT draws noise
@contextlib.contextmanager
def seeded_noise(keys):
    orig = np.random.default_rng
    cnt = {'n': 0}

    def patched(*a, **k):
        if a or k:
            return orig(*a, **k)
        cnt['n'] += 1
        return orig([int(x) & 0xffffffff for x in keys] + [cnt['n']])
    np.random.default_rng = patched
    try:
        yield cnt
    finally:
        np.random.default_rng = orig


class Pool:
    """Pooled normalised noise of one batch, per ntype."""

    def __init__(self):
        self.q = {n: [] for n in NTYPES}

    def add(self, ntype, q):
        self.q[ntype].append(np.asarray(q).ravel())

    def judge(self, rec, batch_id):
        for nt in NTYPES:
            if not self.q[nt]:
                continue
            q = np.concatenate(self.q[nt])
            n = q.size
            if n < 1000:
                rec.event('noise_stat_too_few')
                continue
            rec.event('noise_stat_checks')
            s = 10.0/np.sqrt(n)
            bad = []
            m = complex(np.mean(q))
            m2 = float(np.mean(np.abs(q)**2))
            if nt == 'white_noise':
                # unit modulus is checked per datum; phases uniform: E q = 0
                if not (abs(m) <= s):
                    bad.append(f'|mean e^(i phi)| = {abs(m):.3g} > {s:.3g}')
            else:
                # E|R|^2 = 2 for both Gaussian types, E R = 0
                if not (abs(m2-2.0) <= 2.0*np.sqrt(2.0)*s):
                    bad.append(f'mean |R|^2 = {m2:.4g}, expected 2 +- '
                               f'{2.0*np.sqrt(2.0)*s:.3g}')
                if not (abs(m) <= np.sqrt(2.0)*s):
                    bad.append(f'|mean R| = {abs(m):.3g} > {np.sqrt(2.0)*s:.3g}')
                c = float(np.mean(q.real*q.imag))
                want = 1.0 if nt == 'gaussian_correlated' else 0.0
                if not (abs(c-want) <= np.sqrt(2.0)*s):
                    bad.append(f'mean Re*Im = {c:.3g}, expected {want}')
            rec.margin('noise_moment_dev_over_bound',
                       max(abs(m)/(np.sqrt(2.0)*s),
                           0 if nt == 'white_noise' else
                           abs(m2-2.0)/(2.0*np.sqrt(2.0)*s)))
            if bad:
                rec.violation(f'C13:noise-distribution-{nt}',
                              f'pooled over {n} data of batch {batch_id}: ' +
                              '; '.join(bad), {'batch': batch_id, 'ntype': nt})


# --------------------------------------------------------------------------
# operations
def op_assign(ctx, sv, sh, log):
    r = ctx.r
    what = gen.choice(r, ['nf', 'nf', 're', 're', 'std'])
    if what == 'std':
        if sh.std is not None and r.random() < 0.5:
            val = None
        else:
            val = sh.scale*10.0**r.uniform(-1, 1, sh.shape)
        log.append({'op': 'set_std', 'value': val})
        sv.standard_deviation = cp(val)
        sh.std = cp(val)
        where = 'set_std'
    else:
        u = r.random()
        form = ('none' if u < 0.15 else 'scalar' if u < 0.4 else
                gen.choice(r, list(FORMS)))
        val = gen_param(r, form, sh.shape, sh.scale, rel=(what == 're'),
                        exact=sh.exact)
        name = 'noise_floor' if what == 'nf' else 'relative_error'
        log.append({'op': 'set_'+what, 'form': form, 'value': val})
        assign(ctx, sv, name, val, 'assignment')
        setattr(sh, what, norm_param(val, sh.shape))
        sh.forms[what] = form
        where = 'set_'+what
    ctx.rec.event('assign_ops')
    check_state(ctx, sv, sh, where)
    ctx.rec.distinct((where,)+sh.label())
    return sv, sh


def gen_noise_kw(r, sh, minamp=None, ntype=None, addto=None, offsets=None):
    kw = {}
    lab = {}
    minamp = minamp or gen.choice(r, MINAMP)
    lab['minamp'] = minamp
    if minamp == 'half_nf':
        kw['min_amplitude'] = 'half_nf'
    elif minamp == 'none':
        kw['min_amplitude'] = None
    elif minamp == 'float':
        a = np.abs(sh.data['observed'])
        a = a[np.isfinite(a)]
        if sh.exact and a.size:
            kw['min_amplitude'] = float(gen.choice(r, list(np.unique(a))))
        elif a.size:
            kw['min_amplitude'] = float(np.exp(r.uniform(
                np.log(a.min())-0.5, np.log(a.max())+0.5)))
        else:
            kw['min_amplitude'] = float(sh.scale)
    ntype = ntype or gen.choice(r, ['default']+NTYPES)
    lab['ntype'] = ntype
    if ntype != 'default':
        kw['ntype'] = ntype
    addto = addto or gen.choice(r, ADDTO)
    if addto == 'other':
        cand = [k for k, v in sh.data.items()
                if k not in ('observed', 'weights', 'residual') and
                np.iscomplexobj(v)]
        if cand:
            kw['add_to'] = gen.choice(r, sorted(cand))
        else:
            addto = 'new'
    if addto == 'observed':
        kw['add_to'] = 'observed'
    elif addto == 'new':
        kw['add_to'] = 'NEW'
    lab['addto'] = addto
    if r.random() < 0.35:
        kw['mean_noise'] = rnd(r.uniform(-2, 2), 3)
    lab['mean'] = 'mean_noise' in kw
    offsets = offsets or gen.choice(r, ['none', 'none', 'min', 'max', 'both',
                                        'zero_inf'])
    lab['offsets'] = offsets
    off = sh.offsets()
    pick = (lambda: float(gen.choice(r, list(np.unique(off))))) if (
        sh.exact and off.size) else (
        lambda: rnd(r.uniform(0.0, 1.1*(off.max() if off.size else 100.0)), 2))
    if offsets in ('min', 'both'):
        kw['min_offset'] = pick()
    if offsets in ('max', 'both'):
        kw['max_offset'] = pick()
    if offsets == 'zero_inf':
        kw['min_offset'] = 0.0
        kw['max_offset'] = float('inf')
    return kw, lab


def check_add_noise(ctx, sh, kw, pre_raw, post, nf_used, where, noise_keys):
    """Judge one add_noise call.  `sh` is the shadow *before* the call (its
    nf already resynchronised if the halving mechanism fired); `pre_raw` the
    data sets before, `post` the observation after; `nf_used` the assigned
    noise floor the amplitude rule refers to."""
    rec = ctx.rec
    target = kw.get('add_to', 'observed')
    ntype = kw.get('ntype', 'white_noise')
    mean = kw.get('mean_noise', 0.0)
    obs_old = pre_raw['observed']
    shape = obs_old.shape
    # 1. other data sets untouched
    rec.event('add_noise_other_data_checks')
    for k, v in pre_raw.items():
        if k == target or k in INTERNAL:
            continue
        if k not in post['raw'] or not same_arr(post['raw'][k], v):
            ctx.viol('C13:add-noise-touches-other-data',
                     f'add_noise(add_to={target!r}) changed data set {k!r}')
    if target not in post['raw']:
        ctx.viol('C13:add-noise-target-missing', f'{target!r} not created')
    t_old = pre_raw.get(target)
    if t_old is None:
        t_old = np.zeros(shape, dtype=complex)
    t_new = post['raw'][target]
    # 2. expected cuts
    ma = kw.get('min_amplitude', 'half_nf')
    thr = None
    if isinstance(ma, str):
        thr = None if nf_used is None else np.asarray(nf_used)/2.0
    elif ma is not None:
        thr = float(ma)
    absd = np.abs(obs_old)
    cut = np.zeros(shape, bool)
    care = np.ones(shape, bool)
    if thr is not None:
        thr_b = np.broadcast_to(thr, shape)
        with np.errstate(invalid='ignore'):
            cut |= absd < thr_b
    off = sh.offsets()
    mino = kw.get('min_offset', 0.0)
    maxo = kw.get('max_offset', np.inf)
    co = (off < mino) | (off > maxo)
    if not sh.exact:
        for t in (mino, maxo):
            if np.isfinite(t):
                care &= ~(np.abs(off-t) <= 1e-9*max(1.0, abs(t)))[:, :, None]
    cut = cut | co[:, :, None]
    rec.event('cut_mask_checks')
    rec.event('cut_mask_data', int(care.sum()))
    rec.extra_add('data_cut_by_rule', int((cut & care).sum()))
    isn = np.isnan(t_new)
    wrong_keep = cut & care & ~isn
    if wrong_keep.any():
        i = tuple(int(x[0]) for x in np.nonzero(wrong_keep))
        ctx.viol('C13:add-noise-cut-missing',
                 f'{int(wrong_keep.sum())} data that the amplitude/offset '
                 f'rules cut are not NaN, e.g. {i}: |d|={absd[i]:.6g} '
                 f'thr={None if thr is None else np.broadcast_to(thr, shape)[i]}'
                 f' offset={off[i[0], i[1]]:.6g} min/max={mino}/{maxo}')
    # 3. kept data: noise consistent with std
    std = sh.exp_std(obs_old)
    keep = ~cut & care & np.isfinite(t_old)
    if std is None:
        rec.event('add_noise_without_std_checks')
        if not same_arr(t_new[keep], t_old[keep]):
            ctx.viol('C13:add-noise-without-std-changes-data',
                     'no noise model defined, but kept data changed')
        return
    keep &= np.isfinite(std)
    wrong_cut = keep & ~np.isfinite(t_new)
    if wrong_cut.any():
        i = tuple(int(x[0]) for x in np.nonzero(wrong_cut))
        ctx.viol('C13:add-noise-cut-too-much',
                 f'{int(wrong_cut.sum())} data were set to NaN although no '
                 f'rule cuts them, e.g. {i}: |d|={absd[i]:.6g} '
                 f'thr={None if thr is None else np.broadcast_to(thr, shape)[i]}'
                 f' offset={off[i[0], i[1]]:.6g} min/max={mino}/{maxo}')
    n = int(keep.sum())
    if not n:
        return
    rec.event('noise_modulus_checks')
    rec.event('noise_modulus_data', n)
    s = std[keep]
    q = (t_new[keep]-t_old[keep])/s - (1+1j)*mean
    # rounding: forming old+noise and subtracting old again
    tol = 16*EPS*(np.abs(t_old[keep])+np.abs(t_new[keep]))/s + \
        32*EPS*(1.0+abs(mean)*np.sqrt(2.0))
    if ntype == 'white_noise':
        dev = np.abs(np.abs(q)-1.0)
        what = '|noise - (1+i) mean std| = std (white noise)'
    elif ntype == 'gaussian_correlated':
        dev = np.abs(q.real-q.imag)
        what = 'Re = Im of the random part (gaussian_correlated)'
    else:
        # independent parts: nothing per datum beyond finiteness
        dev = np.where(np.isfinite(q), 0.0, np.nan)
        what = 'finite noise (gaussian_uncorrelated)'
    with np.errstate(invalid='ignore'):
        ratio = dev/tol
    worst = float(np.max(ratio)) if np.isfinite(ratio).all() else float('nan')
    rec.margin('noise_rule_dev_over_tol', worst)
    if not (worst <= 1.0):
        ctx.viol(f'C13:add-noise-modulus-{ntype}',
                 f'{where}: added noise violates {what}: worst deviation/tol '
                 f'= {worst:.3g}; q[:3]={q[:3]}, std[:3]={s[:3]}')
    if ntype == 'gaussian_uncorrelated' and n >= 4:
        # Re == Im on every datum would be the correlated kind
        if np.all(q.real == q.imag):
            ctx.viol(f'C13:add-noise-modulus-{ntype}',
                     'real and imaginary noise parts identical on all '
                     f'{n} data')
    if ctx.pool is not None:
        ctx.pool.add(ntype, q)
    _ = noise_keys


def op_add_noise(ctx, sv, sh, log, kw=None, lab=None, tag=''):
    r = ctx.r
    if kw is None:
        kw, lab = gen_noise_kw(r, sh)
    if kw.get('add_to') == 'NEW':
        ctx.nnoise += 1
        kw['add_to'] = f'noise{ctx.nnoise}'
    pre = observe(sv)
    ctx.nfile += 1
    keys = (ctx.case['seed'], ctx.case['k'], ctx.case['i'], ctx.nfile)
    log.append({'op': 'add_noise', 'kw': dict(kw), 'rng_keys': keys})
    halving_class = (isinstance(sh.nf, np.ndarray) and
                     kw.get('min_amplitude', 'half_nf') == 'half_nf')
    with seeded_noise(keys):
        sv.add_noise(**kw)
    ctx.rec.event('add_noise_ops')
    post = observe(sv)
    nf_used = cp(sh.nf)
    # noise parameters must be what was assigned
    if not same_param(post['nf'], sh.nf):
        if (halving_class and isinstance(post['nf'], np.ndarray) and
                post['nf'].shape == sh.nf.shape and
                np.array_equal(post['nf'], sh.nf/2.0)):
            ctx.rec.event('halving_class_hits')
            ctx.viol(K_HALVE, 'add_noise(min_amplitude=\'half_nf\') with an '
                     f'array noise floor (form {sh.forms.get("nf")}) halved '
                     f'the stored noise_floor: before {brief(sh.nf)}, after '
                     f'{brief(post["nf"])}', abort=False)
            sh.nf = post['nf'].copy()       # follow it, keep monitoring
        else:
            ctx.viol('C13:noise-floor-changed-by-add_noise',
                     f'noise_floor before {brief(sh.nf)} after '
                     f'{brief(post["nf"])}')
    elif halving_class:
        ctx.rec.event('halving_class_clean')
    if not same_param(post['re'], sh.re):
        ctx.viol('C13:relative-error-changed-by-add_noise',
                 f'relative_error before {brief(sh.re)} after '
                 f'{brief(post["re"])}')
    if sh.std is not None and not same_arr(post['std'], sh.std):
        ctx.viol('C13:explicit-std-changed-by-add_noise',
                 'explicit standard_deviation changed')
    check_add_noise(ctx, sh, kw, pre['raw'], post, nf_used, 'add_noise'+tag,
                    keys)
    # the data set that was the target now holds what the survey holds
    target = kw.get('add_to', 'observed')
    sh.data[target] = post['raw'][target].copy()
    check_state(ctx, sv, sh, 'add_noise', obs=post)
    ctx.rec.distinct(('add_noise',)+sh.label()+tuple(
        (lab or {}).get(k) for k in ('minamp', 'ntype', 'addto', 'offsets',
                                     'mean')))
    return sv, sh


def gen_selection(r, sh):
    sel, idx = {}, []
    for name, keys in (('sources', sh.skeys), ('receivers', sh.rkeys),
                       ('frequencies', sh.fkeys)):
        n = len(keys)
        u = r.random()
        if u < 0.4 or n == 0:
            idx.append(list(range(n)))
            continue
        if u < 0.55:
            i = int(r.integers(n))
            sel[name] = keys[i]
            idx.append([i])
            continue
        m = int(r.integers(1, n+1))
        ii = [int(x) for x in r.choice(n, m, replace=False)]
        if r.random() < 0.5:
            ii.sort()
        sel[name] = [keys[i] for i in ii]
        idx.append(ii)
    u = r.random()
    if u < 0.4:
        rem = True
    elif u < 0.7:
        rem = sel['remove_empty'] = True
    else:
        rem = sel['remove_empty'] = False
    return sel, idx, rem


def ref_select(sh, idx, remove_empty):
    out = sh.sub(*idx)
    obs = out.data['observed']
    if remove_empty and np.isfinite(obs).any():
        nn = ~np.isnan(obs)
        out = out.sub(list(np.flatnonzero(nn.any(axis=(1, 2)))),
                      list(np.flatnonzero(nn.any(axis=(0, 2)))),
                      list(np.flatnonzero(nn.any(axis=(0, 1)))))
    return out


def op_select(ctx, sv, sh, log):
    sel, idx, rem = gen_selection(ctx.r, sh)
    log.append({'op': 'select', 'kw': sel})
    pre = observe(sv)
    new = sv.select(**sel)
    ctx.rec.event('select_ops')
    bad = raw_equal(pre, observe(sv))
    if bad:
        ctx.viol('C13:select-modifies-original', f'changed: {bad}')
    exp = ref_select(sh, idx, rem)
    ctx.rec.event('select_subcube_data', int(np.prod(exp.shape)))
    check_geometry(ctx, new, exp, 'select')
    o = check_state(ctx, new, exp, 'select')
    extra = set(o['raw']) - set(exp.data) - set(INTERNAL)
    if extra:
        ctx.viol('C13:data-wrong-after-select', f'unexpected data {extra}')
    ctx.rec.distinct(('select',)+sh.label()+(
        tuple(sorted(k for k in sel if k != 'remove_empty')), rem,
        exp.shape != tuple(len(i) for i in idx)))
    if ctx.r.random() < 0.6 and min(exp.shape) > 0:
        return new, exp
    return sv, sh


def op_roundtrip(ctx, sv, sh, log, keep):
    r = ctx.r
    kind = gen.choice(r, ['copy', 'copy', 'dict', 'dict_copy', 'h5', 'npz',
                          'json'])
    import emg3d
    log.append({'op': 'roundtrip', 'kind': kind})
    pre = observe(sv)
    if kind == 'copy':
        new = sv.copy()
    elif kind in ('dict', 'dict_copy'):
        new = emg3d.Survey.from_dict(sv.to_dict(copy=(kind == 'dict_copy')))
    else:
        ctx.nfile += 1
        fn = os.path.join(ctx.tmp, f's{ctx.nfile}.{kind}')
        kws = {} if r.random() < 0.5 else {'name': 'mysurvey'}
        with contextlib.redirect_stdout(None):
            sv.to_file(fn, verb=0, **kws)
            new = emg3d.Survey.from_file(fn, **kws)
        os.unlink(fn)
    ctx.rec.event('roundtrip_ops')
    bad = raw_equal(pre, observe(sv))
    if bad:
        ctx.viol(f'C13:{kind}-modifies-original', f'changed: {bad}')
    exp = sh.clone()
    check_geometry(ctx, new, exp, kind)
    check_state(ctx, new, exp, kind)
    ctx.rec.distinct(('roundtrip', kind)+sh.label())
    independent = kind not in ('dict',)     # to_dict(copy=False) shares
    if r.random() < 0.5:
        if independent:
            keep.append((sv, sh, kind+'-twin'))
        return new, exp
    if independent:
        keep.append((new, exp, kind+'-twin'))
    return sv, sh


def op_inspect(ctx, sv, sh, log):
    log.append({'op': 'inspect'})
    pre = observe(sv)
    repr(sv)
    sv._repr_html_()
    _ = sv.shape, sv.size, sv.count
    sv.source_coordinates()
    if sh.shape[1]:
        sv.receiver_coordinates()
        sv.receiver_coordinates(sh.skeys[0])
    _ = sv.standard_deviation
    sv.to_dict()
    ctx.rec.event('inspect_ops')
    bad = raw_equal(pre, observe(sv))
    if bad:
        ctx.viol('C13:read-only-call-modifies-survey', f'changed: {bad}')
    check_state(ctx, sv, sh, 'inspect')
    return sv, sh


_SIM = {}


def sim_model():
    import emg3d
    if 'm' not in _SIM:
        grid = emg3d.TensorMesh([np.ones(8)*200.0]*3, origin=(-800,)*3)
        _SIM['m'] = emg3d.Model(grid, 1.0)
    return _SIM['m']


def new_sim(sv, **kw):
    import emg3d
    return emg3d.Simulation(sv, sim_model(), gridding='same', max_workers=1,
                            tqdm_opts=False, solver_opts={
                                'maxit': 1, 'verb': -1, 'sslsolver': False,
                                'semicoarsening': False,
                                'linerelaxation': False}, **kw)


def ref_misfit(obs, syn, std):
    fin = np.isfinite(obs)
    if not fin.any():
        return 0.0
    res = (syn-obs)[fin]
    return float(0.5*np.sum((res.real**2 + res.imag**2)/std[fin]**2))


def restored_sim(sv, syn):
    """Simulation as it comes back from a what='results' dictionary."""
    import emg3d
    sim = new_sim(sv)
    d = sim.to_dict('results')
    d['survey']['data']['synthetic'] = syn.copy()
    d['computed'] = True
    return emg3d.Simulation.from_dict(d)


def twin_survey(ctx, sh, syn, perms):
    """Same survey with sources/receivers/frequencies listed in another
    order, built from the shadow only."""
    import emg3d
    p0, p1, p2 = perms
    ix = np.ix_(p0, p1, p2)
    srcs = {sh.skeys[i]: ctx.objs['src'][sh.skeys[i]] for i in p0}
    recs = {sh.rkeys[i]: ctx.objs['rec'][sh.rkeys[i]] for i in p1}
    freqs = {sh.fkeys[i]: sh.fvals[i] for i in p2}
    data = {'observed': sh.data['observed'][ix].copy()}
    if syn is not None:
        data['synthetic'] = syn[ix].copy()

    def perm(a):
        if isinstance(a, np.ndarray):      # (size-1 arrays: labelled class)
            return a[ix].copy() if a.size > 1 else float(a.reshape(-1)[0])
        return a
    tw = emg3d.Survey(srcs, recs, freqs, data=data, noise_floor=perm(sh.nf),
                      relative_error=perm(sh.re))
    if sh.std is not None:
        tw.standard_deviation = sh.std[ix].copy()
    return tw


def op_misfit(ctx, sv, sh, log):
    r = ctx.r
    rec = ctx.rec
    real = ctx.real_left > 0 and sh.shape[0]*sh.shape[2] <= 6 and \
        r.random() < 0.5
    obs = sh.data['observed']
    fin = np.isfinite(obs)
    std = sh.exp_std()
    entry = {'op': 'misfit', 'mode': 'real' if real else 'restored'}
    log.append(entry)
    pre = observe(sv)

    def leave():
        """Continue on the original survey; Simulation() / compute() /
        misfit may have added or refreshed these three data sets."""
        o = observe(sv)
        for k in ('synthetic', 'weights', 'residual'):
            if k in o['raw']:
                sh.data[k] = o['raw'][k].copy()
        return sv, sh
    with warnings.catch_warnings():
        warnings.simplefilter('ignore')
        if real:
            ctx.real_left -= 1
            sim = new_sim(sv)
            sim.compute()
            syn = np.array(sv.data['synthetic'].data)
            msv = sv
        else:
            syn = np.where(fin, obs, 0)*(1+0.5*r.standard_normal(sh.shape)) + \
                sh.scale*(r.standard_normal(sh.shape) +
                          1j*r.standard_normal(sh.shape))
            if r.random() < 0.3:
                syn[~fin] = NAN
            entry['synthetic'] = syn
            sim = restored_sim(sv, syn)
            msv = sim.survey
            # the original got a 'synthetic' data set from Simulation()
            now = observe(sv)
            for k in ('synthetic',):
                if k not in pre['raw'] and k in now['raw']:
                    pre['raw'][k] = now['raw'][k]
            bad = raw_equal(pre, now)
            if bad:
                ctx.viol('C13:simulation-modifies-survey', f'changed: {bad}')
        if std is None:
            # nothing defined: documented to raise (unless weights of an
            # earlier evaluation are still stored); no verdict either way
            try:
                sim.misfit
                rec.event('misfit_without_std_returned')
            except ValueError:
                rec.event('misfit_without_std_raises')
            return leave()
        m = float(sim.misfit)
    rec.event('misfit_calls')
    post = observe(msv)
    if np.isnan(syn[fin]).any():
        rec.event('misfit_skipped_synthetic_nan')
        return leave()
    # stale-weights class: the survey carries weights from an earlier misfit
    # which belong to another noise model / other observations
    stale = False
    w_old = sh.data.get('weights')
    if w_old is not None:
        cur = std
        old = sh.w_std
        stale = (old is None or
                 not same_arr(np.where(fin, cur, 0), np.where(fin, old, 0)))
    m_exp = ref_misfit(obs, syn, std)
    entry['misfit'] = m
    entry['expected'] = m_exp
    ok = np.isfinite(m) and np.isfinite(m_exp)
    err = abs(m-m_exp)/m_exp if (ok and m_exp > 0) else (
        0.0 if ok and m == m_exp else float('nan'))
    rec.event('misfit_checks')
    rec.event('misfit_checks_real' if real else 'misfit_checks_restored')
    rec.event('misfit_data', int(fin.sum()))
    if stale:
        rec.event('stale_weights_class')
    else:
        rec.margin('misfit_rel_err_over_tol', err/TOL_MISFIT)
    if not (err <= TOL_MISFIT):
        if stale:
            res = (syn-obs)
            with np.errstate(invalid='ignore'):
                m_st = float(0.5*np.nansum(np.where(
                    fin, w_old*(res.real**2+res.imag**2), np.nan)))
            if abs(m-m_st) <= 1e-10*abs(m_st):
                rec.event('stale_weights_hits')
                ctx.viol(K_STALE, 'the survey carries data weights of an '
                         'earlier misfit evaluation; after the noise model / '
                         'the observations changed a new Simulation still '
                         f'uses them: misfit {m:.12e}, documented formula '
                         f'{m_exp:.12e} (stale weights give {m_st:.12e})',
                         abort=False)
            else:
                ctx.viol('C13:misfit-formula', f'misfit {m:.15e} != 1/2 sum '
                         f'|syn-obs|^2/std^2 = {m_exp:.15e} (rel {err:.3e}); '
                         'stale-weights class but not explained by it')
        else:
            ctx.viol('C13:misfit-formula', f'misfit {m:.15e} != 1/2 sum_finite'
                     f' |syn-obs|^2/std^2 = {m_exp:.15e} (rel {err:.3e}, '
                     f'{int(fin.sum())} finite data, mode {entry["mode"]})')
    # data weights = 1/std^2 on finite observations
    w = post['raw'].get('weights')
    if not stale:
        rec.event('weights_checks')
        if w is None or w.shape != std.shape:
            ctx.viol('C13:weights-formula', 'no weights stored')
        a, e = w[fin], 1.0/std[fin]**2
        if a.size:
            okw = np.isfinite(a).all() and np.isfinite(e).all()
            werr = float(np.max(np.abs(a-e)/e)) if okw else float('nan')
            rec.margin('weights_rel_err_over_tol', werr/TOL_W)
            if not (werr <= TOL_W):
                ctx.viol('C13:weights-formula', 'data weights != 1/std^2: '
                         f'max rel. deviation {werr:.3e}')
    # noise settings untouched by the evaluation
    msh = sh.clone()
    for k in ('synthetic', 'weights', 'residual'):
        if k in post['raw']:
            msh.data[k] = post['raw'][k].copy()
    if not stale:
        msh.w_std = std.copy()
    check_state(ctx, msv, msh, 'misfit', obs=post)
    # permutation twin
    if not stale:
        perms = [[int(x) for x in r.permutation(n)] for n in sh.shape]
        with warnings.catch_warnings():
            warnings.simplefilter('ignore')
            if real:
                tw = twin_survey(ctx, sh, None, perms)
                tsim = new_sim(tw)
                tsim.compute()
                tsyn = np.array(tw.data['synthetic'].data)
                same_syn = same_close(tsyn, syn[np.ix_(*perms)], 1e-12)
            else:
                tw = twin_survey(ctx, sh, syn, perms)
                tsim = restored_sim(tw, syn[np.ix_(*perms)])
                same_syn = True
            mt = float(tsim.misfit)
        if same_syn:
            rec.event('perm_checks')
            perr = abs(mt-m)/abs(m) if (np.isfinite(mt) and m != 0) else (
                0.0 if mt == m else float('nan'))
            rec.margin('perm_rel_err_over_tol', perr/TOL_MISFIT)
            if not (perr <= TOL_MISFIT):
                ctx.viol('C13:misfit-not-permutation-invariant',
                         f'misfit {m:.15e}, after reordering sources/'
                         f'receivers/frequencies by {perms}: {mt:.15e}')
        else:
            rec.event('perm_skipped_synthetic_differs')
    rec.distinct(('misfit', entry['mode'], stale)+sh.label())
    # continue on the survey that now carries synthetic/weights/residual
    if real or r.random() < 0.7:
        return msv, msh
    return leave()


def same_close(a, b, tol):
    if a.shape != b.shape:
        return False
    m = np.isfinite(a) & np.isfinite(b)
    if not np.array_equal(np.isfinite(a), np.isfinite(b)):
        return False
    if not m.any():
        return True
    return bool(np.max(np.abs(a[m]-b[m])/np.abs(b[m])) <= tol)


def op_compute_observed(ctx, sv, sh, log):
    """Real compute(observed=True, **add_noise options): the documented way
    synthetic observations with noise are produced."""
    r = ctx.r
    ctx.real_left -= 1
    kw, lab = gen_noise_kw(r, sh, addto='default', offsets=gen.choice(
        r, ['none', 'min', 'both']))
    if lab['minamp'] == 'float':     # was drawn from the old observations
        kw.pop('min_amplitude', None)
        lab['minamp'] = 'default'
    pre = observe(sv)
    ctx.nfile += 1
    keys = (ctx.case['seed'], ctx.case['k'], ctx.case['i'], ctx.nfile)
    log.append({'op': 'compute_observed', 'kw': dict(kw), 'rng_keys': keys})
    halving_class = (isinstance(sh.nf, np.ndarray) and
                     kw.get('min_amplitude', 'half_nf') == 'half_nf')
    with warnings.catch_warnings():
        warnings.simplefilter('ignore')
        sim = new_sim(sv)
        with seeded_noise(keys):
            sim.compute(observed=True, **kw)
    ctx.rec.event('compute_observed_ops')
    post = observe(sv)
    syn = post['raw']['synthetic']
    if not np.isfinite(syn).all():
        ctx.rec.event('compute_observed_skipped_synthetic_nan')
        raise Abort()
    nf_used = cp(sh.nf)
    if not same_param(post['nf'], sh.nf):
        if (halving_class and isinstance(post['nf'], np.ndarray) and
                np.array_equal(post['nf'], sh.nf/2.0)):
            ctx.rec.event('halving_class_hits')
            ctx.viol(K_HALVE, 'compute(observed=True) [add_noise with default '
                     'min_amplitude] with an array noise floor halved the '
                     f'stored noise_floor: before {brief(sh.nf)}, after '
                     f'{brief(post["nf"])}', abort=False)
            sh.nf = post['nf'].copy()
        else:
            ctx.viol('C13:noise-floor-changed-by-add_noise',
                     f'noise_floor before {brief(sh.nf)} after '
                     f'{brief(post["nf"])} (compute observed)')
    # as if add_noise had been called on observed := synthetic
    pre_raw = {k: v for k, v in pre['raw'].items()
               if k not in ('observed', 'synthetic')}
    pre_raw['observed'] = syn.copy()
    pre_raw['synthetic'] = syn.copy()
    sh.data['observed'] = syn.copy()
    sh.data['synthetic'] = syn.copy()
    check_add_noise(ctx, sh, kw, pre_raw, post, nf_used, 'compute(observed)',
                    keys)
    sh.data['observed'] = post['raw']['observed'].copy()
    check_state(ctx, sv, sh, 'compute-observed', obs=post)
    ctx.rec.distinct(('compute_observed',)+sh.label()+(lab['minamp'],
                                                      lab['ntype']))
    return sv, sh


# --------------------------------------------------------------------------
# drivers
def run_history(ctx, seed, k, i, tier):
    r = ctx.r
    u = r.random()
    exact = u < 0.12
    spec = gen_spec(r, tier, exact=exact)
    ctx.case.update({'spec': spec_summary(spec), 'ops': []})
    log = ctx.case['ops']
    sv, sh = build(ctx, spec)
    ctx.objs = {'src': dict(sv.sources), 'rec': dict(sv.receivers)}
    ctx.rec.distinct(('construct', spec['data_as'])+sh.label())
    keep = []
    nops = int(r.integers(2, 7 if tier == 'quick' else 9))
    for _ in range(nops):
        u = r.random()
        if u < 0.22:
            sv, sh = op_assign(ctx, sv, sh, log)
        elif u < 0.50:
            sv, sh = op_add_noise(ctx, sv, sh, log)
        elif u < 0.64:
            sv, sh = op_select(ctx, sv, sh, log)
        elif u < 0.78:
            sv, sh = op_roundtrip(ctx, sv, sh, log, keep)
        elif u < 0.82:
            sv, sh = op_inspect(ctx, sv, sh, log)
        elif u < 0.84 and ctx.real_left > 0 and min(sh.shape) > 0 and \
                sh.shape[0]*sh.shape[2] <= 6:
            sv, sh = op_compute_observed(ctx, sv, sh, log)
        else:
            if min(sh.shape) > 0:
                sv, sh = op_misfit(ctx, sv, sh, log)
    # objects that were set aside must still be what they were
    for osv, osh, tag in keep:
        ctx.rec.event('independence_checks')
        check_state(ctx, osv, osh, 'operations-on-its-'+tag)
    if i < 2:
        ctx.rec.sample({'shape': spec['shape'], 'forms': spec['forms'],
                        'gap': spec['gap'], 'ops': [
                            {kk: vv for kk, vv in o.items()
                             if kk in ('op', 'kw', 'kind', 'mode', 'form')}
                            for o in log]})


def run_enum(ctx, combo):
    """One row of the add_noise option table: construct, add_noise twice."""
    r = ctx.r
    nff, ref, stdx, minamp, ntype, addto = combo
    spec = gen_spec(r, 'quick', shape=(2, 3, 2), complex_extra=True,
                    forms={'nf': nff, 're': ref, 'std': stdx})
    if spec['data_as'] in ('none', 'dict_noobs'):
        spec['data_as'] = 'dict'
    if spec['gap'] == 'all':
        spec['obs'] = np.where(r.random((2, 3, 2)) < 0.3, NAN,
                               spec['scale']*10.0**r.uniform(-1, 2, (2, 3, 2)))
    if spec['extra'] is None or not np.iscomplexobj(spec['extra']):
        spec['extra'] = (r.standard_normal((2, 3, 2)) + 1j*r.standard_normal(
            (2, 3, 2)))*spec['scale']
        spec['data_as'] = 'dict'
    ctx.case.update({'spec': spec_summary(spec), 'ops': [],
                     'combo': list(combo)})
    log = ctx.case['ops']
    sv, sh = build(ctx, spec)
    for rep in range(2):
        kw, lab = gen_noise_kw(r, sh, minamp=minamp, ntype=ntype, addto=addto)
        sv, sh = op_add_noise(ctx, sv, sh, log, kw=kw, lab=lab,
                              tag=f' (call {rep+1})')
    ctx.rec.extra_set('enum_rows', ['/'.join(str(c) for c in combo)])


def run_stats(ctx):
    """Pooled noise statistics: 6x8x5 survey, 5 fresh data sets per ntype."""
    r = ctx.r
    spec = gen_spec(r, 'thorough', shape=(6, 8, 5),
                    forms={'nf': 'rec_freq', 're': 'scalar', 'std': False})
    spec['obs'] = np.where(np.isfinite(spec['obs']), spec['obs'],
                           spec['scale']*(1+1j))
    spec['gap'] = 'none'
    if spec['data_as'] in ('none', 'dict_noobs'):
        spec['data_as'] = 'array'
    ctx.case.update({'spec': {'shape': spec['shape'], 'stats': True},
                     'ops': []})
    sv, sh = build(ctx, spec)
    for nt in NTYPES:
        for rep in range(5):
            kw = {'ntype': nt, 'add_to': 'NEW', 'min_amplitude': None}
            if rep == 4:
                kw['mean_noise'] = 0.5
            sv, sh = op_add_noise(ctx, sv, sh, ctx.case['ops'], kw=kw,
                                  lab={'minamp': 'none', 'ntype': nt,
                                       'addto': 'new', 'offsets': 'none'})


def run_batch(batch):
    import traceback
    rec = common.Rec(max_viol=12)
    seed, tier, k = batch['seed'], batch['tier'], batch['k']
    tmp = tempfile.mkdtemp(prefix='vf-c13-')
    pool = Pool()
    combos = enum_combos()
    if batch['mode'] == 'hist':
        items = [('hist', i) for i in range(batch['n'])] + [('stats', -1)]
    else:
        items = [('enum', c) for c in batch['combos']]
    only = batch.get('only')
    real_budget = 6 if tier == 'quick' else 14
    try:
        for kind, i in items:
            if only is not None and i != only:
                continue
            case = {'seed': seed, 'k': k, 'i': i, 'kind': kind}
            ctx = Ctx(rec, gen.rng(seed, 'C13', k, i), case, tmp, tier)
            ctx.pool = pool
            ctx.real_left = real_budget
            try:
                if kind == 'hist':
                    run_history(ctx, seed, k, i, tier)
                elif kind == 'enum':
                    run_enum(ctx, combos[i])
                else:
                    run_stats(ctx)
            except Abort:
                pass
            except Exception:  # noqa - emg3d raised on a valid input / harness
                rec.inconclusive('exception in history: ' +
                                 traceback.format_exc()[-900:], case)
            real_budget = ctx.real_left if kind == 'hist' else real_budget
        pool.judge(rec, batch.get('id'))
    finally:
        shutil.rmtree(tmp, ignore_errors=True)
    return rec.result()


def finalize(merged, tier):
    common.require_events(merged, {
        'state_checks': 6000, 'std_formula_checks': 4000,
        'std_explicit_checks': 1000, 'std_none_checks': 100,
        'assign_ops': 800, 'add_noise_ops': 2000, 'cut_mask_checks': 2000,
        'noise_modulus_checks': 1200, 'add_noise_without_std_checks': 30,
        'select_ops': 500, 'roundtrip_ops': 500, 'independence_checks': 400,
        'misfit_checks': 600, 'misfit_checks_real': 40, 'perm_checks': 500,
        'weights_checks': 500, 'noise_stat_checks': 60,
        'compute_observed_ops': 10, 'geometry_checks': 2000})
    ex = merged['extra']
    if tier == 'thorough':
        rows = ex.get('set:enum_rows', [])
        ex['exhaustive'] = False       # histories are sampled
        ex['enum_table_complete'] = (len(rows) == len(enum_combos()))
