"""Seeded survey / simulation problems shared by C07, C08, C11, C12."""
import numpy as np
from vf import gen

# BiCGSTAB + plain F-cycle: with cycling semicoarsening / line relaxation the
# pre-conditioner runs three cycles per call and its stagnation test aborts the
# whole solve ("STAGNATED (returned field is zero)") once the inner residual
# reaches rounding level, which happens for tol ~ 1e-11.
SOLVER_TIGHT = {'sslsolver': True, 'semicoarsening': False,
                'linerelaxation': False, 'verb': -1, 'maxit': 200}


def all_converged(sim, which=('efield', 'bfield')):
    """True if every recorded solve of the simulation reports exit == 0."""
    for w in which:
        d = getattr(sim, f'_dict_{w}_info', None)
        if d is None:
            continue
        for src, dd in d.items():
            for freq, info in dd.items():
                info = sim._load(info, 'info') if info is not None else None
                if info is not None and info['exit'] != 0:
                    return False
    return True


def problem_spec(r, shape=None, case=None, mapping=None, nsrc=None, nfreq=None,
                 nrec=None, src_kinds=None, rec_kinds=None, allow_relative=True,
                 nan_frac=None, noise=None, stretched=None):
    """JSON-able description of a small survey problem (no emg3d objects)."""
    shape = tuple(shape or gen.choice(r, [(8, 8, 8), (8, 8, 8), (8, 10, 8),
                                          (10, 8, 8)]))
    case = case or gen.choice(r, gen.CASES)
    mapping = mapping or gen.choice(r, gen.MAPPINGS)
    base = float(10.0**r.uniform(1.7, 2.3))          # ~50-200 m cells
    stretched = (r.random() < 0.6) if stretched is None else stretched
    hs = []
    for n in shape:
        if stretched:
            f = r.uniform(1.0, 1.25)
            c = (n-1)/2
            h = f**np.abs(np.arange(n) - c)
        else:
            h = np.ones(n)
        hs.append(h*base*r.uniform(0.8, 1.2))
    origin = [-float(h.sum()/2) + float(r.uniform(-20, 20)) for h in hs]
    gs = {'hx': hs[0], 'hy': hs[1], 'hz': hs[2], 'origin': origin}
    ms = gen.model_spec(r, shape, case=case, mu=False, eps=False, decades=1.0,
                        mapping=mapping, homogeneous=False)
    # keep conductivities around 0.1..3 S/m so that the skin depth ~ grid
    for k in ('sigx', 'sigy', 'sigz'):
        if ms[k] is not None:
            ms[k] = 10.0**r.uniform(-1.0, 0.5, shape)
    nodes = [np.r_[0, np.cumsum(h)] + o for h, o in zip(hs, origin)]

    def inside(d, lo_i, hi_i):
        lo, hi = nodes[d][lo_i], nodes[d][-1-hi_i]
        e = 1e-3*(hi-lo)
        return float(r.uniform(lo+e, hi-e))

    nsrc = nsrc or int(gen.choice(r, [1, 1, 2]))
    nfreq = nfreq or int(gen.choice(r, [1, 1, 2]))
    nrec = nrec or int(gen.choice(r, [2, 3]))
    src_kinds = src_kinds or ['TxElectricDipole', 'TxElectricPoint',
                              'TxElectricWire', 'TxMagneticPoint',
                              'TxMagneticDipole']
    rec_kinds = rec_kinds or ['RxElectricPoint', 'RxElectricPoint',
                              'RxMagneticPoint']
    receivers = []
    src_margin = 2
    for _ in range(nrec):
        kind = gen.choice(r, rec_kinds)
        rel = bool(allow_relative and r.random() < 0.25)
        # A magnetic receiver's adjoint source (curl^T of a face
        # interpolation) reaches one cell further than an electric one: keep
        # it two cells inside, or the back-propagation source touches
        # tangential boundary edges and the solver cannot converge (exit=1).
        m = 2 if kind == 'RxMagneticPoint' else 1
        if rel and kind == 'RxMagneticPoint':
            src_margin = 3
        if rel:
            # small offset relative to the source centre; stays inside the
            # second..second-last cell because sources are two cells inside
            off = [float(r.uniform(-0.9, 0.9)*base*0.8) for _ in range(3)]
            coords = off + [float(r.uniform(-180, 180)),
                            float(r.uniform(-90, 90))]
        else:
            coords = [inside(0, m, m), inside(1, m, m), inside(2, m, m),
                      float(r.uniform(-180, 180)), float(r.uniform(-90, 90))]
        receivers.append({'kind': kind, 'coordinates': coords,
                          'relative': rel})
    sources = []
    for _ in range(nsrc):
        kind = gen.choice(r, src_kinds)
        strength = float(10.0**r.uniform(0, 2))

        def pt():
            return [inside(0, src_margin, src_margin),
                    inside(1, src_margin, src_margin),
                    inside(2, src_margin, src_margin)]
        if kind in ('TxElectricPoint', 'TxMagneticPoint'):
            coords = pt() + [float(r.uniform(-180, 180)),
                             float(r.uniform(-90, 90))]
            sources.append({'kind': kind, 'coordinates': coords,
                            'strength': strength})
        elif kind == 'TxElectricDipole':
            p0, p1 = pt(), pt()
            sources.append({'kind': kind, 'coordinates': [p0, p1],
                            'strength': strength})
        elif kind == 'TxMagneticDipole':
            c = [inside(0, 3, 3), inside(1, 3, 3), inside(2, 3, 3)]
            coords = c + [float(r.uniform(-180, 180)),
                          float(r.uniform(-90, 90))]
            sources.append({'kind': kind, 'coordinates': coords,
                            'strength': strength,
                            'length': float(base*r.uniform(0.2, 0.8))})
        else:
            pts = [pt() for _ in range(int(r.integers(3, 5)))]
            sources.append({'kind': kind, 'coordinates': pts,
                            'strength': strength})
    freqs = sorted(float(10.0**r.uniform(-0.5, 0.7)) for _ in range(nfreq))
    while len(set(freqs)) < nfreq:
        freqs = sorted(float(10.0**r.uniform(-0.5, 0.7)) for _ in range(nfreq))
    nan_frac = (gen.choice(r, [0.0, 0.0, 0.3]) if nan_frac is None
                else nan_frac)
    noise = noise or gen.choice(r, ['scalar', 'arrays', 'std', 'nf_only',
                                    're_only'])
    return {'shape': shape, 'gs': gs, 'ms': ms, 'sources': sources,
            'receivers': receivers, 'frequencies': freqs,
            'nan_frac': float(nan_frac), 'noise': noise,
            'noise_seed': int(r.integers(0, 2**31))}


def build_survey(ps, data=None, with_noise=True):
    """emg3d Survey from a problem spec (observed data optional)."""
    import emg3d
    srcs = []
    for s in ps['sources']:
        cls = getattr(emg3d, s['kind'])
        kw = {'strength': s['strength']}
        if 'length' in s:
            kw['length'] = s['length']
        srcs.append(cls(np.array(s['coordinates']), **kw))
    recs = [getattr(emg3d, c['kind'])(tuple(c['coordinates']),
                                      relative=c['relative'])
            for c in ps['receivers']]
    kw = {}
    shape = (len(srcs), len(recs), len(ps['frequencies']))
    if with_noise and data is not None:
        r = np.random.default_rng(ps['noise_seed'])
        amp = np.nanmedian(np.abs(data)) if np.isfinite(data).any() else 1.0
        kind = ps['noise']
        if kind == 'scalar':
            kw = {'noise_floor': float(amp*0.05), 'relative_error': 0.05}
        elif kind == 'nf_only':
            kw = {'noise_floor': float(amp*0.1)}
        elif kind == 're_only':
            kw = {'relative_error': 0.03}
        elif kind == 'arrays':
            kw = {'noise_floor': amp*r.uniform(0.02, 0.1, (shape[0], 1, 1)),
                  'relative_error': r.uniform(0.01, 0.1, (1, shape[1],
                                                           shape[2]))}
            # (size-1 arrays of ndim>0 are C13's business, not ours)
            kw = {k: (float(v.ravel()[0]) if v.size == 1 else v)
                  for k, v in kw.items()}
        elif kind == 'std':
            kw = {}
    survey = emg3d.Survey(srcs, recs, ps['frequencies'], data=data, **kw)
    if with_noise and data is not None and ps['noise'] == 'std':
        r = np.random.default_rng(ps['noise_seed'])
        amp = np.nanmedian(np.abs(data)) if np.isfinite(data).any() else 1.0
        survey.standard_deviation = amp*r.uniform(0.02, 0.2, shape)
    return survey


def build_model(ps, sig_override=None):
    """emg3d grid + Model; ``sig_override`` replaces the conductivities."""
    ms = dict(ps['ms'])
    if sig_override:
        ms.update(sig_override)
    return gen.build_emg3d(ps['gs'], ms)


def simulation(survey, model, tol=1e-11, **kw):
    import emg3d
    opts = dict(SOLVER_TIGHT, tol=tol)
    opts.update(kw.pop('solver_opts', {}))
    args = dict(gridding='same', receiver_interpolation='linear',
                max_workers=1, solver_opts=opts, tqdm_opts=False, verb=-1)
    args.update(kw)
    return emg3d.Simulation(survey, model, **args)


def observed_from(ps, r, tol=1e-9):
    """Synthetic 'observed' data from a perturbed model, with NaN gaps."""
    ms = ps['ms']
    over = {}
    for k in ('sigx', 'sigy', 'sigz'):
        if ms[k] is not None:
            over[k] = ms[k]*10.0**r.uniform(-0.15, 0.15, ms[k].shape)
    grid, model = build_model(ps, over)
    survey = build_survey(ps, with_noise=False)
    sim = simulation(survey, model, tol=tol)
    sim.compute()
    data = np.array(survey.data.synthetic.data)
    if ps['nan_frac'] > 0 and data.size > 1:
        mask = r.random(data.shape) < ps['nan_frac']
        if mask.all():
            mask.flat[0] = False
        data[mask] = np.nan + 1j*np.nan
    return data


def summarize(ps):
    return {'shape': ps['shape'], 'case': ps['ms']['case'],
            'mapping': ps['ms']['mapping'],
            'sources': [(s['kind'], s['coordinates']) for s in ps['sources']],
            'receivers': [(c['kind'], c['relative'], c['coordinates'])
                          for c in ps['receivers']],
            'frequencies': ps['frequencies'], 'noise': ps['noise'],
            'nan_frac': ps['nan_frac'], 'hx': ps['gs']['hx'],
            'origin': ps['gs']['origin']}
