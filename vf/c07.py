"""C07 - adjoint-state gradient equals the derivative of the data misfit.

Client-boundary monitor: Simulation.misfit / Simulation.gradient of a base
simulation vs misfit of fresh simulations at perturbed models.  Oracle:
second-order convergence of central differences and (double) Richardson
extrapolation.
"""
import warnings
import numpy as np
from vf import common, gen, simgen, refop

PROP = 'C07'
NEEDS_JIT = True
TIMEOUT = {'quick': 1500, 'thorough': 3400}
RULE = ("random 8x8x8 / 8x10x8 / 10x8x8 (stretched) grids, gridding='same', "
        "linear receiver interpolation; 6 mappings x 4 anisotropy cases; "
        "electric dipole/point/wire and magnetic point/dipole sources; "
        "electric and magnetic, absolute and relative receivers; 1-2 sources "
        "x 1-2 frequencies x 2-3 receivers; observed data from a perturbed "
        "model, 1/3 with NaN gaps; noise as scalar / arrays / explicit std / "
        "nf only / re only; base simulation in memory or file based, observed "
        "data complete from the start or one source-frequency pair written in "
        "place after a first gradient (then clean); directions dense / single "
        "cell / single component;"
        " central differences at h, h/2, h/4 (h = 1e-2 relative or in log "
        "units); distinct = (mapping, case, source kinds, receiver kinds, "
        "noise kind, direction kind) that reached the oracle with all solves "
        "converged")
ASSUMPTIONS = [
    "finite differences of fresh simulations define 'the derivative'; solver "
    "tolerance 1e-11 (BiCGSTAB + F-cycle) keeps solver noise below the floor "
    "1e-8*phi/h",
    "magnetic receivers are kept two cells inside the grid (their adjoint "
    "source otherwise touches tangential boundary edges and the solver "
    "reports failure); cases with a non-converged solve are skipped and "
    "counted",
    "no mu_r / epsilon_r (gradient not implemented there, documented)",
]
H0 = 1e-2


def plan(tier, seed):
    if tier == 'quick':
        return [{'id': f'g{k}', 'k': k, 'n': 10} for k in range(16)]
    b = [{'id': f'g{k}', 'k': k, 'n': 20} for k in range(100)]
    b += [{'id': f'bc{k}', 'k': 9000+k, 'n': 6, 'boundscheck': True}
          for k in range(16)]
    return b


def run_case(rec, seed, k, i, tmpdirs):
    warnings.simplefilter('ignore')
    r = gen.rng(seed, 'C07', k, i)
    ps = simgen.problem_spec(r)
    ms = ps['ms']
    obs = simgen.observed_from(ps, r)
    case = {'seed': seed, 'k': k, 'i': i, 'problem': simgen.summarize(ps)}
    state = {'ok': True, 'n': 0}

    # feature interactions: file-based execution of the base simulation and
    # user-named (dict) frequencies
    import tempfile
    file_based = bool(r.random() < 0.15)
    named = bool(r.random() < 0.3)
    psn = dict(ps, frequencies={f'{f_:.2f}Hz': f_ for f_ in ps['frequencies']}
               ) if named and len({f'{f_:.2f}' for f_ in ps['frequencies']}
                                  ) == len(ps['frequencies']) else ps
    case['file_based'], case['named_frequencies'] = file_based, psn is not ps
    # history: the observations of one source-frequency pair arrive later
    # (written in place into the same survey, followed by clean('computed'));
    # misfit and gradient reported afterwards belong to the full data set
    npairs = len(ps['sources'])*len(ps['frequencies'])
    staged = bool(npairs > 1 and r.random() < 0.4)
    late = (int(r.integers(len(ps['sources']))),
            int(r.integers(len(ps['frequencies']))))
    case['staged_observations'] = staged

    def phi(over=None, want_grad=False):
        grid, model = simgen.build_model(ps, over)
        sv = simgen.build_survey(psn, data=obs.copy())
        kw = {}
        if file_based and want_grad:
            tmpdirs.append(tempfile.mkdtemp(prefix='vf-c07-'))
            kw['file_dir'] = tmpdirs[-1]
        stage = staged and want_grad
        if stage:
            sv.data.observed[late[0], :, late[1]] = np.nan + 1j*np.nan
            if not np.isfinite(sv.data.observed.data).any():
                stage = False
                sv.data.observed[...] = obs
        sim = simgen.simulation(sv, model, **kw)
        if stage:
            _ = sim.misfit
            _ = sim.gradient
            state['ok'] &= simgen.all_converged(sim)
            sv.data.observed[...] = obs
            sim.clean('computed')
            rec.event('staged_observation_histories')
        m = float(sim.misfit)
        g = np.array(sim.gradient) if want_grad else None
        state['ok'] &= simgen.all_converged(sim)
        state['n'] += 1
        state['sim'] = sim
        return m, g

    phi0, g = phi(want_grad=True)
    sim0 = state['sim']
    rec.case()
    rec.event('gradient_calls')
    keys = [kk for kk in ('sigx', 'sigy', 'sigz') if ms[kk] is not None]
    shape = tuple(ps['shape'])
    # ---- shape and finiteness
    want_shape = shape if len(keys) == 1 else (len(keys),) + shape
    rec.event('shape_checks')
    if tuple(g.shape) != want_shape:
        rec.violation('C07:gradient-shape', f'gradient shape {g.shape} for '
                      f'case {ms["case"]}, expected {want_shape}', case)
        return
    if not np.all(np.isfinite(g)):
        rec.violation('C07:gradient-nonfinite', 'gradient has non-finite '
                      'entries', case)
        return
    if not state['ok']:
        # A failed back-propagation is only a legitimate solver outcome if
        # the residual source handed to the solver was a proper field.
        try:
            bad = [sf for sf in sim0._srcfreq
                   if not np.all(np.isfinite(sim0._get_rfield(*sf).field))]
        except Exception:  # noqa
            bad = []
        if bad:
            rec.violation('C07:nonfinite-backpropagation-source',
                          f'the residual source field of {bad[:2]} is not '
                          f'finite (missing observations not skipped?); the '
                          f'solver then returns nothing useful', case)
            return
        rec.event('skipped_solver_not_converged')
        return
    g = g.reshape((len(keys),) + shape)
    props = [refop.from_conductivity(ms[kk], ms['mapping']) for kk in keys]
    lin = not ms['mapping'].startswith('L')
    # ---- direction
    dkind = gen.choice(r, ['dense', 'dense', 'cell', 'component'])
    vs = [np.zeros(shape) for _ in keys]
    if dkind == 'dense':
        vs = [r.standard_normal(shape) for _ in keys]
    elif dkind == 'component':
        c = int(r.integers(len(keys)))
        vs[c] = r.standard_normal(shape)
    else:
        c = int(r.integers(len(keys)))
        flat = np.abs(g[c]).ravel()
        top = np.argsort(flat)[-max(1, flat.size//5):]
        idx = np.unravel_index(int(gen.choice(r, list(top))), shape)
        vs[c][idx] = 1.0
    if lin:
        vs = [v*np.abs(p) for v, p in zip(vs, props)]
    gv = float(sum(np.sum(gg*v) for gg, v in zip(g, vs)))
    gnorm = float(np.sqrt(sum(np.sum(gg**2) for gg in g)) *
                  np.sqrt(sum(np.sum(v**2) for v in vs)))
    D, phis = [], [phi0]
    for h in (H0, H0/2, H0/4):
        ph = []
        for sgn in (1, -1):
            over = {kk: refop.conductivity(p + sgn*h*v, ms['mapping'])
                    for kk, p, v in zip(keys, props, vs)}
            ph.append(phi(over)[0])
        phis.extend(ph)
        D.append((ph[0] - ph[1])/(2*h))
    if not state['ok']:
        rec.event('skipped_solver_not_converged')
        return
    if not np.all(np.isfinite(D)):
        rec.violation('C07:misfit-nonfinite', f'non-finite misfit at a '
                      f'perturbed model: {phis}', case)
        return
    pmax = max(abs(p) for p in phis)
    errs = [abs(d - gv) for d in D]
    floors = [1e-8*pmax/h for h in (H0, H0/2, H0/4)]
    R1 = (4*D[1] - D[0])/3
    R2 = (4*D[2] - D[1])/3
    RR = (16*R2 - R1)/15
    case.update({'phi0': phi0, 'gv': gv, 'D': D, 'R2': R2, 'RR': RR,
                 'direction': dkind, 'errs': errs})
    # ---- (1) second-order convergence while above the noise floor
    for a in (0, 1):
        if errs[a+1] > 10*floors[a+1] and errs[a] > 10*floors[a]:
            ratio = errs[a]/errs[a+1]
            rec.event('convergence_order_checks')
            rec.margin('abs_ratio_minus_4', abs(ratio-4))
            if not (3.0 <= ratio <= 5.0):
                rec.violation('C07:gradient-not-derivative',
                              f'central differences do not converge at second '
                              f'order to <g,v>: errors {errs}, ratio {ratio:.3f}'
                              f' (<g,v>={gv:.6e}, D={D})', case)
                return
    # ---- (2) Richardson values agree with <g, v>
    tol2 = 1e-5*abs(gv) + 1e-7*gnorm + 4*floors[2]
    tolr = 2e-6*abs(gv) + 2e-8*gnorm + 8*floors[2]
    rec.event('richardson_checks')
    rec.margin('richardson_over_tol', abs(R2-gv)/tol2)
    rec.margin('double_richardson_over_tol', abs(RR-gv)/tolr)
    if not (abs(R2 - gv) <= tol2) or not (abs(RR - gv) <= tolr):
        rec.violation('C07:gradient-not-derivative',
                      f'<g,v>={gv:.8e} but extrapolated finite-difference '
                      f'derivative {R2:.8e} / {RR:.8e} (D={D}, phi0={phi0:.6e},'
                      f' direction {dkind})', case)
        return
    rec.distinct((ms['mapping'], ms['case'],
                  tuple(sorted({s['kind'] for s in ps['sources']})),
                  tuple(sorted({(c['kind'], c['relative'])
                                for c in ps['receivers']})),
                  ps['noise'], dkind, ps['nan_frac'] > 0, file_based,
                  psn is not ps, staged))
    rec.extra_set('mappings', [ms['mapping']])
    rec.extra_set('source_kinds', [s['kind'] for s in ps['sources']])
    rec.extra_set('receiver_kinds', [f"{c['kind']}:{'rel' if c['relative'] else 'abs'}"
                                     for c in ps['receivers']])
    rec.sample({'problem': simgen.summarize(ps), 'direction': dkind,
                'phi0': phi0, '<g,v>': gv, 'central_differences': D,
                'richardson': R2, 'double_richardson': RR,
                'simulations_run': state['n']})


def run_batch(batch):
    rec = common.Rec(max_samples=2)
    for i in range(batch['n']):
        tmpdirs = []         # file_dir of this case's file-based simulation
        try:
            run_case(rec, batch['seed'], batch['k'], i, tmpdirs)
        except IndexError:
            raise
        except Exception:  # noqa
            import traceback
            rec.inconclusive('harness/emg3d exception: ' +
                             traceback.format_exc()[-900:],
                             {'k': batch['k'], 'i': i})
        finally:
            import shutil
            for d_ in tmpdirs:
                shutil.rmtree(d_, ignore_errors=True)
    return rec.result()


def finalize(merged, tier):
    common.require_events(merged, {'richardson_checks': 80,
                                   'convergence_order_checks': 100,
                                   'staged_observation_histories': 10})
    sk = merged['events'].get('skipped_solver_not_converged', 0)
    if sk > 0.25*max(1, merged['n_cases']):
        merged['inconclusive'].append(
            {'reason': f'{sk} of {merged["n_cases"]} cases skipped because a '
                       'solve did not converge', 'case': None})
