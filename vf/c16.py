"""C16 - automatic gridding meets its stated postconditions or fails loudly.

Monitor: a runtime contract (recording wrapper + postcondition) installed on
``emg3d.meshes.origin_and_widths`` and ``emg3d.meshes.construct_mesh`` (and the
top-level alias ``emg3d.construct_mesh``).  It judges *every* call that goes
through these two functions: the direct calls of the driver, the three
per-direction calls that ``construct_mesh`` makes itself, and the calls a
``Simulation`` makes when it grids automatically.

Oracle: the documented gridding rules written down again from the docstrings
of ``construct_mesh`` / ``skin_depth`` / ``wavelength`` / ``good_mg_cell_nr``
(no call into ``emg3d.meshes`` or ``emg3d.maps``):

  returns  =>  len(h) in cell_numbers, h finite and > 0,
               mesh covers survey domain (+ sea surface) and the buffer
               min(lambda_factor*2*pi*delta, max_buffer) (or its
               lambda_from_center form),
               adjacent generated widths differ by <= max(stretching),
               centre on a node / in a cell centre as requested,
               provided vector nodes inside the domain are mesh nodes,
               sea surface is a node or the "Seasurface" warning was given;
  otherwise    RuntimeError (no other exception type on valid input, no
               silent ``None``).
"""
import contextlib
import io
import math
import warnings
import numpy as np
from vf import common, gen

PROP = 'C16'
NEEDS_JIT = False
TIMEOUT = {'quick': 900, 'thorough': 3000}
RULE = ("seeded random calls: (a) origin_and_widths with frequency 10^[-3,3] "
        "(25 % negative/Laplace), 1-3 properties in six mappings, centres "
        "(also outside the domain), domain / distance / vector in every "
        "combination (vectors regular, stretched, jittered; inside, partly "
        "inside, outside the domain; nodes on the domain boundary), "
        "stretching pairs in both orders, width limits (none/float/pair), "
        "points per skin depth, lambda_factor, max_buffer, "
        "lambda_from_center, center_on_edge set/unset, sea surface near/far, "
        "default and custom cell_numbers, verb -1/0/1; (b) construct_mesh "
        "with property lists of length 1,2,3,4,7 and every per-direction "
        "argument as scalar/list/tuple-of-three/dict with None holes; (c) "
        "Simulation(gridding=single/frequency/source/both) with random "
        "surveys so that estimate_gridding_opts feeds construct_mesh; (d) "
        "good_mg_cell_nr on a parameter grid. distinct = (entry point, "
        "domain source, vector class, sea-surface outcome, centre mode, "
        "lambda_from_center, stretching order, limits kind, property count, "
        "Laplace?, outcome) of calls that reached the postcondition")
ASSUMPTIONS = [
    "the docstrings of construct_mesh/origin_and_widths/skin_depth/"
    "wavelength/good_mg_cell_nr are the specification; mu_0 from "
    "scipy.constants is a physical constant",
    "Laplace (negative frequency): the docstrings give no formula; the "
    "pinned convention delta(|f|)/sqrt(2 pi) is used for the buffer",
    "the minimum cell width is not part of the property and is not judged",
    "a provided vector with fewer than three nodes inside the survey domain "
    "may or may not be honoured (docs: 'at least two cells within the "
    "domain'); then either the vector-node clause or the centre clause must "
    "hold",
    "lambda_from_center with the centre outside the survey domain: on the "
    "side where the documented construction has no meaning only coverage of "
    "the survey domain is required",
    "RuntimeError is accepted as the loud failure for every input; that no "
    "mesh exists when it is raised is not verified",
    "inputs are sampled, not enumerated (only good_mg_cell_nr is enumerated "
    "over its parameter grid)",
]

MU0 = None  # filled from scipy.constants inside workers
# Documented default of `cell_numbers` (construct_mesh docstring).
DEFAULT_CELLS = (16, 24, 32, 40, 48, 64, 80, 96, 128, 160, 192, 256, 320, 384,
                 512, 640, 768, 1024)
RTOL = 1e-9          # relative to the coordinate scale of the mesh
DIRS = ('x', 'y', 'z')


# ---------------------------------------------------------------------------
# plan
def plan(tier, seed):
    if tier == 'quick':
        nd, pd, nm, pm, ns, ps = 16, 400, 6, 60, 4, 30
    else:
        nd, pd, nm, pm, ns, ps = 160, 640, 48, 100, 16, 50
    out = [{'id': f'dir{k}', 'mode': 'dir', 'k': k, 'n': pd}
           for k in range(nd)]
    out += [{'id': f'mesh{k}', 'mode': 'mesh', 'k': k, 'n': pm}
            for k in range(nm)]
    out += [{'id': f'sim{k}', 'mode': 'sim', 'k': k, 'n': ps}
            for k in range(ns)]
    out.append({'id': 'cellnr', 'mode': 'cellnr'})
    return out


# ---------------------------------------------------------------------------
# reference model (documented formulas)
def _mu0():
    global MU0
    if MU0 is None:
        from scipy.constants import mu_0
        MU0 = float(mu_0)
    return MU0


def mapping_name(m):
    if m is None:
        return 'Resistivity'
    if isinstance(m, str):
        return m
    return str(getattr(m, 'name'))


def sigma_from(prop, mapping):
    """Conductivity from a property value on the named mapping."""
    p = np.asarray(prop, dtype=float)
    if mapping == 'Resistivity':
        return 1.0/p
    if mapping == 'Conductivity':
        return p.copy()
    if mapping == 'LgResistivity':
        return 10.0**(-p)
    if mapping == 'LgConductivity':
        return 10.0**p
    if mapping == 'LnResistivity':
        return np.exp(-p)
    if mapping == 'LnConductivity':
        return np.exp(p)
    raise ValueError(mapping)


def prop_from(sigma, mapping):
    s = float(sigma)
    return {'Resistivity': 1.0/s, 'Conductivity': s,
            'LgResistivity': -math.log10(s), 'LgConductivity': math.log10(s),
            'LnResistivity': -math.log(s), 'LnConductivity': math.log(s)
            }[mapping]


def ref_skin_depth(f, sigma):
    """delta = sqrt(2/(omega sigma mu)), omega = 2 pi |f| (Eq. skindepth)."""
    d = math.sqrt(2.0/(2.0*math.pi*abs(f)*sigma*_mu0()))
    if f < 0:       # pinned Laplace convention, see ASSUMPTIONS
        d /= math.sqrt(2.0*math.pi)
    return d


def ref_cell_width(f, sigma, pps, limits):
    """Used by the generators only (never by a verdict)."""
    w = ref_skin_depth(f, sigma)/float(np.asarray(pps).ravel()[0])
    if limits is not None:
        lim = np.atleast_1d(np.asarray(limits, float))
        w = float(lim[0]) if lim.size == 1 else float(np.clip(w, *lim))
    return w


def bind_dir(args, kwargs):
    names = ['frequency', 'properties', 'center', 'domain', 'vector',
             'seasurface']
    d = dict(zip(names, args))
    d.update(kwargs)
    return d


def ref_direction(d):
    """What the documentation promises for one direction."""
    f = float(d['frequency'])
    mapping = mapping_name(d.get('mapping'))
    sig = np.atleast_1d(sigma_from(np.atleast_1d(np.asarray(
        d['properties'], dtype=float)), mapping))
    s_neg = float(sig[min(sig.size-1, 1)])
    s_pos = float(sig[min(sig.size-1, 2)])
    c = float(d['center'])
    vec = d.get('vector')
    if vec is not None:
        vec = np.asarray(vec, dtype=float).ravel()
    dom = d.get('domain')
    dist = d.get('distance')
    if dom is not None:
        dom = [float(dom[0]), float(dom[1])]
        src = 'domain'
    elif dist is not None:
        dom = [c - abs(float(dist[0])), c + abs(float(dist[1]))]
        src = 'distance'
    elif vec is not None:
        dom = [float(vec.min()), float(vec.max())]
        src = 'vector'
    else:
        return None
    user_dom = list(dom)
    ss = d.get('seasurface')
    if ss is not None:
        ss = float(ss)
        dom[1] = max(dom[1], ss)
    lf = float(d.get('lambda_factor', 1.0))
    mb = float(d.get('max_buffer', 100000))
    lfc = bool(d.get('lambda_from_center', False))
    wl = [lf*2.0*math.pi*ref_skin_depth(f, s_neg),
          lf*2.0*math.pi*ref_skin_depth(f, s_pos)]
    inside = dom[0] <= c <= dom[1]
    if lfc:
        # centre -> edge of Dc -> back to the edge of Ds = two wavelengths;
        # max_buffer is the largest distance centre -> edge of Dc.
        lo, hi = dom[0], dom[1]
        if c >= dom[0]:
            b = max(0.0, (2*wl[0] - (c - dom[0]))/2.0)
            lo = min(dom[0], max(dom[0] - b, c - mb))
        if c <= dom[1]:
            b = max(0.0, (2*wl[1] - (dom[1] - c))/2.0)
            hi = max(dom[1], min(dom[1] + b, c + mb))
    else:
        lo = dom[0] - min(wl[0], mb)
        hi = dom[1] + min(wl[1], mb)
    st = d.get('stretching', [1.0, 1.5])
    smax = max(float(st[0]), float(st[1]))
    coe = d.get('center_on_edge', 'notset')
    if isinstance(coe, str) and coe == 'notset':
        coe = True          # documented default until v1.9.0
    if ss is not None:
        # "10 % extra stretching" without, "25 % extra stretching" with a
        # (provided or centre-on-edge) vector; taken on the larger factor so
        # that nothing beyond the property's wording is demanded.
        smax *= 1.25 if (vec is not None or coe) else 1.1
    cn = d.get('cell_numbers')
    cells = set(DEFAULT_CELLS) if cn is None else {
        int(v) for v in np.asarray(cn).ravel()}
    n_in = None
    vin = None
    if vec is not None:
        vin = vec[(vec >= user_dom[0]) & (vec <= user_dom[1])]
        n_in = int(vin.size)
    return {'dom': dom, 'user_dom': user_dom, 'dom_src': src, 'lo': lo,
            'hi': hi, 'smax': smax, 'cells': cells, 'coe': bool(coe),
            'center': c, 'vec': vec, 'vin': vin, 'n_in': n_in, 'ss': ss,
            'lfc': lfc, 'inside': inside, 'wl': wl, 'mb': mb,
            'st': [float(st[0]), float(st[1])],
            'laplace': f < 0, 'nprop': int(sig.size),
            'limits': d.get('min_width_limits')}


def _near(nodes, x, tol):
    """Distance of x to the closest node; NaN-safe via caller."""
    return float(np.min(np.abs(nodes - x)))


def judge_direction(rec, d, x0, hx, warns, case, entry):
    """Postcondition for one direction that returned (x0, hx)."""
    ref = ref_direction(d)
    if ref is None:
        rec.inconclusive('harness: direction without domain/distance/vector '
                         'returned a mesh', case)
        return None
    if not entry.startswith('construct_mesh:'):
        rec.event('direction_returns')
    # ---- widths
    rec.event('width_checks')
    try:
        h = np.asarray(hx, dtype=float)
        o = float(x0)
    except Exception:  # noqa
        rec.violation('C16:return-protocol', f'origin/widths not numeric: '
                      f'{type(x0).__name__}, {type(hx).__name__}', case)
        return None
    if h.ndim != 1 or h.size == 0:
        rec.violation('C16:return-protocol',
                      f'widths have shape {h.shape}', case)
        return None
    if not (np.all(np.isfinite(h)) and np.isfinite(o)):
        rec.violation('C16:nonfinite-mesh', 'origin or widths not finite',
                      case)
        return None
    if not bool(np.all(h > 0)):
        rec.violation('C16:nonpositive-width', f'min width {h.min()}', case)
        return None
    # ---- cell count
    rec.event('cell_count_checks')
    if int(h.size) not in ref['cells']:
        rec.violation('C16:cell-count-not-permitted',
                      f'{h.size} cells; permitted {sorted(ref["cells"])[:30]}',
                      case)
    nodes = o + np.r_[0.0, np.cumsum(h)]
    scale = max(abs(nodes[0]), abs(nodes[-1]), nodes[-1]-nodes[0],
                abs(ref['center']))
    tol = RTOL*scale
    # ---- coverage
    rec.event('coverage_checks')
    short_dom = max(nodes[0] - ref['dom'][0], ref['dom'][1] - nodes[-1])
    short_buf = max(nodes[0] - ref['lo'], ref['hi'] - nodes[-1])
    rec.margin('domain_shortfall_over_scale', short_dom/scale)
    rec.margin('buffer_shortfall_over_scale', short_buf/scale)
    if not (short_dom <= tol):
        rec.violation('C16:survey-domain-not-covered',
                      f'mesh [{nodes[0]}, {nodes[-1]}] does not contain the '
                      f'survey domain {ref["dom"]} (short by {short_dom})',
                      case)
    elif not (short_buf <= tol):
        rec.violation('C16:buffer-short',
                      f'mesh [{nodes[0]}, {nodes[-1]}] does not contain the '
                      f'computational domain [{ref["lo"]}, {ref["hi"]}] '
                      f'(survey domain {ref["dom"]}, wavelengths*factor '
                      f'{ref["wl"]}, max_buffer {ref["mb"]}, '
                      f'lambda_from_center {ref["lfc"]}); short by '
                      f'{short_buf}', case)
    if ref['lfc']:
        rec.event('coverage_checks_lambda_from_center')
    # ---- which cells are cells of the provided vector
    vec = ref['vec']
    iscell = np.zeros(h.size, dtype=bool)
    if vec is not None and vec.size > 1:
        vs = np.sort(vec)
        j = np.clip(np.searchsorted(vs, nodes), 1, vs.size-1)
        j = np.where(np.abs(nodes - vs[j-1]) <= np.abs(nodes - vs[j]), j-1, j)
        isn = np.abs(nodes - vs[j]) <= tol
        iscell = isn[:-1] & isn[1:] & (j[1:] == j[:-1]+1)
    # ---- stretching
    rec.event('stretching_checks')
    if h.size > 1:
        ratio = np.maximum(h[1:]/h[:-1], h[:-1]/h[1:])
        judged = ~(iscell[1:] & iscell[:-1])
        rec.event('stretching_pairs', int(judged.sum()))
        if judged.any():
            worst = float(ratio[judged].max())
            rec.margin('ratio_over_bound_seasurface' if ref['ss'] is not None
                       else 'ratio_over_max_stretching', worst/ref['smax'])
            if not (worst <= ref['smax']*(1+RTOL)):
                i = int(np.flatnonzero(judged)[np.argmax(ratio[judged])])
                rec.violation(
                    'C16:stretching-exceeded' + (
                        '-with-seasurface' if ref['ss'] is not None else ''),
                    f'adjacent widths {h[i]} / {h[i+1]} (cells {i},{i+1}) '
                    f'ratio {worst} > max(stretching) {ref["smax"]}', case)
    # ---- vector nodes / centre
    vclass = 'none'
    nodes_ok = None
    if vec is not None:
        n_in = ref['n_in']
        vclass = 'in>=3' if n_in >= 3 else f'in={n_in}'
        if n_in > 0:
            miss = np.array([_near(nodes, v, tol) for v in ref['vin']])
            nodes_ok = bool(np.all(miss <= tol))
            if n_in >= 3:
                rec.event('vector_node_checks')
                rec.event('vector_nodes_judged', n_in)
                rec.margin('vector_node_miss_over_scale',
                           float(miss.max())/scale)
                if not nodes_ok:
                    k = int(np.argmax(miss))
                    rec.violation(
                        'C16:vector-node-missing',
                        f'{int(np.sum(~(miss <= tol)))} of {n_in} vector '
                        f'nodes inside the survey domain {ref["user_dom"]} '
                        f'are not mesh nodes, e.g. {ref["vin"][k]} (nearest '
                        f'node {miss[k]} away)', case)
    centre_mode = 'n/a'
    if ref['ss'] is None and (vec is None or ref['n_in'] < 3):
        c = ref['center']
        if ref['coe']:
            centre_mode = 'node'
            dev = _near(nodes, c, tol)
        else:
            centre_mode = 'cell'
            i = int(np.clip(np.searchsorted(nodes, c) - 1, 0, h.size-1))
            dev = abs(0.5*(nodes[i] + nodes[i+1]) - c)
            # c may sit on a node within rounding: look at both neighbours
            for ii in (i-1, i+1):
                if 0 <= ii < h.size:
                    dev = min(dev, abs(0.5*(nodes[ii] + nodes[ii+1]) - c))
        centre_ok = bool(dev <= tol)
        if vec is None or ref['n_in'] == 0:
            rec.event('centre_checks')
            rec.event('centre_checks_' + centre_mode)
            rec.margin('centre_dev_over_scale', dev/scale)
            if not centre_ok:
                rec.violation(
                    'C16:centre-not-on-node' if ref['coe'] else
                    'C16:centre-not-at-cell-centre',
                    f'centre {c} is {dev} away from the closest '
                    f'{"node" if ref["coe"] else "cell centre"} '
                    f'(center_on_edge={d.get("center_on_edge", "notset")})',
                    case)
        else:
            # one or two vector nodes in the domain: vector honoured or not
            rec.event('vector_or_centre_checks')
            centre_mode = 'either'
            if not (nodes_ok or centre_ok):
                rec.violation(
                    'C16:vector-dropped-and-centre-wrong',
                    f'{ref["n_in"]} vector node(s) inside the domain are not '
                    f'mesh nodes and the centre {c} is not where '
                    f'center_on_edge={ref["coe"]} asks for it either', case)
    # ---- sea surface
    ssclass = 'none'
    if ref['ss'] is not None:
        rec.event('seasurface_checks')
        miss = _near(nodes, ref['ss'], tol)
        warned = any(issubclass(w.category, UserWarning) and
                     'Seasurface' in str(w.message) for w in warns)
        is_node = bool(miss <= tol + 1e-8)
        ssclass = ('node' if is_node else 'miss') + ('+warn' if warned
                                                     else '')
        rec.event('seasurface_' + ssclass)
        if not (is_node or warned):
            rec.violation('C16:seasurface-missed-silently',
                          f'sea surface {ref["ss"]} is {miss} away from the '
                          'closest node and no warning was emitted', case)
    lim = ref['limits']
    limk = 'none' if lim is None else (
        'float' if np.atleast_1d(np.asarray(lim, float)).size == 1 else
        'pair')
    rec.distinct((entry, ref['dom_src'], vclass, ssclass, centre_mode,
                  ref['lfc'], 'inside' if ref['inside'] else 'outside',
                  's0<=s1' if ref['st'][0] <= ref['st'][1] else 's0>s1',
                  limk, ref['nprop'], 'laplace' if ref['laplace'] else 'f',
                  'default-cells' if d.get('cell_numbers') is None
                  else 'custom-cells'))
    return ref


# ---------------------------------------------------------------------------
# documented routing of construct_mesh arguments to the three directions
def _per_dir(value, name):
    """Split a construct_mesh argument into (x, y, z) per the docstring."""
    if value is None:
        return (None, None, None)
    if isinstance(value, dict):
        return (value['x'], value['y'], value['z'])
    if name in ('domain', 'vector') and isinstance(value, np.ndarray):
        return (value, value, value)
    if isinstance(value, (bool, np.bool_)):
        return (bool(value),)*3
    if isinstance(value, (int, float, np.integer, np.floating)):
        return (value, value, value)
    if len(value) == 3:
        return tuple(value)
    return (value, value, value)


def route_construct(d):
    """Per-direction arguments implied by a construct_mesh call (docs)."""
    p = d['properties']
    if isinstance(p, (int, float, np.integer, np.floating)):
        p = [p]
    p = [float(v) for v in np.asarray(p, dtype=float).ravel()]
    if len(p) == 1:
        pp = [[p[0], p[0], p[0]]]*3
    elif len(p) == 2:
        pp = [[p[0], p[1], p[1]]]*3
    elif len(p) == 3:      # p2: negative z; p3: all other directions
        pp = [[p[0], p[2], p[2]], [p[0], p[2], p[2]], [p[0], p[1], p[2]]]
    elif len(p) == 4:      # p2: horizontal; p3, p4: z down / up
        pp = [[p[0], p[1], p[1]], [p[0], p[1], p[1]], [p[0], p[2], p[3]]]
    elif len(p) == 7:
        pp = [[p[0], p[1], p[2]], [p[0], p[3], p[4]], [p[0], p[5], p[6]]]
    else:
        return None
    out = []
    split = {n: _per_dir(d.get(n), n) for n in
             ('domain', 'vector', 'distance', 'stretching',
              'min_width_limits', 'min_width_pps', 'center_on_edge')}
    for i in range(3):
        a = {'frequency': d['frequency'], 'properties': pp[i],
             'center': d['center'][i]}
        for n, v in split.items():
            if v[i] is not None:
                a[n] = v[i]
        if i == 2 and d.get('seasurface') is not None:
            a['seasurface'] = d['seasurface']
        for n in ('lambda_factor', 'max_buffer', 'lambda_from_center',
                  'mapping', 'cell_numbers'):
            if d.get(n) is not None:
                a[n] = d[n]
        out.append(a)
    return out


# ---------------------------------------------------------------------------
# the monitor
class Monitor:
    """Recording wrappers with postconditions on the two gridding entries."""

    def __init__(self, rec):
        self.rec = rec
        self.case = None          # description of the driving case
        self.stack = []           # open construct_mesh calls
        self.installed = False

    def install(self):
        import emg3d
        from emg3d import meshes
        if self.installed:
            return
        self.orig_oaw = meshes.origin_and_widths
        self.orig_cm = meshes.construct_mesh
        mon = self

        def origin_and_widths(*args, **kwargs):
            return mon.call_dir(args, kwargs)

        def construct_mesh(*args, **kwargs):
            return mon.call_mesh(args, kwargs)
        origin_and_widths.__wrapped__ = self.orig_oaw
        construct_mesh.__wrapped__ = self.orig_cm
        meshes.origin_and_widths = origin_and_widths
        meshes.construct_mesh = construct_mesh
        emg3d.construct_mesh = construct_mesh
        self.installed = True

    # -- origin_and_widths
    def call_dir(self, args, kwargs):
        rec = self.rec
        d = bind_dir(args, kwargs)
        inner = bool(self.stack)
        entry = 'via-construct_mesh' if inner else 'origin_and_widths'
        case = {'driver': self.case, 'entry': entry, 'call': describe(d)}
        rec.event('direction_calls')
        exc = None
        ret = None
        with warnings.catch_warnings(record=True) as ws:
            warnings.simplefilter('always')
            try:
                ret = self.orig_oaw(*args, **kwargs)
            except Exception as e:  # noqa
                exc = e
        try:
            self.judge_dir_outcome(d, ret, exc, ws, case, entry)
        except Exception:  # noqa - harness problem, not a verdict
            import traceback
            rec.inconclusive('harness error in direction postcondition: ' +
                             traceback.format_exc()[-900:], case)
        # hand the warnings on to whoever listens further out
        for w in ws:
            warnings.warn_explicit(w.message, w.category, w.filename,
                                   w.lineno)
        if exc is not None:
            raise exc
        return ret

    def judge_dir_outcome(self, d, ret, exc, ws, case, entry):
        rec = self.rec
        verb = d.get('verb', 0)
        if exc is not None:
            if self.stack:
                self.stack[-1]['dirs'].append('exc')
            if isinstance(exc, RuntimeError):
                rec.event('direction_runtime_errors')
                rec.distinct((entry, 'RuntimeError',
                              d.get('cell_numbers') is None))
            else:
                rec.violation(
                    'C16:unexpected-exception-' + type(exc).__name__,
                    f'{type(exc).__name__}: {exc} (valid input; only a mesh '
                    'or RuntimeError is allowed)', case)
            return
        want = 3 if verb < 0 else 2
        rec.event('return_protocol_checks')
        if not (isinstance(ret, tuple) and len(ret) == want):
            rec.violation('C16:return-protocol',
                          f'verb={verb}: returned {type(ret).__name__} of '
                          f'length {len(ret) if hasattr(ret, "__len__") else "?"}',
                          case)
            return
        x0, hx = ret[0], ret[1]
        if x0 is None or hx is None:
            if self.stack:
                self.stack[-1]['dirs'].append(None)
            if d.get('raise_error', True):
                rec.violation('C16:silent-failure',
                              'origin_and_widths returned None although '
                              'raise_error is not switched off', case)
            else:
                rec.event('direction_none_returns')
            return
        ref = judge_direction(rec, d, x0, hx, ws, case, entry)
        if self.stack:
            self.stack[-1]['dirs'].append((float(x0), np.array(hx, float)))
        return ref

    # -- construct_mesh
    def call_mesh(self, args, kwargs):
        rec = self.rec
        names = ['frequency', 'properties', 'center', 'domain', 'vector',
                 'seasurface']
        d = dict(zip(names, args))
        d.update(kwargs)
        case = {'driver': self.case, 'entry': 'construct_mesh',
                'call': describe(d)}
        rec.event('construct_mesh_calls')
        frame = {'dirs': []}
        self.stack.append(frame)
        exc = None
        ret = None
        buf = io.StringIO()
        with warnings.catch_warnings(record=True) as ws:
            warnings.simplefilter('always')
            try:
                with contextlib.redirect_stdout(buf):
                    ret = self.orig_cm(*args, **kwargs)
            except Exception as e:  # noqa
                exc = e
        self.stack.pop()
        try:
            self.judge_mesh_outcome(d, ret, exc, ws, frame, case)
        except Exception:  # noqa
            import traceback
            rec.inconclusive('harness error in mesh postcondition: ' +
                             traceback.format_exc()[-900:], case)
        for w in ws:
            warnings.warn_explicit(w.message, w.category, w.filename,
                                   w.lineno)
        if exc is not None:
            raise exc
        return ret

    def judge_mesh_outcome(self, d, ret, exc, ws, frame, case):
        rec = self.rec
        dirs = frame['dirs']
        if exc is not None:
            if isinstance(exc, RuntimeError):
                rec.event('construct_mesh_runtime_errors')
            else:
                rec.violation(
                    'C16:unexpected-exception-' + type(exc).__name__,
                    f'construct_mesh: {type(exc).__name__}: {exc}', case)
            return
        rec.event('construct_mesh_returns')
        if not (hasattr(ret, 'h') and hasattr(ret, 'origin') and
                len(ret.h) == 3):
            rec.violation('C16:return-protocol', 'construct_mesh returned '
                          f'{type(ret).__name__}', case)
            return
        # a direction that failed must make the whole call fail loudly
        if len(dirs) == 3 and any(x is None or isinstance(x, str)
                                  for x in dirs):
            rec.violation('C16:silent-failure', 'a direction found no grid '
                          'but construct_mesh returned a mesh', case)
            return
        # judge the mesh itself against the documented routing
        routed = route_construct(d)
        if routed is None:
            rec.inconclusive('harness: property list of unsupported length',
                             case)
            return
        for i, a in enumerate(routed):
            rec.event('mesh_direction_checks')
            sub = dict(case)
            sub['direction'] = DIRS[i]
            sub['routed'] = describe(a)
            wz = ws if i == 2 else []
            judge_direction(rec, a, float(ret.origin[i]), ret.h[i], wz, sub,
                            'construct_mesh:' + DIRS[i])
        rec.distinct(('construct_mesh', len(np.atleast_1d(np.asarray(
            d['properties'], float))), kind_of(d.get('domain')),
            kind_of(d.get('vector')), kind_of(d.get('distance')),
            kind_of(d.get('stretching')), kind_of(d.get('center_on_edge'))))


def kind_of(v):
    if v is None:
        return 'None'
    if isinstance(v, dict):
        return 'dict'
    if isinstance(v, np.ndarray):
        return 'ndarray'
    if isinstance(v, (bool, int, float)):
        return type(v).__name__
    try:
        return f'{type(v).__name__}{len(v)}'
    except TypeError:
        return type(v).__name__


def describe(d):
    """JSON-able, fully expanded description of call arguments."""
    out = {}
    for k, v in d.items():
        if k == 'mapping':
            out[k] = mapping_name(v)
        elif isinstance(v, dict):
            out[k] = {'dict': {kk: (None if vv is None else np.asarray(
                vv).tolist() if not isinstance(vv, (bool, int, float))
                else vv) for kk, vv in v.items()}}
        elif isinstance(v, tuple):
            out[k] = {'tuple': [None if x is None else x if isinstance(
                x, (bool, int, float)) else np.asarray(x).tolist()
                for x in v]}
        elif isinstance(v, np.ndarray):
            out[k] = {'ndarray': v.tolist()}
        elif isinstance(v, list):
            out[k] = [None if x is None else x if isinstance(
                x, (bool, int, float)) else np.asarray(x).tolist()
                for x in v]
        else:
            out[k] = v
    return out


# ---------------------------------------------------------------------------
# generators
def g_frequency(r):
    f = float(10.0**r.uniform(-3, 3))
    if r.random() < 0.3:
        f = float(gen.choice(r, [0.001, 0.01, 0.1, 0.5, 1.0, 2.0, 10.0, 100.]))
    return -f if r.random() < 0.25 else f


def g_sigma_centre(r):
    return float(10.0**r.uniform(-2.5, 1.0))


def g_sigma_buffer(r):
    u = r.random()
    if u < 0.2:
        return 1e-8                       # air
    if u < 0.3:
        return float(10.0**r.uniform(-8, -4))
    return float(10.0**r.uniform(-3.5, 1.0))


def g_center(r):
    u = r.random()
    if u < 0.2:
        return 0.0
    if u < 0.8:
        return float(np.round(r.uniform(-5000, 5000), 1))
    if u < 0.9:
        return float(np.round(r.uniform(-1e5, 1e5), 2))
    return float(np.round(r.uniform(3e5, 7e6), 1))     # UTM-like


def g_vector(r, c, lo, hi, w0):
    """Sorted node vector somewhere relative to the domain [lo, hi]."""
    u = r.random()
    n = int(gen.choice(r, [2, 3, 3, 4, 5, 6, 8, 11, 16, 24, 40]))
    w = float(w0*10.0**r.uniform(-0.5, 1.0))
    kind = gen.choice(r, ['regular', 'regular', 'stretched', 'jitter'])
    if kind == 'regular':
        hv = np.full(n-1, w)
    elif kind == 'stretched':
        s = r.uniform(1.0, 1.3)
        k0 = int(r.integers(0, n-1))
        hv = w*s**np.abs(np.arange(n-1) - k0)
    else:
        hv = w*r.uniform(0.5, 2.0, n-1)
    hv = np.round(hv, 3) + 1e-3
    L = float(hv.sum())
    if u < 0.55:          # around the centre
        start = c - r.uniform(0, 1)*L
    elif u < 0.8:         # somewhere overlapping the domain
        start = r.uniform(lo - 0.7*L, hi - 0.3*L)
    elif u < 0.9:         # outside the domain
        start = hi + r.uniform(0.01, 2)*w if r.random() < 0.5 else \
            lo - L - r.uniform(0.01, 2)*w
    else:                 # spans the whole domain and more
        hv = hv*max(1.0, 1.3*(hi-lo)/L)
        start = lo - r.uniform(0.05, 0.2)*(hi-lo)
    v = np.round(start, 3) + np.r_[0.0, np.cumsum(hv)]
    return np.round(v, 3)


def g_direction(r, allow_direct_only=True):
    """Truth for one direction: dict of origin_and_widths arguments."""
    a = {}
    c = g_center(r)
    a['center'] = c
    # domain / distance / vector
    lo = c - float(10.0**r.uniform(0.5, 4.2))
    hi = c + float(10.0**r.uniform(0.5, 4.2))
    if r.random() < 0.12:      # centre outside the survey domain
        wd = hi - lo
        gap = float(10.0**r.uniform(0, 3))
        lo, hi = (c + gap, c + gap + wd) if r.random() < 0.5 else \
            (c - gap - wd, c - gap)
    lo, hi = float(np.round(lo, 2)), float(np.round(hi, 2))
    combo = gen.choice(r, ['domain', 'domain', 'domain', 'distance',
                           'distance', 'vector', 'domain+vector',
                           'domain+vector', 'distance+vector',
                           'domain+distance'])
    return a, c, lo, hi, combo


def g_options(r, a, f, sig0, direct):
    """Optional arguments shared by both entry points (one direction)."""
    u = r.random()
    if u < 0.5:
        s0 = 1.0
    elif u < 0.78:
        s0 = float(np.round(r.uniform(1.0, 1.03), 4))
    elif u < 0.92:
        s0 = float(np.round(r.uniform(1.0, 1.1), 4))
    else:
        s0 = float(np.round(r.uniform(1.0, 1.5), 3))
    u = r.random()
    if u < 0.3:
        s1 = 1.5
    elif u < 0.9:
        s1 = float(np.round(r.uniform(1.0, 2.0), 3))
    else:
        s1 = 1.0
    if not (s0 == 1.0 and s1 == 1.5 and r.random() < 0.5):
        a['stretching'] = [s0, s1]
    u = r.random()
    if u < 0.5:
        pass
    elif u < 0.7:
        a['min_width_limits'] = float(np.round(10.0**r.uniform(0, 2.7), 2))
    else:
        m = float(np.round(10.0**r.uniform(0, 2.3), 2))
        a['min_width_limits'] = [m, float(np.round(
            m*10.0**r.uniform(0, 1.5), 2))]
    if r.random() < 0.5:
        a['min_width_pps'] = gen.choice(r, [1, 2, 3, 5, 10, float(np.round(
            r.uniform(1, 8), 2))])
    return a


def g_seasurface(r, c, f, sig0, a):
    dmin = ref_cell_width(f, sig0, a.get('min_width_pps', 3),
                          a.get('min_width_limits'))
    u = r.random()
    if u < 0.5:        # a few cells above the centre
        ss = c + dmin*r.uniform(0.05, 8)
    else:
        ss = c + float(10.0**r.uniform(-1, 3.7))
    ss = float(np.round(ss, 3))
    if not ss > c:
        ss = c + 1.0
    return ss


def g_cell_numbers(r):
    u = r.random()
    if u < 0.25:
        return [8, 16, 32, 64, 128]
    if u < 0.5:
        step = int(r.integers(1, 9))
        return list(range(int(r.integers(2, 12)), int(r.integers(40, 400)),
                          step))
    if u < 0.75:
        return [int(v) for v in r.integers(4, 300, 8)]   # unsorted, repeats
    return np.array([20, 40, 80, 160, 320, 640])


def gen_dir_call(seed, k, i):
    r = gen.rng(seed, 'C16', 'dir', k, i)
    f = g_frequency(r)
    mapping = gen.choice(r, gen.MAPPINGS)
    nprop = int(gen.choice(r, [1, 1, 2, 3, 3]))
    sig = [g_sigma_centre(r)] + [g_sigma_buffer(r) for _ in range(nprop-1)]
    props = [prop_from(s, mapping) for s in sig]
    if nprop == 1 and r.random() < 0.6:
        pin = props[0]
    elif r.random() < 0.3:
        pin = np.array(props)
    else:
        pin = list(props)
    a, c, lo, hi, combo = g_direction(r)
    a['frequency'] = f
    a['properties'] = pin
    if mapping != 'Resistivity' or r.random() < 0.3:
        a['mapping'] = mapping
    g_options(r, a, f, sig[0], True)
    dmin = ref_cell_width(f, sig[0], a.get('min_width_pps', 3),
                          a.get('min_width_limits'))
    if 'domain' in combo:
        dom = [lo, hi]
        a['domain'] = gen.choice(r, [dom, tuple(dom), np.array(dom)])
    if 'distance' in combo:
        a['distance'] = [float(np.round(abs(c-lo) if lo <= c else
                                        10.0**r.uniform(0.5, 4), 2)),
                         float(np.round(abs(hi-c) if hi >= c else
                                        10.0**r.uniform(0.5, 4), 2))]
        if 'domain' not in combo:
            lo, hi = c - a['distance'][0], c + a['distance'][1]
    if 'vector' in combo:
        v = g_vector(r, c, lo, hi, dmin)
        if combo == 'vector' and v.size < 3 and r.random() < 0.7:
            v = np.round(np.r_[v, v[-1] + (v[-1]-v[-2])*np.arange(1, 4)], 3)
        a['vector'] = v
        if 'domain' in combo and v.size >= 3 and r.random() < 0.25:
            # domain limits exactly on vector nodes
            i0 = int(r.integers(0, v.size-1))
            i1 = int(r.integers(i0+1, v.size))
            a['domain'] = [float(v[i0]), float(v[i1])]
    if r.random() < 0.6:
        a['lambda_factor'] = 0.0 if r.random() < 0.05 else float(np.round(
            10.0**r.uniform(-1.3, 0.4), 3))
    if r.random() < 0.5:
        a['max_buffer'] = float(np.round(10.0**r.uniform(2, 5.5), 1))
    if r.random() < 0.4:
        a['lambda_from_center'] = bool(r.random() < 0.85)
    u = r.random()
    if u < 0.4:
        a['center_on_edge'] = False
    elif u < 0.8:
        a['center_on_edge'] = True
    if r.random() < 0.3:
        a['seasurface'] = g_seasurface(r, c, f, sig[0], a)
    if r.random() < 0.3:
        a['cell_numbers'] = g_cell_numbers(r)
    u = r.random()
    if u < 0.15:
        a['verb'] = 1
    elif u < 0.3:
        a['verb'] = -1
    elif u < 0.4:
        a['verb'] = 0
    return a


def _wrap3(r, vals, name):
    """Encode three per-direction values in one of the documented formats."""
    same = all(_same(vals[0], v) for v in vals[1:])
    forms = ['tuple', 'list', 'dict']
    if same and vals[0] is not None:
        forms += ['single', 'single']
    form = gen.choice(r, forms)
    if form == 'single':
        return vals[0]
    if form == 'dict':
        return {'x': vals[0], 'y': vals[1], 'z': vals[2]}
    if form == 'list' and name != 'vector':
        return [vals[0], vals[1], vals[2]]
    return (vals[0], vals[1], vals[2])


def _same(a, b):
    if a is None or b is None:
        return a is None and b is None
    try:
        return bool(np.array_equal(np.asarray(a), np.asarray(b)))
    except Exception:  # noqa
        return False


def gen_mesh_call(seed, k, i):
    """construct_mesh call + the per-direction truth it was built from."""
    r = gen.rng(seed, 'C16', 'mesh', k, i)
    f = g_frequency(r)
    mapping = gen.choice(r, gen.MAPPINGS)
    nprop = int(gen.choice(r, [1, 2, 3, 4, 7, 7]))
    sig = [g_sigma_centre(r)] + [g_sigma_buffer(r) for _ in range(nprop-1)]
    props = [prop_from(s, mapping) for s in sig]
    if nprop == 1 and r.random() < 0.6:
        pin = props[0]
    elif r.random() < 0.3:
        pin = np.array(props)
    else:
        pin = list(props)
    # documented meaning: [centre, neg, pos] per direction
    if nprop == 1:
        tp = [[props[0]]*3]*3
    elif nprop == 2:
        tp = [[props[0], props[1], props[1]]]*3
    elif nprop == 3:
        tp = [[props[0], props[2], props[2]]]*2 + [[props[0], props[1],
                                                      props[2]]]
    elif nprop == 4:
        tp = [[props[0], props[1], props[1]]]*2 + [[props[0], props[2],
                                                      props[3]]]
    else:
        tp = [[props[0], props[1], props[2]], [props[0], props[3], props[4]],
              [props[0], props[5], props[6]]]
    truth = []
    same_opts = r.random() < 0.5
    shared = {}
    g_options(r, shared, f, sig[0], False)
    for j in range(3):
        a, c, lo, hi, combo = g_direction(r)
        if same_opts:
            a.update({kk: vv for kk, vv in shared.items()})
        else:
            g_options(r, a, f, sig[0], False)
        dmin = ref_cell_width(f, sig[0], a.get('min_width_pps', 3),
                              a.get('min_width_limits'))
        if 'domain' in combo:
            a['domain'] = [lo, hi]
        if 'distance' in combo:
            a['distance'] = [float(np.round(abs(c-lo) if lo <= c else
                                            10.0**r.uniform(0.5, 4), 2)),
                             float(np.round(abs(hi-c) if hi >= c else
                                            10.0**r.uniform(0.5, 4), 2))]
            if 'domain' not in combo:
                lo, hi = c - a['distance'][0], c + a['distance'][1]
        if 'vector' in combo:
            v = g_vector(r, c, lo, hi, dmin)
            if combo == 'vector' and v.size < 3:
                v = np.round(np.r_[v, v[-1] + (v[-1]-v[-2])*np.arange(1, 4)],
                             3)
            a['vector'] = v
        u = r.random()
        if u < 0.4:
            a['center_on_edge'] = False
        elif u < 0.8:
            a['center_on_edge'] = True
        truth.append(a)
    call = {'frequency': f, 'properties': pin,
            'center': gen.choice(r, [tuple, list, np.array])(
                [t['center'] for t in truth])}
    if mapping != 'Resistivity' or r.random() < 0.3:
        call['mapping'] = mapping
    for name in ('domain', 'vector', 'distance', 'stretching',
                 'min_width_limits', 'min_width_pps', 'center_on_edge'):
        vals = [t.get(name) for t in truth]
        if all(v is None for v in vals):
            continue
        enc = _wrap3(r, vals, name)
        # a bare three-element value would be read as per-direction
        call[name] = enc
    if r.random() < 0.6:
        call['lambda_factor'] = 0.0 if r.random() < 0.05 else float(np.round(
            10.0**r.uniform(-1.3, 0.4), 3))
    if r.random() < 0.5:
        call['max_buffer'] = float(np.round(10.0**r.uniform(2, 5.5), 1))
    if r.random() < 0.4:
        call['lambda_from_center'] = bool(r.random() < 0.85)
    if r.random() < 0.35:
        call['seasurface'] = g_seasurface(r, truth[2]['center'], f, sig[0],
                                          truth[2])
    if r.random() < 0.25:
        call['cell_numbers'] = g_cell_numbers(r)
    if r.random() < 0.3:
        call['verb'] = int(gen.choice(r, [-1, 0, 1]))
    # per-direction truth, completed with the shared arguments
    for j, t in enumerate(truth):
        t['frequency'] = f
        t['properties'] = tp[j]
        for n in ('mapping', 'lambda_factor', 'max_buffer',
                  'lambda_from_center', 'cell_numbers'):
            if n in call:
                t[n] = call[n]
        if j == 2 and 'seasurface' in call:
            t['seasurface'] = call['seasurface']
    return call, truth


# ---------------------------------------------------------------------------
# drivers
def selfcheck_routing(rec, call, truth, case):
    """My decoder of the call formats must give back the generator's truth."""
    routed = route_construct(call)
    ok = routed is not None
    if ok:
        for a, t in zip(routed, truth):
            keys = set(a) | set(t)
            for kk in keys:
                if kk in ('verb',):
                    continue
                if (kk in a) != (kk in t) or not _same(
                        a[kk] if kk != 'mapping' else mapping_name(a[kk]),
                        t[kk] if kk != 'mapping' else mapping_name(t[kk])):
                    ok = False
    rec.event('routing_selfchecks')
    if not ok:
        rec.inconclusive('harness self-check: decoded construct_mesh '
                         'arguments differ from the generated truth', case)
    return ok


def run_dir(rec, mon, batch):
    from emg3d import meshes
    seed = batch['seed']
    for i in range(batch['n']):
        if batch.get('only') is not None and i != batch['only']:
            continue
        a = gen_dir_call(seed, batch['k'], i)
        mon.case = {'mode': 'dir', 'seed': seed, 'k': batch['k'], 'i': i}
        rec.case()
        kw = dict(a)
        # positional / keyword mix as a client would write it
        args = (kw.pop('frequency'), kw.pop('properties'), kw.pop('center'))
        buf = io.StringIO()
        with warnings.catch_warnings(record=True):
            warnings.simplefilter('always')
            with contextlib.redirect_stdout(buf):
                try:
                    meshes.origin_and_widths(*args, **kw)
                except Exception:  # noqa - judged by the monitor
                    pass
        if i < 2:
            rec.sample({'call': describe(a)})


def run_mesh(rec, mon, batch):
    import emg3d
    seed = batch['seed']
    for i in range(batch['n']):
        if batch.get('only') is not None and i != batch['only']:
            continue
        call, truth = gen_mesh_call(seed, batch['k'], i)
        mon.case = {'mode': 'mesh', 'seed': seed, 'k': batch['k'], 'i': i}
        rec.case()
        if not selfcheck_routing(rec, call, truth,
                                 {'driver': mon.case,
                                  'call': describe(call)}):
            continue
        kw = dict(call)
        args = (kw.pop('frequency'), kw.pop('properties'), kw.pop('center'))
        with warnings.catch_warnings(record=True):
            warnings.simplefilter('always')
            try:
                emg3d.construct_mesh(*args, **kw)
            except Exception:  # noqa - judged by the monitor
                pass
        if i < 1:
            rec.sample({'call': describe(call)})


def run_sim(rec, mon, batch):
    """estimate_gridding_opts -> construct_mesh through Simulation."""
    import emg3d
    seed = batch['seed']
    for i in range(batch['n']):
        if batch.get('only') is not None and i != batch['only']:
            continue
        r = gen.rng(seed, 'C16', 'sim', batch['k'], i)
        mon.case = {'mode': 'sim', 'seed': seed, 'k': batch['k'], 'i': i}
        # survey
        ext = float(10.0**r.uniform(2, 4))
        c0 = np.array([g_center(r) if r.random() < 0.5 else 0.0,
                       g_center(r) if r.random() < 0.5 else 0.0,
                       -float(np.round(r.uniform(0, 2000), 1))])
        nsrc = int(r.integers(1, 4))
        nrec = int(r.integers(1, 6))
        asp = [1.0, float(10.0**r.uniform(-1.5, 0.3)),
               float(10.0**r.uniform(-2.5, -0.5))]
        if r.random() < 0.5:
            asp[0], asp[1] = asp[1], asp[0]

        def pt():
            return [float(np.round(c0[d_] + ext*asp[d_]*r.uniform(-1, 1), 1))
                    for d_ in range(3)]
        sources = [emg3d.TxElectricDipole(
            (*pt(), float(r.uniform(-180, 180)), float(r.uniform(-30, 30))))
            for _ in range(nsrc)]
        receivers = []
        for _ in range(nrec):
            if r.random() < 0.25:
                off = [float(np.round(ext*asp[d_]*r.uniform(-0.5, 0.5), 1))
                       for d_ in range(3)]
                receivers.append(emg3d.RxElectricPoint(
                    (*off, 0.0, 0.0), relative=True))
            else:
                receivers.append(emg3d.RxElectricPoint((*pt(), 0.0, 0.0)))
        freqs = sorted({float(np.round(10.0**r.uniform(-2, 1.5), 4))
                        for _ in range(int(r.integers(1, 4)))})
        survey = emg3d.Survey(sources, receivers, freqs)
        # model on a coarse grid around the survey
        n = [int(gen.choice(r, [4, 6, 8])) for _ in range(3)]
        span = [3*ext*max(asp[d_], 0.05) + 500.0 for d_ in range(3)]
        hs = [np.full(n[d_], 2*span[d_]/n[d_]) for d_ in range(3)]
        grid = emg3d.TensorMesh(hs, origin=[c0[d_] - span[d_]
                                            for d_ in range(3)])
        mapping = gen.choice(r, gen.MAPPINGS)
        sigm = 10.0**r.uniform(-3, 1, n)
        if r.random() < 0.5:
            sigm[:, :, -1] = 1e-8          # air on top
        pvals = np.vectorize(lambda s: prop_from(s, mapping))(sigm)
        model = emg3d.Model(grid, property_x=pvals, mapping=mapping)
        gridding = gen.choice(r, ['single', 'frequency', 'source', 'both'])
        gopts = {}
        if r.random() < 0.7:
            gopts['center_on_edge'] = gen.choice(
                r, [True, False, (True, False, False),
                    {'x': False, 'y': True, 'z': False}])
        if r.random() < 0.5:
            gopts['stretching'] = gen.choice(
                r, [[1.0, 1.3], [1.05, 1.6], ([1, 1.5], [1, 1.4], [1.02, 1.8]),
                    {'x': [1, 1.5], 'y': [1.1, 1.5], 'z': [1, 2.0]}])
        if r.random() < 0.4:
            gopts['min_width_limits'] = gen.choice(
                r, [[10., 500.], 100.0, ([20, 200], [20, 200], [10, 100])])
        if r.random() < 0.3:
            gopts['min_width_pps'] = gen.choice(r, [2, 5, (3, 3, 5)])
        if r.random() < 0.4:
            gopts['lambda_factor'] = float(np.round(r.uniform(0.2, 1.5), 2))
        if r.random() < 0.3:
            gopts['max_buffer'] = float(np.round(10.0**r.uniform(3, 5), 0))
        if r.random() < 0.3:
            gopts['lambda_from_center'] = True
        if r.random() < 0.25:
            gopts['vector'] = gen.choice(r, ['x', 'xy', 'z', 'xyz'])
        if r.random() < 0.2:
            # (a single pair for all directions is not among the formats
            # documented for `distance`; estimate_gridding_opts rejects it)
            gopts['distance'] = gen.choice(
                r, [([ext, 2*ext], None, None),
                    ([ext, ext], [ext/2, ext], [ext/2, ext/4]),
                    {'x': None, 'y': [ext, ext], 'z': [ext/2, ext/4]}])
        # history at the user's side: what touches the grids first
        first = gen.choice(r, ['get_grid', 'get_grid', 'repr', 'html',
                               'print_grid_info'])
        if r.random() < (0.2 if first == 'get_grid' else 0.6):
            top = max(float(s.center[2]) for s in sources)
            gopts['seasurface'] = float(np.round(
                top + (r.uniform(5, 800) if r.random() < 0.5 else
                       r.uniform(2, 60)), 1))
        auto_domain = [not (('vector' in gopts and DIRS[d_] in
                             gopts['vector']) or
                            ('distance' in gopts and _per_dir(
                                gopts['distance'], 'distance')[d_] is not None))
                       for d_ in range(3)]
        case = {'driver': mon.case, 'gridding': gridding, 'first': first,
                'gridding_opts': describe(gopts),
                'sources': [list(map(float, s.center)) for s in sources],
                'frequencies': freqs}
        rec.case()
        before = rec.r['events'].get('construct_mesh_calls', 0)
        try:
            with warnings.catch_warnings(record=True) as uw:
                warnings.simplefilter('always')
                sim = emg3d.Simulation(survey, model, gridding=gridding,
                                       gridding_opts=dict(gopts), name='c16')
                try:
                    if first == 'repr':
                        repr(sim)
                    elif first == 'html':
                        sim._repr_html_()
                    elif first == 'print_grid_info':
                        sim.print_grid_info(return_info=True)
                except RuntimeError:
                    pass
                for sname in survey.sources:
                    for fname in survey.frequencies:
                        try:
                            g = sim.get_grid(sname, fname)
                        except RuntimeError:
                            continue        # loud failure: fine
                        rec.event('simulation_grids')
                        # the mesh is now in the user's hands: its sea
                        # surface is a node, or a warning has reached the
                        # user (not merely been raised somewhere inside)
                        if 'seasurface' in gopts:
                            ss = gopts['seasurface']
                            nz = np.asarray(g.nodes_z, float)
                            isnode = bool(np.any(np.abs(nz - ss) <= RTOL*max(
                                abs(ss), nz[-1] - nz[0])))
                            told = any('easurface' in str(w.message)
                                       for w in uw)
                            rec.event('user_level_seasurface_checks')
                            rec.event('user_level_seasurface_' + (
                                'node' if isnode else 'miss+warn' if told
                                else 'miss-silent'))
                            if not isnode and not told:
                                rec.violation(
                                    'C16:seasurface-warning-not-delivered',
                                    f'Simulation.get_grid({sname!r}, '
                                    f'{fname!r}) after {first}: sea surface '
                                    f'{ss} is not a node of the mesh (nodes_z '
                                    f'around it: {nz[max(0, np.searchsorted(nz, ss)-1):][:2].tolist()}) '
                                    f'and no warning reached the caller',
                                    dict(case, first=first))
                        # survey-derived domain contains every instrument
                        pts = [np.array(s.center, float)
                               for s in survey.sources.values()]
                        for s in survey.sources.values():
                            pts += [np.array(rx.center_abs(s), float)
                                    for rx in survey.receivers.values()]
                        pts = np.array(pts)
                        for d_ in range(3):
                            if not auto_domain[d_]:
                                continue
                            nd = [g.nodes_x, g.nodes_y, g.nodes_z][d_]
                            sc = max(abs(nd[0]), abs(nd[-1]), nd[-1]-nd[0])
                            short = max(nd[0] - pts[:, d_].min(),
                                        pts[:, d_].max() - nd[-1])
                            rec.event('survey_extent_checks')
                            if not (short <= RTOL*sc):
                                rec.violation(
                                    'C16:survey-extent-not-covered',
                                    f'{DIRS[d_]}: automatic grid [{nd[0]}, '
                                    f'{nd[-1]}] does not contain all sources '
                                    f'and receivers ({pts[:, d_].min()} .. '
                                    f'{pts[:, d_].max()})', case)
        except Exception:  # noqa - not promised by C16: harness/other
            import traceback
            rec.inconclusive('Simulation-driven gridding raised: ' +
                             traceback.format_exc()[-900:], case)
        if rec.r['events'].get('construct_mesh_calls', 0) > before:
            rec.distinct(('simulation', gridding, first,
                          tuple(sorted(gopts))))


def run_cellnr(rec):
    """good_mg_cell_nr = {p 2^n <= M : p in 2..p_max, n >= n_min}."""
    from emg3d import meshes
    rec.case()
    got = [int(v) for v in meshes.good_mg_cell_nr()]
    rec.event('cellnr_checks')
    if got != list(DEFAULT_CELLS):
        rec.violation('C16:good-mg-cell-nr', 'default good_mg_cell_nr() is '
                      f'{got}, documented {list(DEFAULT_CELLS)}', None)
    for max_nr in (1, 7, 8, 16, 100, 1000, 1024, 5000, 50000):
        for max_lowest in range(2, 20):
            for min_div in range(0, 8):
                want = set()
                for p in range(2, max_lowest+1):
                    n = min_div
                    while p*2**n <= max_nr:
                        want.add(p*2**n)
                        n += 1
                got = meshes.good_mg_cell_nr(max_nr, max_lowest, min_div)
                rec.event('cellnr_checks')
                g = [int(v) for v in got]
                if g != sorted(want):
                    rec.violation(
                        'C16:good-mg-cell-nr',
                        f'good_mg_cell_nr({max_nr}, {max_lowest}, {min_div})'
                        f' = {g[:40]} but documented set is '
                        f'{sorted(want)[:40]}', {'max_nr': max_nr,
                                                 'max_lowest': max_lowest,
                                                 'min_div': min_div})
    rec.distinct(('good_mg_cell_nr', 'grid'))


def run_batch(batch):
    rec = common.Rec(max_viol=12)
    if batch['mode'] == 'cellnr':
        run_cellnr(rec)
        return rec.result()
    mon = Monitor(rec)
    mon.install()
    if batch['mode'] == 'dir':
        run_dir(rec, mon, batch)
    elif batch['mode'] == 'mesh':
        run_mesh(rec, mon, batch)
    elif batch['mode'] == 'sim':
        run_sim(rec, mon, batch)
    return rec.result()


def finalize(merged, tier):
    q = tier == 'quick'
    common.require_events(merged, {
        'direction_calls': 5000 if q else 90000,
        'direction_returns': 4000 if q else 75000,
        'construct_mesh_returns': 200 if q else 3500,
        'coverage_checks': 4000 if q else 75000,
        'coverage_checks_lambda_from_center': 500,
        'stretching_pairs': 100000,
        'centre_checks_node': 500, 'centre_checks_cell': 500,
        'vector_node_checks': 300, 'vector_or_centre_checks': 30,
        'seasurface_checks': 500, 'seasurface_node': 100,
        'seasurface_miss+warn': 30,
        'direction_runtime_errors': 10,
        'simulation_grids': 30, 'survey_extent_checks': 50,
        'user_level_seasurface_checks': 40,
        'user_level_seasurface_miss+warn': 10,
        'cellnr_checks': 1000,
    })
