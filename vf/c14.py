"""C14 - the physical model is invariant under the property mapping.

Monitors (all at the client boundary, no source hooks):

  maps    every call of Map*.forward / .backward / .derivative_chain made by
          the driver on conductivities over 10^[-6, 6]; oracle: my own six
          maps (``ref_forward`` / ``ref_backward``) and the complex-step
          derivative of ``ref_backward``.
  coef    ``emg3d.models.VolumeModel(model, sfield)`` for the same sigma
          handed over in the six mappings (construction or assignment through
          the property setters); oracle: eta = -s mu0 V (sigma + s eps0 eps_r),
          zeta = V / mu_r computed from widths and sigma only.
  reject  ``emg3d.Model(...)`` and ``model.<property> = value`` with invalid
          (0, <0, NaN, +-inf conductivity / mu_r / epsilon_r, expressed in
          each mapping where representable) and valid values; oracle: invalid
          => an exception, valid => none.
  solve   ``emg3d.solve`` for a sigma-sextuple: every returned field must
          solve the sigma-defined reference system (vf.refop) and the six
          fields must agree; ``emg3d.Simulation`` data of the sextuple must
          agree, and the adjoint-state gradient of mapping m must equal the
          conductivity gradient times d sigma / d x_m.
"""
import contextlib
import io
import itertools
import warnings
import numpy as np
from vf import common, gen

PROP = 'C14'
NEEDS_JIT = True
TIMEOUT = {'quick': 1200, 'thorough': 3400}
RULE = ("sigma in 10^[-6,6] (full range, narrow contrast, homogeneous, the two "
        "end points and 1.0 pinned in) expressed in all six mappings; maps: "
        "arrays in five memory layouts through forward/backward/"
        "derivative_chain; coef: random grids (1..8 cells per direction, "
        "thorough to 12 + some larger) x 4 anisotropy cases x mu_r x eps_r x "
        "frequency/Laplace x build (constructor, setters, Map instance, 1-D "
        "input); reject: complete enumeration mapping x property x invalid "
        "kind x (constructor|assignment) x (scalar|array with one bad "
        "entry|all bad|list) and the valid counterparts; solve: grids 8..16 "
        "(thorough to 24) cells per direction, sextuple of MG solves, "
        "Simulation data (gridding same/input) and gradients; layered: "
        "Simulation(layered=True) with every extraction method on "
        "isotropic/VTI models, derived options and layered data compared "
        "across the six mappings; distinct = "
        "(level, mapping, anisotropy case, mu?, eps?, domain, build/kind) "
        "tuples that reached an oracle")
ASSUMPTIONS = [
    "my own six maps (ref_forward/ref_backward in vf/c14.py) are the mappings "
    "the property refers to; their derivative is taken by complex step and "
    "guarded by a central difference",
    "mu_0/epsilon_0 from scipy.constants are physical constants, not code",
    "the fields of a sextuple are compared only when all six solves report "
    "convergence; the 100*tol agreement bound is a calibrated threshold "
    "(observed < 1e-6 of it), the residual bound is exact",
    "overflowing log-values (10**400, exp(800)) count as non-finite "
    "conductivity, underflowing ones as zero conductivity",
    "for all: sampled, except the reject enumeration which is complete for "
    "the listed kinds/forms",
]

MAPPINGS = gen.MAPPINGS
LN10 = float(np.log(10.0))
TOL_MAP = 1e-13          # forward / backward / round trips
TOL_CHAIN = 1e-12        # derivative_chain factor
TOL_COEF = 1e-13         # VolumeModel coefficients
FIELD_FACTOR = 100.0     # fields / data agree to FIELD_FACTOR * tol


# --------------------------------------------------------------------------
# Reference model of the six mappings (independent of emg3d.maps)
def ref_forward(sig, mapping):
    """sigma -> mapped value x."""
    s = np.asarray(sig, dtype=float)
    if mapping == 'Conductivity':
        return s.copy()
    if mapping == 'Resistivity':
        return 1.0/s
    if mapping == 'LgConductivity':
        return np.log10(s)
    if mapping == 'LgResistivity':
        return -np.log10(s)
    if mapping == 'LnConductivity':
        return np.log(s)
    if mapping == 'LnResistivity':
        return -np.log(s)
    raise ValueError(mapping)


def ref_backward(x, mapping):
    """mapped value x -> sigma (also for complex x: complex-step)."""
    x = np.asarray(x)
    if mapping == 'Conductivity':
        return x*1.0
    if mapping == 'Resistivity':
        return 1.0/x
    if mapping == 'LgConductivity':
        return np.exp(LN10*x) if np.iscomplexobj(x) else 10.0**x
    if mapping == 'LgResistivity':
        return np.exp(-LN10*x) if np.iscomplexobj(x) else 10.0**(-x)
    if mapping == 'LnConductivity':
        return np.exp(x)
    if mapping == 'LnResistivity':
        return np.exp(-x)
    raise ValueError(mapping)


def ref_dsigma_dx(x, mapping):
    """d sigma / d x of my own inverse map, by complex step (exact to eps)."""
    h = 1e-30
    x = np.asarray(x, dtype=float)
    return np.imag(ref_backward(x + 1j*h, mapping))/h


def ref_dsigma_dx_fd(x, mapping):
    """Central difference of my own inverse map (guards the complex step)."""
    x = np.asarray(x, dtype=float)
    h = 1e-6*np.maximum(np.abs(x), 1e-3)
    return (ref_backward(x+h, mapping) - ref_backward(x-h, mapping))/(2*h)


def is_log(mapping):
    return mapping.startswith('L')


def sval(frequency):
    return 2j*np.pi*frequency if frequency > 0 else float(-frequency)


def rel_err(a, b, absolute_floor=None):
    """max |a-b| / |b|  (or / max(floor, |b|)); NaN if anything non-finite."""
    a = np.asarray(a)
    b = np.asarray(b)
    if a.shape != b.shape:
        return float('nan')
    if not (np.all(np.isfinite(a)) and np.all(np.isfinite(b))):
        return float('nan')
    den = np.abs(b)
    if absolute_floor is not None:
        den = np.maximum(den, absolute_floor)
    if a.size == 0:
        return 0.0
    with np.errstate(divide='ignore', invalid='ignore'):
        q = np.abs(a - b)/den
    q = np.where((den == 0) & (a == b), 0.0, q)
    return float(np.max(q))


def quiet():
    """Context: silence emg3d's prints and numpy/emg3d warnings."""
    st = contextlib.ExitStack()
    st.enter_context(contextlib.redirect_stdout(io.StringIO()))
    cw = warnings.catch_warnings()
    st.enter_context(cw)
    warnings.simplefilter('ignore')
    st.enter_context(np.errstate(all='ignore'))
    return st


# --------------------------------------------------------------------------
# Generators
def sigma_array(r, shape, kind=None):
    """Positive conductivities within 10^[-6, 6]."""
    kind = kind or gen.choice(r, ['full', 'full', 'narrow', 'narrow',
                                  'homogeneous', 'pinned'])
    shape = tuple(shape)
    if kind == 'full':
        s = 10.0**r.uniform(-6, 6, shape)
    elif kind == 'narrow':
        w = r.uniform(0.0, 2.0)
        c = r.uniform(-6 + w, 6 - w)
        s = 10.0**(c + r.uniform(-w, w, shape))
    elif kind == 'homogeneous':
        s = np.full(shape, 10.0**r.uniform(-6, 6))
    else:  # pinned: end points of the range and 1.0 (log = 0) are present
        s = 10.0**r.uniform(-6, 6, shape)
        flat = s.reshape(-1)
        pins = [1e-6, 1e6, 1.0]
        idx = r.choice(flat.size, min(flat.size, len(pins)), replace=False)
        for j, p in zip(idx, pins):
            flat[j] = p
        s = flat.reshape(shape)
    return np.ascontiguousarray(np.clip(s, 1e-6, 1e6)), kind


def model_truth(r, shape, sig_kind=None, case=None, mu=None, eps=None):
    case = case or gen.choice(r, gen.CASES)
    mu = (r.random() < 0.35) if mu is None else mu
    eps = (r.random() < 0.35) if eps is None else eps
    sx, kind = sigma_array(r, shape, sig_kind)
    ms = {'case': case, 'sig_kind': kind, 'sigx': sx, 'sigy': None,
          'sigz': None, 'mu_r': None, 'eps_r': None}
    if case in ('HTI', 'triaxial'):
        ms['sigy'] = sigma_array(r, shape, kind)[0]
    if case in ('VTI', 'triaxial'):
        ms['sigz'] = sigma_array(r, shape, kind)[0]
    if mu:
        ms['mu_r'] = r.uniform(0.5, 3.0, shape)
    if eps:
        ms['eps_r'] = r.uniform(1.0, 10.0, shape)
    return ms


def layout(r, a, how):
    """Same values, different memory layout / container."""
    a = np.asarray(a, dtype=float)
    if how == 'F':
        return np.asfortranarray(a)
    if how == 'C':
        return np.ascontiguousarray(a)
    if how == 'ravelF':
        return a.ravel(order='F').copy()
    if how == 'list':
        return a.tolist()
    if how == 'strided':
        big = np.zeros(tuple(2*n for n in a.shape))
        sl = tuple(slice(None, None, 2) for _ in a.shape)
        big[sl] = a
        return big[sl]
    raise ValueError(how)


def make_model(emg3d, grid, ms, mapping, build, r):
    """emg3d.Model expressing the truth ``ms`` in ``mapping``."""
    kw = {}
    names = (('property_x', 'sigx'), ('property_y', 'sigy'),
             ('property_z', 'sigz'))
    for name, key in names:
        if ms[key] is not None:
            kw[name] = ref_forward(ms[key], mapping)
    if ms['mu_r'] is not None:
        kw['mu_r'] = np.array(ms['mu_r'])
    if ms['eps_r'] is not None:
        kw['epsilon_r'] = np.array(ms['eps_r'])
    homog = all(np.all(v == v.flat[0]) for v in kw.values())

    if build == 'construct':
        how = gen.choice(r, ['F', 'C', 'ravelF', 'list', 'strided'])
        args = {k: layout(r, v, how) for k, v in kw.items()}
        if homog and r.random() < 0.5:
            args = {k: float(v.flat[0]) for k, v in kw.items()}
        return emg3d.Model(grid, mapping=mapping, **args)
    if build == 'instance':
        mp = getattr(emg3d.maps, 'Map' + mapping)()
        return emg3d.Model(grid, mapping=mp, **kw)
    if build == 'assign':
        # start from an unrelated valid model of the same anisotropy case
        start = {}
        for k, v in kw.items():
            if k.startswith('property_'):
                start[k] = ref_forward(10.0**r.uniform(-6, 6, v.shape),
                                       mapping)
            else:
                start[k] = r.uniform(0.5, 5.0, v.shape)
        model = emg3d.Model(grid, mapping=mapping, **start)
        how = gen.choice(r, ['F', 'C', 'list', 'strided'])
        for k, v in kw.items():
            val = layout(r, v, how)
            if homog and r.random() < 0.5:
                val = float(v.flat[0])
            setattr(model, k, val)
        return model
    raise ValueError(build)


# --------------------------------------------------------------------------
# Level 1: Map* methods
def check_maps(rec, seed, k, i, tier, dense=False):
    import emg3d
    r = gen.rng(seed, 'C14', 'maps', k, i)
    if dense:
        # the whole range, regularly sampled (thorough tier)
        n = 120001
        sig = 10.0**np.linspace(-6, 6, n)
        lay, kind = 'C', 'dense'
    else:
        nd = int(gen.choice(r, [1, 1, 3, 3, 0]))
        if nd == 0:
            shape = ()
        elif nd == 1:
            shape = (int(r.integers(1, 400 if tier == 'quick' else 4000)),)
        else:
            shape = tuple(int(x) for x in r.integers(1, 9, 3))
        sig, kind = sigma_array(r, shape if shape else (1,))
        if not shape:
            sig = sig.reshape(())
        lay = gen.choice(r, ['F', 'C', 'strided']) if nd == 3 else 'C'
    for mapping in MAPPINGS:
        case = {'level': 'maps', 'k': k, 'i': i, 'mapping': mapping,
                'layout': lay, 'sig_kind': kind, 'shape': list(sig.shape),
                'sigma_minmax': [float(sig.min()), float(sig.max())]}
        M = getattr(emg3d.maps, 'Map' + mapping)()
        rec.case()
        logm = is_log(mapping)
        floor = 1.0 if logm else None       # |x| can be 0 for log maps
        xr = ref_forward(sig, mapping)
        s_in = layout(r, sig, lay) if sig.ndim == 3 else np.array(sig)
        x_in = layout(r, xr, lay) if sig.ndim == 3 else np.array(xr)
        with quiet():
            x = np.array(M.forward(s_in))
            sb = np.array(M.backward(x_in))
            rt_s = np.array(M.backward(M.forward(s_in)))
        # forward against my own map
        e = rel_err(x, xr, floor)
        rec.event('map_forward_checks')
        rec.margin('map_forward_err', e)
        if not (e <= TOL_MAP):
            rec.violation('C14:map-forward', f'Map{mapping}.forward differs '
                          f'from the mapping it is named after: {e:.3e}', case)
        # backward against my own inverse map
        e = rel_err(sb, ref_backward(xr, mapping))
        rec.event('map_backward_checks')
        rec.margin('map_backward_err', e)
        if not (e <= TOL_MAP):
            rec.violation('C14:map-backward', f'Map{mapping}.backward differs '
                          f'from the inverse mapping: {e:.3e}', case)
        # backward(forward(sigma)) == sigma
        e = rel_err(rt_s, sig)
        rec.event('roundtrip_sigma_checks')
        rec.margin('roundtrip_sigma_err', e)
        if not (e <= TOL_MAP):
            rec.violation('C14:roundtrip-sigma', f'Map{mapping}: backward('
                          f'forward(sigma)) != sigma: {e:.3e}', case)
        # forward(backward(x)) == x for x drawn in the mapped domain
        if logm:
            lim = 6.0 if mapping.startswith('Lg') else 6.0*LN10
            xd = r.uniform(-lim, lim, sig.shape)
        else:
            xd = 10.0**r.uniform(-6, 6, sig.shape)
        with quiet():
            rt_x = np.array(M.forward(M.backward(np.array(xd))))
        e = rel_err(rt_x, xd, floor)
        rec.event('roundtrip_mapped_checks')
        rec.margin('roundtrip_mapped_err', e)
        if not (e <= TOL_MAP):
            rec.violation('C14:roundtrip-mapped', f'Map{mapping}: forward('
                          f'backward(x)) != x: {e:.3e}', case)

        # derivative_chain: in-place  gradient *= d sigma / d x
        d = ref_dsigma_dx(xr, mapping)
        dfd = ref_dsigma_dx_fd(xr, mapping)
        guard = rel_err(d, dfd)
        if not (guard <= 1e-5):
            rec.inconclusive('framework self-check: complex-step and central '
                             f'difference of my own map differ ({guard:.3e})',
                             case)
            continue
        g0 = r.standard_normal(sig.shape)*10.0**r.uniform(-3, 3, sig.shape)
        if g0.size > 3:
            g0.reshape(-1)[int(r.integers(g0.size))] = 0.0
        if sig.ndim == 3:
            # as in Simulation.gradient: a view into a (3, nx, ny, nz) F array
            holder = np.zeros((3, *sig.shape), order='F')
            comp = int(r.integers(3))
            holder[comp, ...] = g0
            g = holder[comp, ...]
        else:
            holder = None
            g = np.array(g0)
        xm = np.array(x_in)              # plays the role of model.property_x
        xm_before = xm.copy()
        with quiet():
            ret = M.derivative_chain(g, xm)
        want = g0*d
        e = rel_err(g, want)
        rec.event('chain_checks')
        rec.margin('chain_err', e)
        if not (e <= TOL_CHAIN):
            if (ret is not None and np.shape(ret) == want.shape and
                    rel_err(ret, want) <= TOL_CHAIN):
                rec.violation('C14:chain-not-in-place', f'Map{mapping}.'
                              'derivative_chain returns the converted '
                              'gradient but does not convert the caller\'s '
                              'array (Simulation.gradient ignores the return '
                              'value)', case)
            else:
                q = np.abs(g - want)/np.maximum(np.abs(want), 1e-300)
                j = int(np.argmax(np.where(g0 != 0, q, -1.0)))
                gj, g0j = g.reshape(-1)[j], g0.reshape(-1)[j]
                fac = gj/g0j if g0j else None
                rec.violation('C14:chain-factor', f'Map{mapping}.'
                              f'derivative_chain factor != d sigma/d x: rel '
                              f'err {e:.3e}; e.g. x={xr.reshape(-1)[j]!r}: '
                              f'factor {fac!r} want {d.reshape(-1)[j]!r}',
                              case)
        if holder is not None:
            others = [c for c in range(3) if c != comp]
            if np.count_nonzero(holder[others, ...]):
                rec.violation('C14:chain-writes-outside', f'Map{mapping}.'
                              'derivative_chain wrote outside the array it '
                              'was given', case)
        rec.event('chain_model_untouched_checks')
        if not np.array_equal(xm, xm_before):
            rec.violation('C14:chain-mutates-mapped', f'Map{mapping}.'
                          'derivative_chain changed the mapped property '
                          'array (the model would no longer express the same '
                          'conductivity)', case)
        rec.distinct(('maps', mapping, lay, kind, sig.ndim))
    if i == 0:
        rec.sample({'level': 'maps', 'shape': list(sig.shape), 'layout': lay,
                    'sig_kind': kind, 'sigma_minmax':
                    [float(sig.min()), float(sig.max())]})


# --------------------------------------------------------------------------
# Level 2: VolumeModel coefficients
def ref_coefficients(gs, ms, frequency):
    from scipy.constants import mu_0, epsilon_0
    hx, hy, hz = (np.asarray(gs[k], dtype=float) for k in ('hx', 'hy', 'hz'))
    V = hx[:, None, None]*hy[None, :, None]*hz[None, None, :]
    s = sval(frequency)
    sx, sy, sz = gen.sig_xyz(ms)
    disp = 0.0 if ms['eps_r'] is None else s*epsilon_0*ms['eps_r']
    out = {}
    for nm, sg in (('eta_x', sx), ('eta_y', sy), ('eta_z', sz)):
        out[nm] = -(s*mu_0)*(V*(sg + disp))
    out['zeta'] = V if ms['mu_r'] is None else V/ms['mu_r']
    return out


def coef_case(seed, k, i, tier):
    r = gen.rng(seed, 'C14', 'coef', k, i)
    hi = 9 if tier == 'quick' else 13
    shape = tuple(int(x) for x in r.integers(1, hi, 3))
    if tier == 'thorough' and i % 97 == 0:
        shape = (int(r.integers(20, 41)), int(r.integers(10, 31)),
                 int(r.integers(8, 21)))
    gs = gen.grid_spec(r, shape)
    ms = model_truth(r, shape)
    freq = gen.frequency(r)
    return r, shape, gs, ms, freq


def check_coef(rec, seed, k, i, tier):
    import emg3d
    r, shape, gs, ms, freq = coef_case(seed, k, i, tier)
    ref = ref_coefficients(gs, ms, freq)
    builds = {}
    got = {}
    for mapping in MAPPINGS:
        build = gen.choice(r, ['construct', 'construct', 'assign', 'assign',
                               'instance'])
        builds[mapping] = build
        case = {'level': 'coef', 'k': k, 'i': i, 'mapping': mapping,
                'build': build, 'case': ms['case'], 'sig_kind': ms['sig_kind'],
                'mu_r': ms['mu_r'] is not None, 'eps_r': ms['eps_r'] is not None,
                'frequency': freq, 'grid': gen.summarize_grid(gs),
                'sigx': ms['sigx'], 'sigy': ms['sigy'], 'sigz': ms['sigz'],
                'mu_r_values': ms['mu_r'], 'eps_r_values': ms['eps_r']}
        rec.case()
        try:
            with quiet():
                grid = gen.build_emg3d(gs)
                model = make_model(emg3d, grid, ms, mapping, build, r)
        except Exception as e:  # noqa - valid input must be accepted
            rec.event('valid_model_checks')
            rec.violation('C14:valid-model-rejected', f'valid sigma in '
                          f'[1e-6, 1e6] expressed as {mapping} ({build}) '
                          f'raised {type(e).__name__}: {e}', case)
            continue
        rec.event('valid_model_checks')
        rec.event('case_checks')
        if model.case != ms['case']:
            rec.violation('C14:anisotropy-case', f'model.case {model.case!r} '
                          f'for inputs of case {ms["case"]!r}', case)
        with quiet():
            sfield = emg3d.Field(grid, frequency=freq)
            vms = [emg3d.models.VolumeModel(model, sfield) for _ in range(2)]
        bad_first = set()
        for rep, vm in enumerate(vms):
            for nm in ('eta_x', 'eta_y', 'eta_z', 'zeta'):
                val = np.asarray(getattr(vm, nm))
                e = rel_err(val, ref[nm])
                rec.event('coefficient_checks')
                rec.margin('coefficient_err', e)
                if e <= TOL_COEF:
                    continue
                why = ('shape %s != %s' % (val.shape, ref[nm].shape)
                       if val.shape != ref[nm].shape else f'rel {e:.3e}')
                if rep == 0:
                    bad_first.add(nm)
                    rec.violation(f'C14:volume-model-{nm}',
                                  f'VolumeModel.{nm} of the {mapping} model '
                                  f'({build}, {ms["case"]}) != coefficient of '
                                  f'the conductivities it expresses: {why}',
                                  case)
                elif nm not in bad_first:
                    rec.violation('C14:volume-model-changes-on-second-call',
                                  f'second VolumeModel of the same {mapping} '
                                  f'model: {nm} no longer matches ({why})',
                                  case)
        got[mapping] = {nm: np.asarray(getattr(vms[0], nm)) for nm in
                        ('eta_x', 'eta_y', 'eta_z', 'zeta')}
        rec.distinct(('coef', mapping, ms['case'], case['mu_r'], case['eps_r'],
                      'f' if freq > 0 else 's', build, ms['sig_kind']))
    # spread across the sextuple (implied by the above; recorded as margin)
    if len(got) == 6:
        rec.event('sextuples_compared')
        base = got['Conductivity']
        for mapping in MAPPINGS[:1] + MAPPINGS[2:]:
            for nm in base:
                rec.margin('sextuple_spread',
                           rel_err(got[mapping][nm], base[nm]))
    if i < 2:
        rec.sample({'level': 'coef', 'shape': list(shape), 'case': ms['case'],
                    'sig_kind': ms['sig_kind'], 'frequency': freq,
                    'mu_r': ms['mu_r'] is not None,
                    'eps_r': ms['eps_r'] is not None, 'builds': builds})


# --------------------------------------------------------------------------
# Level 3: rejection of invalid values / acceptance of valid ones
def invalid_values(mapping, r):
    """(kind of conductivity, value in the mapping)."""
    neg = -float(10.0**r.uniform(-6, 6))
    nan, inf = float('nan'), float('inf')
    big = 400.0 if mapping.startswith('Lg') else 800.0
    if mapping == 'Conductivity':
        return [('zero', 0.0), ('negzero', -0.0), ('negative', neg),
                ('nan', nan), ('posinf', inf), ('neginf', -inf)]
    if mapping == 'Resistivity':
        return [('zero', inf), ('negzero', -inf), ('negative', neg),
                ('nan', nan), ('posinf', 0.0), ('neginf', -0.0)]
    if mapping.endswith('Conductivity'):
        return [('zero', -inf), ('nan', nan), ('posinf', inf),
                ('overflow', big), ('underflow', -big)]
    return [('zero', inf), ('nan', nan), ('posinf', -inf),
            ('overflow', -big), ('underflow', big)]


def invalid_plain(r):
    neg = -float(10.0**r.uniform(-3, 3))
    return [('zero', 0.0), ('negzero', -0.0), ('negative', neg),
            ('nan', float('nan')), ('posinf', float('inf')),
            ('neginf', -float('inf'))]


PROPS = ['property_x', 'property_y', 'property_z', 'mu_r', 'epsilon_r']
FORMS = ['scalar', 'array-one', 'array-all', 'list-one']


def valid_base(r, shape, mapping):
    return {'property_x': ref_forward(10.0**r.uniform(-6, 6, shape), mapping),
            'property_y': ref_forward(10.0**r.uniform(-6, 6, shape), mapping),
            'property_z': ref_forward(10.0**r.uniform(-6, 6, shape), mapping),
            'mu_r': r.uniform(0.5, 3.0, shape),
            'epsilon_r': r.uniform(1.0, 10.0, shape)}


def shaped(r, good, value, form):
    """Put ``value`` into the requested container."""
    if form == 'scalar':
        return value
    if form == 'array-all':
        return np.full(good.shape, value)
    a = np.array(good, dtype=float)
    idx = tuple(int(r.integers(n)) for n in a.shape)
    a[idx] = value
    if form == 'list-one':
        return a.tolist()
    return np.asfortranarray(a) if r.random() < 0.5 else a


def attempt(emg3d, grid, base, mapping, prop, value, stage):
    """Returns the exception (or None) of constructing / assigning."""
    try:
        with quiet():
            if stage == 'construct':
                kw = dict(base)
                kw[prop] = value
                emg3d.Model(grid, mapping=mapping, **kw)
            else:
                model = emg3d.Model(grid, mapping=mapping, **base)
                setattr(model, prop, value)
    except Exception as e:  # noqa
        return e
    return None


def check_reject(rec, seed, mapping, rep):
    import emg3d
    r = gen.rng(seed, 'C14', 'reject', mapping, rep)
    shape = tuple(int(x) for x in r.integers(1, 5, 3))
    gs = gen.grid_spec(r, shape)
    with quiet():
        grid = gen.build_emg3d(gs)
    target = {'property_x': 'property', 'property_y': 'property',
              'property_z': 'property', 'mu_r': 'mu_r',
              'epsilon_r': 'epsilon_r'}
    for prop, stage, form in itertools.product(PROPS, ('construct', 'assign'),
                                               FORMS):
        base = valid_base(r, shape, mapping)
        # ---- invalid values
        vals = (invalid_values(mapping, r) if prop.startswith('property')
                else invalid_plain(r))
        for kind, v in vals:
            value = shaped(r, base[prop], v, form)
            case = {'level': 'reject', 'mapping': mapping, 'rep': rep,
                    'property': prop, 'stage': stage, 'form': form,
                    'conductivity_kind' if prop.startswith('property') else
                    'value_kind': kind, 'value_in_mapping': v,
                    'shape': list(shape)}
            rec.case()
            exc = attempt(emg3d, grid, base, mapping, prop, value, stage)
            rec.event('invalid_value_checks')
            if exc is None:
                cls = ('nonfinite' if kind in ('nan', 'posinf', 'neginf',
                                               'overflow') else 'nonpositive')
                rec.violation(f'C14:{cls}-{target[prop]}-accepted-on-{stage}',
                              f'{kind} {"conductivity" if target[prop] == "property" else prop}'
                              f' (given as {v!r} in {mapping}, {form}) was '
                              f'accepted for {prop} on {stage}', case)
            elif not isinstance(exc, ValueError):
                rec.extra_add('rejected_with_other_exception')
            rec.distinct(('reject', mapping, target[prop], kind, stage, form))
        # ---- valid values (float)
        if prop.startswith('property'):
            sig_ok = [1e-6, 1e6, 1.0, float(10.0**r.uniform(-6, 6))]
            oks = [float(ref_forward(s, mapping)) for s in sig_ok]
        else:
            oks = [1.0, 1e-3, 1e3, float(r.uniform(0.5, 10))]
        for v in oks:
            value = shaped(r, base[prop], v, form)
            case = {'level': 'accept', 'mapping': mapping, 'rep': rep,
                    'property': prop, 'stage': stage, 'form': form,
                    'value_in_mapping': v, 'shape': list(shape)}
            rec.case()
            exc = attempt(emg3d, grid, base, mapping, prop, value, stage)
            rec.event('valid_value_checks')
            if exc is not None:
                rec.violation(f'C14:valid-{target[prop]}-rejected-on-{stage}',
                              f'valid value {v!r} ({mapping}, {form}) for '
                              f'{prop} raised {type(exc).__name__}: {exc}',
                              case)
            rec.distinct(('accept', mapping, target[prop], stage, form))
    # ---- labelled input class: valid values of *integer* type
    for prop, stage, form in itertools.product(
            PROPS, ('construct', 'assign'), ('int-scalar', 'int-array',
                                             'int-list')):
        base = valid_base(r, shape, mapping)
        if not prop.startswith('property'):
            ints = [1, 2, 5]
        elif mapping.startswith('Lg'):
            ints = [-6, -2, 0, 2, 6]
        elif mapping.startswith('Ln'):
            ints = [-13, -2, 0, 2, 13]
        else:
            ints = [1, 10, 1000]
        for v in ints:
            if form == 'int-scalar':
                value = int(v)
            elif form == 'int-array':
                value = np.full(shape, v, dtype=np.int64)
            else:
                value = np.full(shape, v, dtype=np.int64).tolist()
            case = {'level': 'accept-int', 'mapping': mapping, 'rep': rep,
                    'property': prop, 'stage': stage, 'form': form,
                    'value_in_mapping': v, 'shape': list(shape)}
            rec.case()
            exc = attempt(emg3d, grid, base, mapping, prop, value, stage)
            rec.event('valid_int_typed_value_checks')
            if exc is not None:
                rec.violation(
                    f'C14:int-typed-valid-{target[prop]}-rejected-on-{stage}',
                    f'valid value {v!r} of integer type ({mapping}, {form}) '
                    f'for {prop} raised {type(exc).__name__}: {exc}', case)
            rec.distinct(('accept-int', mapping, target[prop], stage, form))


# --------------------------------------------------------------------------
# Level 4: fields, data, gradients
SIM_CLASSES = ['grad-same', 'same', 'input-plain', 'input-mu-eps']
LINEAR_GROUP = ['Conductivity', 'Resistivity']
LOG_GROUP = ['LgConductivity', 'LgResistivity', 'LnConductivity',
             'LnResistivity']


def data_spread(data, d0, rkinds, mappings):
    """Largest |d_m - d0| / max|d0| per (source, frequency, receiver type)."""
    worst, wm = 0.0, None
    for mapping in mappings:
        d = data[mapping]
        if d.shape != d0.shape or not (np.all(np.isfinite(d)) and
                                       np.all(np.isfinite(d0))):
            return float('nan'), mapping
        for rk in ('e', 'h'):
            sel = rkinds == rk
            if not sel.any():
                continue
            for si in range(d0.shape[0]):
                for fi in range(d0.shape[2]):
                    a, b = d[si, sel, fi], d0[si, sel, fi]
                    q = float(np.max(np.abs(a-b))/np.max(np.abs(b)))
                    if not (q <= worst):
                        worst, wm = q, mapping
    return worst, wm


def solve_case(seed, k, i, tier, kind):
    r = gen.rng(seed, 'C14', 'solve', kind, k, i)
    sizes = [8, 8, 12, 16] if tier == 'quick' else [8, 12, 16, 16, 20, 24]
    shape = tuple(int(gen.choice(r, sizes)) for _ in range(3))
    base = float(10.0**r.uniform(1.7, 2.3))
    wkind = gen.choice(r, ['uniform', 'mild'])
    hs = []
    for n in shape:
        if wkind == 'uniform':
            h = np.ones(n)
        else:
            f = r.uniform(1.0, 1.12)
            h = f**np.abs(np.arange(n) - (n-1)/2.0)
        hs.append(np.ascontiguousarray(h*base))
    origin = [float(-0.5*h.sum()) for h in hs]
    gs = {'hx': hs[0], 'hy': hs[1], 'hz': hs[2], 'origin': origin}
    case = gen.choice(r, gen.CASES)
    if kind == 'sim' and (k + i) % 4 == 0:
        # gradient class: walk through the anisotropy cases, fullest first
        case = ['triaxial', 'VTI', 'HTI', 'isotropic'][((k + i)//4) % 4]
    w = r.uniform(0.2, 1.0)
    c = r.uniform(-1.5, 0.5)

    def sig():
        return 10.0**(c + r.uniform(-w, w, shape))
    ms = {'case': case, 'sig_kind': 'moderate', 'sigx': sig(), 'sigy': None,
          'sigz': None, 'mu_r': None, 'eps_r': None}
    if case in ('HTI', 'triaxial'):
        ms['sigy'] = sig()
    if case in ('VTI', 'triaxial'):
        ms['sigz'] = sig()
    # labelled input classes of the Simulation level
    sclass = SIM_CLASSES[(k + i) % 4] if kind == 'sim' else 'solve'
    u1, u2 = r.random(), r.random()
    if sclass in ('solve', 'same'):
        mu, eps = u1 < 0.25, u2 < 0.25
    elif sclass == 'input-mu-eps':
        mu = u1 < 0.8
        eps = (not mu) or u2 < 0.3
    else:
        mu = eps = False
    if mu:
        ms['mu_r'] = r.uniform(0.8, 1.5, shape)
    if eps:
        ms['eps_r'] = r.uniform(1.0, 10.0, shape)
    # skin depth (503.3/sqrt(sigma f)) of two to six cells
    delta = base*r.uniform(2.0, 6.0)
    freq = float((503.3/delta)**2/10.0**c)
    freq = float(np.clip(freq, 1e-3, 1e3))
    if kind == 'solve' and r.random() < 0.25:
        freq = -freq
    tol = float(gen.choice(r, [1e-5, 1e-6, 1e-7]))
    return r, shape, gs, ms, freq, tol, sclass


def inner_point(r, gs, frac=0.3):
    """A point in the central part of the grid."""
    p = []
    for key, o in zip(('hx', 'hy', 'hz'), gs['origin']):
        L = float(np.sum(gs[key]))
        p.append(float(o + L*(0.5 + r.uniform(-frac, frac)/2)))
    return p


def check_solve(rec, seed, k, i, tier):
    import emg3d
    from vf import refop
    r, shape, gs, ms, freq, tol, _ = solve_case(seed, k, i, tier, 'solve')
    kw = {'tol': tol, 'maxit': 50, 'verb': -1, 'return_info': True,
          'sslsolver': False,
          'cycle': gen.choice(r, ['F', 'F', 'V', 'W']),
          'semicoarsening': bool(r.random() < 0.7),
          'linerelaxation': bool(r.random() < 0.7)}
    p0 = inner_point(r, gs)
    p1 = inner_point(r, gs)
    base = {'level': 'solve', 'k': k, 'i': i, 'shape': list(shape),
            'case': ms['case'], 'mu_r': ms['mu_r'] is not None,
            'eps_r': ms['eps_r'] is not None, 'frequency': freq,
            'solver': {kk: vv for kk, vv in kw.items()},
            'source': [p0, p1], 'grid': gen.summarize_grid(gs)}
    with quiet():
        grid = gen.build_emg3d(gs)
        src = emg3d.TxElectricDipole(np.array([p0, p1]))
        sfield0 = emg3d.get_source_field(grid, src, freq)
    svec = np.array(sfield0.field)
    ref = refop.RefOp(gs['hx'], gs['hy'], gs['hz'], *gen.sig_xyz(ms),
                      sval(freq), ms['mu_r'], ms['eps_r'])
    if np.count_nonzero(svec[~ref.interior]) or not np.all(np.isfinite(svec)):
        rec.event('skipped_source_on_boundary')
        return
    refnorm = float(np.linalg.norm(svec))
    fields = {}
    for mapping in MAPPINGS:
        case = dict(base, mapping=mapping)
        rec.case()
        try:
            with quiet():
                model = make_model(emg3d, grid, ms, mapping, 'construct', r)
                sf = emg3d.Field(grid, data=svec.copy(), frequency=freq)
                efield, info = emg3d.solve(model, sf, **kw)
        except Exception as e:  # noqa
            rec.inconclusive(f'solve raised {type(e).__name__}: {e}', case)
            return
        rec.event('solve_calls')
        if info['exit'] != 0:
            rec.event('solves_not_converged')
            continue
        e = np.array(efield.field)
        if not np.all(np.isfinite(e)):
            rec.violation('C14:field-nonfinite', f'converged solve of the '
                          f'{mapping} model returned non-finite values', case)
            continue
        # (a) the field solves the system defined by sigma (independent op.)
        true = float(np.linalg.norm(ref.residual(svec, e)))
        floor = 50*np.finfo(float).eps*float(np.linalg.norm(
            abs(ref.A) @ np.abs(e) + np.abs(svec)))
        rec.event('field_residual_checks')
        rec.margin('field_residual_over_tol', true/(tol*refnorm))
        if not (true <= tol*refnorm*(1+1e-6) + floor):
            rec.violation('C14:field-does-not-solve-sigma-system',
                          f'field of the {mapping} model reported converged '
                          f'but its residual in the system assembled from '
                          f'sigma is {true/refnorm:.3e} (tol {tol:.1e})', case)
        fields[mapping] = e
    if len(fields) < 6:
        rec.event('solve_sextuples_incomplete')
        return
    # (b) same field whatever the mapping
    e0 = fields['Conductivity']
    scale = float(np.linalg.norm(e0))
    worst, wm = 0.0, None
    for mapping in MAPPINGS:
        d = float(np.linalg.norm(fields[mapping] - e0))/scale
        if not (d <= worst):
            worst, wm = d, mapping
    rec.event('field_sextuple_checks')
    rec.margin('field_spread_over_bound', worst/(FIELD_FACTOR*tol))
    if not (worst <= FIELD_FACTOR*tol):
        rec.violation('C14:fields-differ-between-mappings',
                      f'field of the {wm} model differs from the field of the '
                      f'Conductivity model by {worst:.3e} (relative, tol '
                      f'{tol:.1e})', dict(base, mapping=wm))
    rec.distinct(('solve', ms['case'], base['mu_r'], base['eps_r'],
                  'f' if freq > 0 else 's', kw['cycle']))
    rec.sample({'level': 'solve', 'shape': list(shape), 'case': ms['case'],
                'frequency': freq, 'tol': tol, 'field_spread': worst})


def check_gridopts(rec, seed, k, i, tier):
    """The parameters that automatic gridding derives from the model (buffer
    conductivities per side) and the resulting mesh must not depend on the
    mapping in which the same conductivities are expressed."""
    import emg3d
    r = gen.rng(seed, 'C14', 'gridopts', k, i)
    shape = tuple(int(x) for x in r.integers(3, 9, 3))
    gs = gen.grid_spec(r, shape)
    ms = model_truth(r, shape, mu=False, eps=False)
    grid = gen.build_emg3d(gs)
    nodes = [grid.nodes_x, grid.nodes_y, grid.nodes_z]

    def pt():
        return [float(r.uniform(n[1], n[-2])) for n in nodes]
    src = emg3d.TxElectricDipole(np.array([pt(), pt()]))
    recs = [emg3d.RxElectricPoint((*pt(), 0.0, 0.0)) for _ in range(2)]
    survey = emg3d.surveys.Survey(src, recs, [float(10**r.uniform(-1, 1))])
    case = {'seed': seed, 'k': k, 'i': i, 'shape': shape,
            'case': ms['case'], 'grid': gen.summarize_grid(gs)}
    rec.case()
    out, meshes = {}, {}
    for mapping in MAPPINGS:
        model = make_model(emg3d, grid, ms, mapping, 'construct', r)
        with quiet():
            g = emg3d.meshes.estimate_gridding_opts({}, model, survey)
        props = np.array(ref_backward(np.asarray(g['properties'], float),
                                      g['mapping']))
        out[mapping] = (props, g)
        if i % 4 == 0:
            try:
                with quiet():
                    m = emg3d.construct_mesh(**g)
                meshes[mapping] = [np.array(h) for h in m.h] + \
                    [np.array(m.origin)]
            except RuntimeError:
                meshes[mapping] = None
    rec.event('gridding_opts_estimates', len(MAPPINGS))
    p0, g0 = out['Conductivity']
    for mapping, (pp, g) in out.items():
        d = float(np.abs(pp - p0).max()/np.abs(p0).max())
        rec.margin('gridding_properties_spread', d)
        rec.event('gridding_properties_checks')
        same = all(np.allclose(np.asarray(g['domain'][a], float),
                               np.asarray(g0['domain'][a], float),
                               rtol=1e-13, atol=0) for a in 'xyz') and \
            np.allclose(g['center'], g0['center'], rtol=1e-13, atol=0) and \
            g['frequency'] == g0['frequency']
        if not (d <= 1e-12) or not same:
            rec.violation('C14:gridding-parameters-differ-between-mappings',
                          f'estimate_gridding_opts: buffer conductivities '
                          f'{pp.tolist()} for mapping {mapping} vs '
                          f'{p0.tolist()} for Conductivity (same physical '
                          f'model); domain/centre/frequency equal: {same}',
                          case)
            return
    if meshes:
        m0 = meshes['Conductivity']
        rec.event('automatic_mesh_checks')
        for mapping, m in meshes.items():
            if (m is None) != (m0 is None) or (m is not None and any(
                    a.shape != b.shape or not np.allclose(a, b, rtol=1e-12,
                                                          atol=0)
                    for a, b in zip(m, m0))):
                rec.violation('C14:automatic-mesh-differs-between-mappings',
                              f'construct_mesh(**estimate_gridding_opts) '
                              f'differs for mapping {mapping}', case)
                return
    rec.distinct(('gridopts', ms['case'], shape))


def check_layered(rec, seed, k, i, tier):
    """Layered (1D) mode of a Simulation: the options derived from the model
    (default averaging radius) and the layered data must not depend on the
    mapping in which the same conductivities are expressed."""
    import emg3d
    r = gen.rng(seed, 'C14', 'layered', k, i)
    shape = tuple(int(x) for x in r.integers(3, 7, 3))
    gs = gen.grid_spec(r, shape)
    # conductivities of ordinary earth models (0.002 .. 10 S/m) with lateral
    # variation in every layer: with the twelve-decade arrays of the other
    # levels the 1-D responses drop to 1e-20 of their usual size, where the
    # modeller returns its own numerical noise
    c0 = float(r.uniform(-2.0, 0.3))
    ms = {'case': gen.choice(r, ['isotropic', 'VTI']), 'sig_kind': 'earth',
          'sigx': 10.0**(c0 + r.uniform(-0.7, 0.7, shape)), 'sigy': None,
          'sigz': None, 'mu_r': None, 'eps_r': None}
    if ms['case'] == 'VTI':
        ms['sigz'] = 10.0**(c0 + r.uniform(-0.7, 0.7, shape))
    grid = gen.build_emg3d(gs)
    nodes = [grid.nodes_x, grid.nodes_y, grid.nodes_z]

    def pt():
        return [float(r.uniform(n[1], n[-2])) for n in nodes]
    src = emg3d.TxElectricDipole(np.array([pt(), pt()]))
    recs = [emg3d.RxElectricPoint((*pt(), float(r.uniform(-180, 180)), 0.0))
            for _ in range(2)]
    freq = float(10**r.uniform(-1, 1))
    method = gen.choice(r, ['cylinder', 'cylinder', 'prism', 'source',
                            'receiver', 'midpoint'])
    # (gridding='input' with a mesh raises ValueError in this code path when
    # discretize is installed - a crash, not a mapping dependence; not used)
    gridding = gen.choice(r, ['same', 'dict'])
    compute = (i % 3 == 0)
    case = {'level': 'layered', 'seed': seed, 'k': k, 'i': i, 'shape': shape,
            'case': ms['case'], 'method': method, 'gridding': gridding,
            'grid': gen.summarize_grid(gs)}
    rec.case()
    radii, data = {}, {}
    # conditioning probes: the Conductivity model with sigma (1 +- 1e-13);
    # what these few-hundred-ulp perturbations do to the data is the
    # resolution at which 'the same data' can be meant
    runs = list(MAPPINGS) + ([('probe', 1e-13), ('probe', -1e-13)]
                             if compute else [])
    for mapping in runs:
        if isinstance(mapping, tuple):
            ms_ = dict(ms, **{kk: ms[kk]*(1 + mapping[1]) for kk in
                              ('sigx', 'sigz') if ms[kk] is not None})
            model = make_model(emg3d, grid, ms_, 'Conductivity', 'construct',
                               r)
        else:
            model = make_model(emg3d, grid, ms, mapping, 'construct', r)
        survey = emg3d.surveys.Survey(src, recs, [freq])
        kw = {'gridding_opts': {'TxED-1': {'f-1': grid}}} \
            if gridding == 'dict' else {}
        try:
            with quiet():
                sim = emg3d.Simulation(
                    survey, model, max_workers=1, gridding=gridding,
                    layered=True, layered_opts={'method': method},
                    tqdm_opts=False, **kw)
                lo = sim.layered_opts
                if compute:
                    sim.compute()
                    data[mapping] = np.array(sim.data.synthetic.data)
        except Exception as e:  # noqa
            rec.inconclusive(f'layered Simulation raised {type(e).__name__}: '
                             f'{e}', dict(case, mapping=mapping))
            return
        rec.event('layered_simulations')
        if isinstance(mapping, tuple):
            continue
        radii[mapping] = (lo.get('ellipse') or {}).get('radius')
    r0 = radii['Conductivity']
    rec.event('layered_option_checks')
    for mapping, rad in radii.items():
        if (rad is None) != (r0 is None) or (rad is not None and not (
                abs(rad - r0) <= 1e-12*abs(r0))):
            rec.violation('C14:layered-options-differ-between-mappings',
                          f'layered mode ({method}, gridding={gridding!r}): '
                          f'default averaging radius {rad!r} for mapping '
                          f'{mapping} vs {r0!r} for Conductivity (same '
                          f'physical model)', dict(case, mapping=mapping))
            return
    if compute:
        d0 = data['Conductivity']
        rec.event('layered_data_checks')
        if not np.all(np.isfinite(d0)):
            rec.event('layered_data_nonfinite')
            return
        probes = [data.pop(k_) for k_ in list(data) if isinstance(k_, tuple)]
        noise = max(float(np.max(np.abs(p_ - d0))) if np.all(np.isfinite(p_))
                    else float('nan') for p_ in probes)
        bound = 1e-9*np.abs(d0) + 50*noise
        rec.margin('layered_probe_noise_rel', noise/float(np.abs(d0).max()))
        for mapping, d in data.items():
            q = float(np.max(np.abs(d - d0)/bound)) if np.all(
                np.isfinite(d)) else float('nan')
            rec.margin('layered_data_spread_over_bound', q)
            if not (q <= 1.0):
                rec.violation('C14:layered-data-differ-between-mappings',
                              f'layered data of the {mapping} model differ '
                              f'from those of the Conductivity model by '
                              f'{q:.3e} x (1e-9 |d| + 50 x the effect of a '
                              f'1e-13 relative change of sigma)',
                              dict(case, mapping=mapping))
                return
    rec.distinct(('layered', ms['case'], method, gridding, compute))


def make_survey(emg3d, spec):
    srcs = [emg3d.TxElectricDipole(np.array(s)) for s in spec['sources']]
    recs = []
    for kind, c in spec['receivers']:
        cls = emg3d.RxElectricPoint if kind == 'e' else emg3d.RxMagneticPoint
        recs.append(cls(tuple(c)))
    return emg3d.surveys.Survey(
        sources=emg3d.surveys.txrx_lists_to_dict(srcs),
        receivers=emg3d.surveys.txrx_lists_to_dict(recs),
        frequencies=spec['frequencies'], noise_floor=1e-18,
        relative_error=0.05)


def check_sim(rec, seed, k, i, tier):
    import emg3d
    r, shape, gs, ms, freq, tol, sclass = solve_case(seed, k, i, tier, 'sim')
    grad = sclass == 'grad-same'
    gridding = 'input' if sclass.startswith('input') else 'same'
    nsrc = 1 if grad else int(r.integers(1, 3))
    freqs = [freq] if (grad or r.random() < 0.6) else [freq, freq*3.0]
    spec = {'sources': [[inner_point(r, gs, 0.25), inner_point(r, gs, 0.25)]
                        for _ in range(nsrc)],
            'receivers': [], 'frequencies': freqs}
    for j in range(int(r.integers(4, 9))):
        p = inner_point(r, gs, 0.5)
        spec['receivers'].append(
            ('e' if j % 3 else 'h', p + [float(r.uniform(-180, 180)),
                                         float(r.uniform(-60, 60))]))
    interp = 'linear' if grad else gen.choice(r, ['linear', 'cubic'])
    base = {'level': 'sim', 'k': k, 'i': i, 'shape': list(shape),
            'case': ms['case'], 'mu_r': ms['mu_r'] is not None,
            'eps_r': ms['eps_r'] is not None, 'survey': spec, 'tol': tol,
            'gridding': gridding, 'receiver_interpolation': interp,
            'gradient': grad, 'input_class': sclass,
            'grid': gen.summarize_grid(gs)}
    with quiet():
        grid = gen.build_emg3d(gs)
    opts = {}
    if gridding == 'input':
        # another (coarser, shifted) computational grid covering the same box
        hs2 = []
        for key in ('hx', 'hy', 'hz'):
            L = float(np.sum(gs[key]))
            n2 = 8
            hs2.append(np.full(n2, L/n2))
        opts['gridding_opts'] = emg3d.TensorMesh(hs2, origin=gs['origin'])
    obs = None
    data, grads, props = {}, {}, {}
    for mapping in MAPPINGS:
        case = dict(base, mapping=mapping)
        rec.case()
        try:
            with quiet():
                model = make_model(emg3d, grid, ms, mapping, 'construct', r)
                survey = make_survey(emg3d, spec)
                sim = emg3d.Simulation(
                    survey, model, max_workers=1, gridding=gridding,
                    solver_opts={'tol': tol, 'maxit': 50, 'sslsolver': False,
                                 'semicoarsening': True,
                                 'linerelaxation': True},
                    receiver_interpolation=interp, tqdm_opts=False, **opts)
                sim.compute()
                d = np.array(sim.data.synthetic.data)
                infos = [sim.get_efield_info(s, f) for s, f in sim._srcfreq]
        except Exception as e:  # noqa
            rec.inconclusive(f'Simulation raised {type(e).__name__}: {e}',
                             case)
            return
        rec.event('simulation_calls')
        if any(inf['exit'] != 0 for inf in infos):
            rec.event('solves_not_converged')
            continue
        data[mapping] = d
        if grad:
            if obs is None:
                noise = 1 + 0.1*(r.standard_normal(d.shape) +
                                 1j*r.standard_normal(d.shape))
                obs = d*noise
            try:
                with quiet():
                    survey.data.observed[...] = obs
                    g = np.array(sim.gradient)
                    binfos = [sim._dict_bfield_info[s][f]
                              for s, f in sim._srcfreq]
            except Exception as e:  # noqa
                rec.inconclusive(f'gradient raised {type(e).__name__}: {e}',
                                 case)
                return
            if any(inf['exit'] != 0 for inf in binfos):
                rec.event('solves_not_converged')
                continue
            grads[mapping] = g
            comps = {'isotropic': ['property_x'],
                     'HTI': ['property_x', 'property_y'],
                     'VTI': ['property_x', 'property_z'],
                     'triaxial': ['property_x', 'property_y', 'property_z']}
            props[mapping] = [np.array(getattr(model, c)) for c in
                              comps[ms['case']]]
    if len(data) < 6 or (grad and len(grads) < 6):
        rec.event('sim_sextuples_incomplete')
        return
    # ---- same data whatever the mapping
    rkinds = np.array([c[0] for c in spec['receivers']])
    bound = FIELD_FACTOR*tol
    if sclass == 'input-mu-eps':
        # Labelled class (model with mu_r/epsilon_r, computed on another
        # grid).  Linear and logarithmic mappings are compared within their
        # group under the general key, and group against group under the
        # key of the one mechanism that can separate the groups.
        w1, m1 = data_spread(data, data['Conductivity'], rkinds, LINEAR_GROUP)
        w2, m2 = data_spread(data, data['LgConductivity'], rkinds, LOG_GROUP)
        if w1 != w1 or w2 != w2:
            worst, wm = float('nan'), (m1 if w1 != w1 else m2)
        elif w1 >= w2:
            worst, wm = w1, m1
        else:
            worst, wm = w2, m2
        wx, _ = data_spread(data, data['Conductivity'], rkinds,
                            ['LgConductivity'])
        rec.event('data_regrid_mu_eps_checks')
        rec.margin('data_spread_regrid_mu_eps_over_bound', wx/bound)
        if not (wx <= bound):
            rec.violation(
                'C14:regridded-mu-eps-averaged-by-mapping',
                f'model with mu_r/epsilon_r computed on another grid '
                f'(gridding=input): data of the logarithmic mappings differ '
                f'from those of the linear mappings by {wx:.3e} (tol '
                f'{tol:.1e}) although sigma, mu_r, epsilon_r are the same',
                dict(base, mapping='LgConductivity'))
    else:
        worst, wm = data_spread(data, data['Conductivity'], rkinds, MAPPINGS)
    d0 = data['Conductivity']
    rec.event('data_sextuple_checks')
    rec.margin('data_spread_over_bound', worst/bound)
    if not (worst <= bound):
        rec.violation('C14:data-differ-between-mappings',
                      f'synthetic data of the {wm} model differ from those of '
                      f'the (Lg)Conductivity model by {worst:.3e} (relative to '
                      f'the largest datum of the source/frequency/receiver '
                      f'type; tol {tol:.1e}, input class {sclass})',
                      dict(base, mapping=wm))
    # ---- gradient: chain rule through Simulation.gradient
    if grad:
        g0 = grads['Conductivity']
        ncomp = len(props['Conductivity'])
        g0 = g0.reshape((ncomp, *shape))
        scale = float(np.max(np.abs(g0)))
        worst, wm = 0.0, None
        for mapping in MAPPINGS:
            g = grads[mapping]
            if g.size != g0.size or not np.all(np.isfinite(g)):
                worst, wm = float('nan'), mapping
                break
            g = g.reshape(g0.shape)
            for c in range(ncomp):
                d = ref_dsigma_dx(props[mapping][c], mapping)
                q = float(np.max(np.abs(g[c]/d - g0[c]))/scale)
                if not (q <= worst):
                    worst, wm = q, mapping
        rec.event('gradient_chain_checks')
        rec.margin('gradient_chain_over_bound', worst/(FIELD_FACTOR*tol))
        if not (worst <= FIELD_FACTOR*tol):
            rec.violation('C14:gradient-chain-rule',
                          f'Simulation.gradient of the {wm} model / (d sigma/'
                          f'd x) differs from the gradient of the Conductivity'
                          f' model by {worst:.3e} of its maximum', dict(
                              base, mapping=wm))
    rec.distinct(('sim', ms['case'], base['mu_r'], base['eps_r'], sclass,
                  interp))
    rec.sample({'level': 'sim', 'shape': list(shape), 'case': ms['case'],
                'input_class': sclass, 'tol': tol,
                'n_data': int(d0.size)})


# --------------------------------------------------------------------------
def plan(tier, seed):
    """Mixed batches (importing emg3d costs more than most of the work)."""
    out = []
    if tier == 'quick':
        for k in range(16):
            parts = [{'mode': 'solve', 'k': k, 'n': 1}]
            if k < 8:
                parts.append({'mode': 'sim', 'k': k, 'n': 1})
            else:
                parts.append({'mode': 'solve', 'k': 100+k, 'n': 1})
            if k >= 10:
                parts.append({'mode': 'reject', 'mapping': MAPPINGS[k-10],
                              'rep0': 0, 'reps': 2})
            parts.append({'mode': 'maps', 'k': k, 'n': 20})
            parts.append({'mode': 'coef', 'k': k, 'n': 125})
            parts.append({'mode': 'gridopts', 'k': k, 'n': 12})
            parts.append({'mode': 'layered', 'k': k, 'n': 6})
            out.append({'id': f'q{k}', 'parts': parts})
        return out
    nb = 40
    for k in range(nb):
        parts = [{'mode': 'solve', 'k': k, 'n': 5},
                 {'mode': 'sim', 'k': k, 'n': 3},
                 {'mode': 'maps', 'k': k, 'n': 200},
                 {'mode': 'coef', 'k': k, 'n': 1000},
                 {'mode': 'gridopts', 'k': k, 'n': 100},
                 {'mode': 'layered', 'k': k, 'n': 30}]
        if k < 30:
            parts.append({'mode': 'reject', 'mapping': MAPPINGS[k % 6],
                          'rep0': 4*(k//6), 'reps': 4})
        if k == nb - 1:
            parts.append({'mode': 'maps-dense', 'k': 999, 'n': 1})
        out.append({'id': f't{k}', 'parts': parts})
    return out


def run_batch(batch):
    rec = common.Rec(max_viol=12)
    seed, tier = batch['seed'], batch['tier']
    only = batch.get('only')          # replay aid: (part index, case index)

    def guarded(fn, *a):
        try:
            fn(rec, *a)
        except Exception:  # noqa - harness error => inconclusive
            import traceback
            rec.inconclusive('harness error: ' + traceback.format_exc()[-900:],
                             {'batch': batch.get('id'), 'args': a[1:]})

    for pi, part in enumerate(batch['parts']):
        mode = part['mode']
        if only is not None and pi != only[0]:
            continue
        if mode == 'reject':
            for rep in range(part['rep0'], part['rep0'] + part['reps']):
                guarded(check_reject, seed, part['mapping'], rep)
            continue
        for i in range(part['n']):
            if only is not None and i != only[1]:
                continue
            if mode == 'maps':
                guarded(check_maps, seed, part['k'], i, tier)
            elif mode == 'maps-dense':
                guarded(check_maps, seed, part['k'], i, tier, True)
            elif mode == 'coef':
                guarded(check_coef, seed, part['k'], i, tier)
            elif mode == 'solve':
                guarded(check_solve, seed, part['k'], i, tier)
            elif mode == 'sim':
                guarded(check_sim, seed, part['k'], i, tier)
            elif mode == 'gridopts':
                guarded(check_gridopts, seed, part['k'], i, tier)
            elif mode == 'layered':
                guarded(check_layered, seed, part['k'], i, tier)
    return rec.result()


def finalize(merged, tier):
    common.require_events(merged, {
        'map_forward_checks': 1000, 'map_backward_checks': 1000,
        'roundtrip_sigma_checks': 1000, 'roundtrip_mapped_checks': 1000,
        'chain_checks': 1000, 'coefficient_checks': 50000,
        'sextuples_compared': 1000, 'invalid_value_checks': 2000,
        'valid_value_checks': 1500, 'valid_int_typed_value_checks': 500,
        'field_residual_checks': 36, 'field_sextuple_checks': 6,
        'data_sextuple_checks': 4, 'data_regrid_mu_eps_checks': 1,
        'gradient_chain_checks': 2, 'layered_option_checks': 60,
        'layered_data_checks': 20})
