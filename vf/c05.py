"""C05 - grid hierarchy and V/W/F cycling are well-formed.

Online trace from wrappers on solver.multigrid / smoothing / restriction /
prolongation / _terminate and the four smoother kernels, checked against the
textbook schedule (R2, re-implemented here).  Two modes of the same real
control code: 'skeleton' (numerical kernels replaced by no-ops, residual norm
scripted) and 'full' (real kernels).  Second channel: the solver's own verb=5
log and var.level_all.
"""
import itertools
import re
import numpy as np
from vf import common, gen

PROP = 'C05'
NEEDS_JIT = True
TIMEOUT = {'quick': 1200, 'thorough': 3400}
RULE = ("skeleton mode: quick = all shapes in {2..12}^3 + 2000 random shapes "
        "<= 40 + single-direction sizes to 1024 (sampled), thorough = ALL "
        "shapes in {2..40}^3 and all n in 2..1024 per single direction; per "
        "shape K random (cycle, semicoarsening, linerelaxation, clevel, nu) "
        "configurations (K=2 quick, 5 thorough); full mode (real kernels) on "
        "sampled shapes; distinct = ((k_d, odd part)_d, cycle, sc pattern, lr "
        "pattern, clevel) with depth >= 1 whose complete trace matched")
ASSUMPTIONS = [
    "skeleton mode: kernels influence control flow only through the residual "
    "norm (the only data-dependent branch is _terminate); sampled by full mode",
    "configuration product sampled per shape (not exhaustive); the shape set "
    "is exhaustive in the thorough tier",
    "termination restated as: trace equals the finite reference schedule",
]
SC = [0, 0, 1, 2, 3, True, 12, 123, 1213, 3021, 31, 10, 2003]
LR = [0, 0, 1, 2, 3, 4, 5, 6, 7, True, 45, 123, 4567, 1726, 70]
CLEVEL = [-1, -1, -1, 0, 1, 2, 3, 5]
LRSET = {0: (), 1: (0,), 2: (1,), 3: (2,), 4: (1, 2), 5: (0, 2), 6: (0, 1),
         7: (0, 1, 2)}
SCCODE = {(): 0, (0,): 1, (1,): 2, (2,): 3, (1, 2): 4, (0, 2): 5, (0, 1): 6}


# ------------------------------------------------------------------ plan
def plan(tier, seed):
    b = []
    if tier == 'quick':
        shapes = list(itertools.product(range(2, 13), repeat=3))
        nb = 40
        for k in range(nb):
            b.append({'id': f'sk{k}', 'mode': 'skeleton', 'k': k,
                      'shapes': shapes[k::nb], 'K': 2})
        for k in range(8):
            b.append({'id': f'skr{k}', 'mode': 'skeleton_random', 'k': k,
                      'n': 250, 'K': 1})
        b.append({'id': 'single', 'mode': 'single', 'k': 0, 'step': 7})
        for k in range(16):
            b.append({'id': f'full{k}', 'mode': 'full', 'k': k, 'n': 10})
        return b
    shapes = list(itertools.product(range(2, 41), repeat=3))
    nb = 240
    for k in range(nb):
        b.append({'id': f'sk{k}', 'mode': 'skeleton', 'k': k,
                  'shapes': shapes[k::nb], 'K': 5})
    for k in range(3):
        b.append({'id': f'single{k}', 'mode': 'single', 'k': k, 'step': 1,
                  'axis': k})
    for k in range(64):
        b.append({'id': f'full{k}', 'mode': 'full', 'k': k, 'n': 45})
    for k in range(8):
        b.append({'id': f'bc{k}', 'mode': 'full', 'k': 900+k, 'n': 12,
                  'boundscheck': True})
    return b


# ---------------------------------------------------------- reference R2
def digits(v, true_val):
    if v is True:
        return list(true_val)
    if v is False:
        return [0]
    return [int(c) for c in str(abs(int(v)))]


def kdiv(n):
    k = 0
    while n % 2 == 0 and n > 2:
        n //= 2
        k += 1
    return k


def ref_levels(shape, clevel):
    c = np.inf if clevel < 0 else clevel
    Ld = [min(kdiv(n), c) for n in shape]
    return [int(x) for x in Ld]


def depth(shape, clevel, q):
    Ld = ref_levels(shape, clevel)
    return max(Ld[d] for d in range(3) if d != q-1)


def halve(shape, q):
    """Next-coarser shape and set of directions NOT coarsened."""
    keep = tuple(d for d in range(3)
                 if shape[d] % 2 != 0 or shape[d] <= 2 or d == q-1)
    new = tuple(shape[d] if d in keep else shape[d]//2 for d in range(3))
    return new, keep


def kernels_for(lr, shape):
    dirs = tuple(d for d in LRSET[lr] if shape[d] != 2)
    if not dirs:
        return ('gauss_seidel',)
    return tuple('gauss_seidel_'+'xyz'[d] for d in dirs)


def ref_cycle(shape, cyc, q, lr, L, nus):
    """Events of one level-0 cycle + the visit sequence (for level_all)."""
    nu_pre, nu_coarse, nu_post = nus
    ev, visits = [], []

    def body(lvl, shp, T):
        visits.append(lvl)
        if lvl == L:
            ev.append(('smooth', lvl, shp, nu_coarse, lr,
                       kernels_for(lr, shp)))
            return
        if nu_pre > 0:
            ev.append(('smooth', lvl, shp, nu_pre, lr, kernels_for(lr, shp)))
        cshp, keep = halve(shp, q)
        ev.append(('restrict', lvl, shp, cshp, SCCODE[keep]))
        if lvl+1 == L or T == 'V':
            body(lvl+1, cshp, T)
        elif T == 'W':
            body(lvl+1, cshp, 'W')
            body(lvl+1, cshp, 'W')
        else:
            body(lvl+1, cshp, 'F')
            body(lvl+1, cshp, 'V')
        ev.append(('prolong', lvl, shp, cshp, SCCODE[keep]))
        visits.append(lvl)
        if nu_post > 0:
            ev.append(('smooth', lvl, shp, nu_post, lr, kernels_for(lr, shp)))
    body(0, tuple(shape), cyc)
    return ev, visits


def collapse(seq):
    out = []
    for s in seq:
        if not out or out[-1] != s:
            out.append(s)
    return out


# ------------------------------------------------------------ monitoring
class Abort(Exception):
    pass


class Tracer:
    def __init__(self, cap):
        self.ev = []
        self.stack = []
        self.kbuf = []
        self.cap = cap
        self.cycles = []       # (sc_dir, lr_dir) after each cycle end
        self.var = None
        self.max_enter = 0

    def add(self, e):
        self.ev.append(e)
        if len(self.ev) > self.cap:
            raise Abort('trace longer than any admissible schedule')


def install(tr, skeleton, script):
    """Patch module attributes; return an undo function."""
    import emg3d
    from emg3d import solver, core
    saved = {}

    def patch(mod, name, new):
        saved[(mod, name)] = getattr(mod, name)
        setattr(mod, name, new)

    o_mg, o_sm = solver.multigrid, solver.smoothing
    o_re, o_pr = solver.restriction, solver.prolongation
    o_te = solver._terminate

    def w_mg(model, sfield, efield, var, **kw):
        lvl = kw.get('level', 0)
        tr.var = var
        tr.stack.append(lvl)
        tr.max_enter = max(tr.max_enter, lvl)
        tr.add(('enter', lvl, tuple(model.grid.shape_cells)))
        try:
            return o_mg(model, sfield, efield, var, **kw)
        finally:
            tr.stack.pop()
            tr.add(('exit', lvl))

    def w_sm(model, sfield, efield, nu, lr_dir):
        tr.kbuf = []
        o_sm(model, sfield, efield, nu, lr_dir)
        tr.add(('smooth', tr.stack[-1], tuple(model.grid.shape_cells),
                int(nu), int(lr_dir), tuple(tr.kbuf)))

    def w_re(model, sfield, residual, sc_dir):
        out = o_re(model, sfield, residual, sc_dir)
        tr.add(('restrict', tr.stack[-1], tuple(model.grid.shape_cells),
                tuple(out[0].grid.shape_cells), int(sc_dir)))
        return out

    def w_pr(efield, cefield, sc_dir):
        if not skeleton:            # skeleton: purely numerical, skipped
            o_pr(efield, cefield, sc_dir)
        tr.add(('prolong', tr.stack[-1], tuple(efield.grid.shape_cells),
                tuple(cefield.grid.shape_cells), int(sc_dir)))

    def w_te(var, l2_last, l2_stag, it):
        tr.cycles.append((int(var.sc_dir), int(var.lr_dir)))
        tr.add(('cycle_end', int(it), int(var.it)))
        return o_te(var, l2_last, l2_stag, it)

    patch(solver, 'multigrid', w_mg)
    patch(solver, 'smoothing', w_sm)
    patch(solver, 'restriction', w_re)
    patch(solver, 'prolongation', w_pr)
    patch(solver, '_terminate', w_te)

    for name in ('gauss_seidel', 'gauss_seidel_x', 'gauss_seidel_y',
                 'gauss_seidel_z'):
        orig = getattr(core, name)

        def mk(name, orig):
            def k(*a):
                tr.kbuf.append(name)
                if not skeleton:
                    return orig(*a)
            return k
        patch(core, name, mk(name, orig))

    if skeleton:
        patch(core, 'amat_x', lambda *a: None)
        patch(core, 'restrict', lambda *a: None)

        class DummyProlongator:
            def __init__(self, cx, cy, x, y):
                self.n = len(x)*len(y)

            def __call__(self, values):
                return np.zeros(self.n)
        patch(solver, 'RegularGridProlongator', DummyProlongator)

        def w_res(model, sfield, efield, norm=False):
            if norm:
                script['n'] += 1
                return script['l0']/(1.0 + script['n'])
            return sfield       # only read by the (no-op) restriction
        patch(solver, 'residual', w_res)

    def undo():
        for (mod, name), v in saved.items():
            setattr(mod, name, v)
    _ = emg3d
    return undo


LOGLINE = re.compile(r'^\s+(\d+) (\d+) (\d+) \[\s*(\d+),\s*(\d+),\s*(\d+)\]: '
                     r'\S+ (.*)$')


def run_config(rec, shape, cfg, skeleton, case):
    import emg3d
    from emg3d import solver
    shape = tuple(int(s) for s in shape)
    sc_seq = digits(cfg['semicoarsening'], (1, 2, 3))
    lr_seq = digits(cfg['linerelaxation'], (4, 5, 6))
    nus = (cfg['nu_pre'], cfg['nu_coarse'], cfg['nu_post'])
    maxit = cfg['maxit']
    # expected length bound (for the abort cap)
    Lmax = max(depth(shape, cfg['clevel'], q) for q in set(sc_seq))
    cap = 200 + 40*maxit*(2**(Lmax+1))*2
    tr = Tracer(cap)
    script = {'n': 0, 'l0': 1.0}
    grid = emg3d.TensorMesh([np.ones(shape[0]), np.ones(shape[1]),
                             np.ones(shape[2])], origin=(0, 0, 0))
    model = emg3d.Model(grid, 1.0)
    sf = emg3d.Field(grid, frequency=1.0)
    if skeleton:
        sf.field[0] = 1.0
    else:
        # a source on an interior edge
        sf.fx[shape[0]//2, max(1, shape[1]//2), max(1, shape[2]//2)] = 1.0
    kw = dict(sslsolver=cfg.get('sslsolver', False),
              semicoarsening=cfg['semicoarsening'],
              linerelaxation=cfg['linerelaxation'], cycle=cfg['cycle'],
              clevel=cfg['clevel'], nu_init=cfg['nu_init'], nu_pre=nus[0],
              nu_coarse=nus[1], nu_post=nus[2], maxit=maxit,
              tol=1e-300 if skeleton else cfg.get('tol', 1e-12),
              verb=cfg['verb'], log=-1, return_info=True)
    undo = install(tr, skeleton, script)
    info = None
    err = None
    try:
        _, info = emg3d.solve(model, sf, **kw)
    except Abort as e:
        err = ('abort', str(e))
    except RecursionError as e:
        err = ('recursion', str(e))
    finally:
        undo()
    rec.case()
    rec.event('solves_skeleton' if skeleton else 'solves_full')
    case = dict(case, shape=shape, cfg=cfg)
    if err:
        rec.violation('C05:cycle-does-not-terminate', f'{err[0]}: {err[1]} '
                      f'after {len(tr.ev)} events', case)
        return
    var = tr.var
    ncyc = len(tr.cycles)
    krylov = bool(cfg.get('sslsolver', False))
    # ---- observed trace, with a marker for every multigrid(level 0) call
    got = []
    for e in tr.ev:
        if e[0] == 'enter' and e[1] == 0:
            got.append(('call',))
        elif e[0] not in ('enter', 'exit'):
            got.append(e)
    # cycles per call, as observed (the number of cycles a pre-conditioner
    # call runs depends on its residuals; everything else is predicted)
    per_call, cur = [], None
    for e in got:
        if e[0] == 'call':
            if cur is not None:
                per_call.append(cur)
            cur = 0
        elif e[0] == 'cycle_end':
            cur += 1
    if cur is not None:
        per_call.append(cur)
    visits_first = []

    def build_expected(cyc_type):
        exp_, k_ = [], 0
        for nc in per_call:
            exp_.append(('call',))
            if cfg['nu_init'] > 0:
                lr0 = lr_seq[k_ % len(lr_seq)]
                exp_.append(('smooth', 0, shape, cfg['nu_init'], lr0,
                             kernels_for(lr0, shape)))
            for j in range(nc):
                q = sc_seq[k_ % len(sc_seq)]
                lr = lr_seq[k_ % len(lr_seq)]
                ev, visits = ref_cycle(shape, cyc_type, q, lr,
                                       depth(shape, cfg['clevel'], q), nus)
                if k_ == 0:
                    visits_first[:] = visits
                exp_.extend(ev)
                exp_.append(('cycle_end', j+1, k_+1))
                k_ += 1
        return exp_
    exp = build_expected(cfg['cycle'])
    visits0 = list(visits_first) if ncyc else None
    rec.event('trace_events', len(got))
    rec.event('cycles', ncyc)
    rec.event('multigrid_calls', len(per_call))
    if got != exp and cfg['cycle'] == 'F' and depth(
            shape, cfg['clevel'], sc_seq[0]) == 0 and not krylov:
        # Known mechanism: the level-0 cycle counter is fixed in a cycle in
        # which level 0 was the coarsest grid; emulate "later cycles run as V".
        if got == build_expected('V'):
            rec.violation('C05:F-cycle-runs-as-V-after-depth0-first-direction',
                          f'cycle=F, semicoarsening pattern {sc_seq}: the '
                          f'first direction makes level 0 the coarsest grid; '
                          f'all later cycles are executed as V-cycles '
                          f'({len(got)} events instead of {len(exp)})', case)
            return
    if got != exp:
        k = next((i for i, (a, b) in enumerate(zip(got, exp)) if a != b),
                 min(len(got), len(exp)))
        a = got[k] if k < len(got) else None
        b = exp[k] if k < len(exp) else None
        what = 'schedule'
        if a and b and a[0] == b[0] == 'smooth' and a[:5] == b[:5]:
            what = 'line-relaxation-kernel'
        elif a and b and a[0] == b[0] == 'smooth' and a[:4] == b[:4]:
            what = 'lr-direction'
        elif a and b and a[0] == b[0] == 'restrict':
            what = 'coarsening'
        elif a and b and a[0] == b[0] == 'prolong':
            what = 'coarsening'
        elif len(got) != len(exp) and (a is None or b is None):
            what = 'schedule-length'
        if a and b and a[0] == b[0] and a[0] in ('smooth', 'restrict') and \
                a[:4] == b[:4] and a[4] != b[4]:
            what = 'direction-cycling'
        rec.violation(f'C05:{what}', f'trace differs from the reference '
                      f'{cfg["cycle"]}-cycle at event {k} of {len(exp)} '
                      f'(got {len(got)}): got {a}, expected {b}', case)
        return
    # ---- structural clauses (redundant with the trace equality, but stated
    # by the property; judged on the observed trace itself)
    for e in got:
        if e[0] == 'restrict':
            f, c = e[2], e[3]
            for d in range(3):
                if c[d] != f[d] and (f[d] % 2 or f[d] <= 2 or c[d]*2 != f[d]):
                    rec.violation('C05:coarsening', f'halved direction {d} of '
                                  f'{f} -> {c}', case)
                if c[d] < 2:
                    rec.violation('C05:coarsening', f'level with {c[d]} cells '
                                  f'in direction {d}', case)
        if e[0] == 'smooth':
            for kname in e[5]:
                if kname != 'gauss_seidel' and e[2]['xyz'.index(
                        kname[-1])] == 2:
                    rec.violation('C05:line-relaxation-kernel', f'line '
                                  f'relaxation along a two-cell direction: '
                                  f'{e}', case)
    rec.event('traces_matched')
    # deepest level reached
    for n in range(min(ncyc, len(sc_seq))):
        pass
    # ---- iteration count and direction cycling
    if krylov:
        rec.event('krylov_preconditioner_traces')
    if var.it != ncyc or info['it_mg'] != ncyc:
        rec.violation('C05:iteration-count', f'var.it={var.it}, it_mg='
                      f'{info["it_mg"]}, level-0 cycles observed {ncyc}', case)
    rec.event('cycling_checks', max(0, ncyc-1))
    if skeleton and ncyc != maxit:
        rec.violation('C05:iteration-count', f'{ncyc} cycles for maxit '
                      f'{maxit} with a never-converging scripted residual',
                      case)
    # ---- second channel: header, per-level log lines, level_all
    log = info['log']
    if cfg['verb'] >= 3 and not krylov:
        m1 = re.search(r'Coarsest grid\s*:\s*(\d+) x\s*(\d+) x\s*(\d+)', log)
        m2 = re.search(r'Coarsest level\s*:\s*(\d+)\s*;\s*(\d+)\s*;\s*(\d+)',
                       log)
        Ld = ref_levels(shape, cfg['clevel'])
        wantg = tuple(shape[d]//2**Ld[d] for d in range(3))
        rec.event('header_checks')
        if not m1 or not m2:
            rec.inconclusive('header not found in log', case)
        else:
            hg = tuple(int(x) for x in m1.groups())
            hl = [int(x) for x in m2.groups()]
            if hg != wantg or hl != Ld:
                rec.violation('C05:header-coarsest', f'header says coarsest '
                              f'grid {hg} levels {hl}; shape/clevel imply '
                              f'{wantg} {Ld}', case)
            # q = 0 cycles bottom out exactly at the header's coarsest grid
            for n in range(ncyc):
                if sc_seq[n % len(sc_seq)] == 0:
                    deepest = None
                    cnt = -1
                    for e in got:
                        if e[0] == 'cycle_end':
                            cnt += 1
                        elif cnt == n-1 and e[0] == 'smooth':
                            if deepest is None or e[1] > deepest[0]:
                                deepest = (e[1], e[2])
                    if deepest and deepest[1] != hg:
                        rec.violation('C05:header-coarsest', f'cycle {n+1} '
                                      f'(no semicoarsening) bottoms out at '
                                      f'{deepest[1]}, header says {hg}', case)
                    break
    if cfg['verb'] >= 5 and not krylov:
        lines = []
        for ln in log.splitlines():
            m = LOGLINE.match(ln)
            if m and m.group(7).strip() in ('pre-smoothing', 'post-smoothing',
                                            'coarsest level',
                                            'initial smoothing'):
                lines.append((int(m.group(2)), (int(m.group(4)),
                              int(m.group(5)), int(m.group(6)))))
        sm = [(e[1], e[2]) for e in got if e[0] == 'smooth' and e[3] > 0]
        # nu == 0 coarse smoothing still logs a line
        sm_all = [(e[1], e[2]) for e in got if e[0] == 'smooth']
        rec.event('log_channel_checks')
        if lines != sm_all and lines != sm:
            rec.violation('C05:log-disagrees-with-trace', f'verb=5 log has '
                          f'{len(lines)} smoothing lines, wrapper trace '
                          f'{len(sm_all)}; first log lines {lines[:6]}', case)
    if cfg['verb'] >= 4 and visits0 is not None and ncyc >= 1 and not krylov:
        rec.event('level_all_checks')
        if list(var.level_all) != collapse(visits0):
            rec.violation('C05:qc-level-sequence', f'level_all '
                          f'{list(var.level_all)[:40]} != visit order '
                          f'{collapse(visits0)[:40]}', case)
    L0 = depth(shape, cfg['clevel'], sc_seq[0])
    if L0 >= 1:
        rec.distinct((tuple((kdiv(n), n >> kdiv(n)) for n in shape),
                      cfg['cycle'], str(cfg['semicoarsening']),
                      str(cfg['linerelaxation']), cfg['clevel']))
    rec.extra_add('max_depth_seen_%d' % min(tr.max_enter, 9), 1)
    if not skeleton or rec.r['n_cases'] % 400 == 1:
        rec.sample({'mode': 'skeleton' if skeleton else 'full',
                    'shape': shape, 'cfg': cfg, 'cycles': ncyc,
                    'level_visits_first_cycle': collapse(visits0 or [])[:40],
                    'n_trace_events': len(got)})
    _ = solver


def rand_cfg(r, full=False):
    sc = gen.choice(r, SC)
    lr = gen.choice(r, LR)
    npat = max(len(digits(sc, (1, 2, 3))), len(digits(lr, (4, 5, 6))))
    cfg = {'cycle': gen.choice(r, ['V', 'W', 'F']), 'semicoarsening': sc,
           'linerelaxation': lr, 'clevel': int(gen.choice(r, CLEVEL)),
           'nu_init': int(gen.choice(r, [0, 0, 0, 1, 2])),
           'nu_pre': int(gen.choice(r, [0, 1, 2, 2, 3])),
           'nu_coarse': int(gen.choice(r, [0, 1, 1, 2])),
           'nu_post': int(gen.choice(r, [0, 1, 2, 2, 3])),
           'maxit': int(min(npat + 1 + r.integers(0, 2), 6)),
           'verb': int(gen.choice(r, [5, 5, 4, 3, 0]))}
    if full:
        cfg['maxit'] = int(min(cfg['maxit'], 3))
        cfg['tol'] = float(10.0**r.uniform(-9, -3))
        cfg['sslsolver'] = gen.choice(r, [False, False, 'bicgstab', 'gcrotmk',
                                          'cgs'])
        if cfg['sslsolver']:
            cfg['maxit'] = int(r.integers(2, 5))     # Krylov iterations
    return cfg


def run_batch(batch):
    rec = common.Rec(max_samples=2)
    seed, k = batch['seed'], batch['k']
    mode = batch['mode']
    if mode == 'skeleton':
        for si, shape in enumerate(batch['shapes']):
            for j in range(batch['K']):
                r = gen.rng(seed, 'C05', 'sk', *shape, j)
                run_config(rec, shape, rand_cfg(r), True,
                           {'mode': 'skeleton', 'j': j})
        if batch['tier'] == 'thorough':
            rec.r['extra']['exhaustive_shapes_2_40'] = 1
    elif mode == 'skeleton_random':
        for i in range(batch['n']):
            r = gen.rng(seed, 'C05', 'skr', k, i)
            shape = tuple(int(x) for x in r.integers(2, 41, 3))
            run_config(rec, shape, rand_cfg(r), True,
                       {'mode': 'skeleton_random', 'k': k, 'i': i})
    elif mode == 'single':
        axes = [batch['axis']] if 'axis' in batch else [0, 1, 2]
        for ax in axes:
            for n in range(2, 1025, batch['step']):
                r = gen.rng(seed, 'C05', 'single', ax, n)
                shape = [2, 2, 2]
                shape[ax] = n
                if r.random() < 0.3:
                    shape[(ax+1) % 3] = int(gen.choice(r, [2, 3, 4, 8]))
                run_config(rec, tuple(shape), rand_cfg(r), True,
                           {'mode': 'single', 'axis': ax})
    elif mode == 'full':
        for i in range(batch['n']):
            r = gen.rng(seed, 'C05', 'full', k, i)
            big = batch['tier'] == 'thorough'
            sizes = ([2, 3, 4, 5, 6, 8, 10, 12, 16, 20, 24] +
                     ([32, 40] if big else []))
            shape = tuple(int(gen.choice(r, sizes)) for _ in range(3))
            run_config(rec, shape, rand_cfg(r, full=True), False,
                       {'mode': 'full', 'k': k, 'i': i})
    return rec.result()


def finalize(merged, tier):
    need = {'traces_matched': 2500, 'solves_full': 100, 'cycling_checks': 5000,
            'krylov_preconditioner_traces': 30,
            'header_checks': 1000, 'log_channel_checks': 500,
            'level_all_checks': 800}
    if tier == 'thorough':
        need['traces_matched'] = 250000
    common.require_events(merged, need)
    if tier == 'thorough' and merged['extra'].get('exhaustive_shapes_2_40'):
        merged['extra']['exhaustive'] = (
            merged['events'].get('solves_skeleton', 0) >= 39**3*5)
        merged['extra']['exhaustive_note'] = (
            'exhaustive for the shape set {2..40}^3 only; configurations '
            'are sampled (5 per shape)')
