"""C01 - reported solver success certifies the returned field.

Monitor at the client boundary of emg3d.solve / emg3d.solve_source; oracle:
residual recomputed with the independent operator vf.refop (R1).
"""
import contextlib
import io
import numpy as np
from vf import common, gen

PROP = 'C01'
NEEDS_JIT = True
TIMEOUT = {'quick': 1200, 'thorough': 3400}
RULE = ("random grids (2..16 cells per direction, thorough to 40; uniform / "
        "stretched / jittered), models (4 anisotropy cases, mu_r, eps_r, six "
        "mappings), frequency or Laplace, sources (random interior edge "
        "fields, dipole/point/wire, zero) x random solver configuration "
        "(cycle, sslsolver, semicoarsening, linerelaxation, nu's, clevel, tol, "
        "maxit, plain, return_info, verb, supplied field kinds); distinct = "
        "(cycle, sslsolver, sc-class, lr-class, supplied?, exit class, dtype) "
        "tuples that reached the residual oracle; plus Simulations "
        "(gridding same, tol 1e-5..1e-7, tol_gradient 1e-2/1e-3/unset, in "
        "memory or file based) under random histories of compute / misfit / "
        "gradient / jvec / clean: every stored forward field reported "
        "converged against the requested forward tolerance")
ASSUMPTIONS = [
    "vf/refop.py is the discretisation the property refers to (C02 ties it to "
    "the kernel and to discretize)",
    "implication checked on sampled configurations only; tol >= 1e-10",
    "for return_info=False the reported status is read from stdout (verb>=0) "
    "and cross-checked with the MGParameters instance captured by a wrapper",
]

SC = [False, True, 0, 1, 2, 3, 12, 31, 123, 1213, 3021, 10, 2003]
LR = [False, True, 0, 1, 2, 3, 4, 5, 6, 7, 45, 123, 4567, 70, 1726]
SIZES_Q = [2, 3, 4, 4, 5, 6, 6, 7, 8, 8, 8, 9, 10, 12, 12, 16]
SIZES_T = SIZES_Q + [14, 16, 20, 24, 32, 40]


def plan(tier, seed):
    if tier == 'quick':
        nb, per = 48, 64           # 3072 solves
        return [{'id': f'q{k}', 'k': k, 'n': per} for k in range(nb)] + \
            [{'id': f's{k}', 'k': k, 'n': 6, 'mode': 'sim'} for k in range(8)]
    nb, per = 192, 260             # ~50k solves
    out = [{'id': f't{k}', 'k': k, 'n': per} for k in range(nb)]
    out += [{'id': f'bc{k}', 'k': 10000+k, 'n': 100, 'boundscheck': True}
            for k in range(32)]
    out += [{'id': f's{k}', 'k': k, 'n': 20, 'mode': 'sim'} for k in range(32)]
    return out


def sc_class(v):
    if v is True:
        return 'True'
    if v is False or v == 0:
        return '0'
    return 'single' if v < 10 else 'multi'


def gen_case(seed, k, i, tier):
    r = gen.rng(seed, 'C01', k, i)
    sizes = SIZES_Q if tier == 'quick' else SIZES_T
    shape = tuple(int(gen.choice(r, sizes)) for _ in range(3))
    if np.prod(shape) > 16000:     # keep single solves cheap
        shape = tuple(min(s, 20) for s in shape)
    gs = gen.grid_spec(r, shape)
    ms = gen.model_spec(r, shape, decades=gen.choice(r, [0, 1, 2, 4]))
    freq = gen.frequency(r)
    c = {'k': k, 'i': i, 'shape': shape, 'frequency': freq}
    # solver configuration
    ssl = gen.choice(r, [False, False, True, True, 'bicgstab', 'cgs',
                         'gcrotmk'])
    cycle = gen.choice(r, ['F', 'F', 'V', 'W', None])
    if cycle is None and not ssl:
        ssl = gen.choice(r, [True, 'bicgstab', 'cgs', 'gcrotmk'])
    kw = {'sslsolver': ssl, 'cycle': cycle,
          'semicoarsening': gen.choice(r, SC),
          'linerelaxation': gen.choice(r, LR),
          'tol': float(10.0**r.uniform(-10, -2)),
          'maxit': int(gen.choice(r, [1, 2, 5, 20, 50, 50])),
          'verb': int(gen.choice(r, [-1, 0, 0, 1, 2, 3, 4, 5]))}
    if r.random() < 0.5:
        kw.update(nu_init=int(r.integers(0, 3)), nu_pre=int(r.integers(0, 4)),
                  nu_coarse=int(r.integers(0, 4)), nu_post=int(r.integers(0, 4)))
    if r.random() < 0.4:
        kw['clevel'] = int(gen.choice(r, [-1, 0, 1, 2, 5]))
    if r.random() < 0.15 and not (cycle is None and ssl is True):
        kw['plain'] = True      # (plain + cycle=None + sslsolver=True is invalid)
    if r.random() < 0.6:
        kw['return_info'] = True
        if r.random() < 0.3:
            kw['log'] = int(gen.choice(r, [-1, 0, 1]))
    c['kw'] = kw
    # source
    u = r.random()
    c['src_kind'] = ('zero' if u < 0.05 else 'sparse' if u < 0.12 else
                     'dipole' if u < 0.35 else 'random')
    if c['src_kind'] == 'dipole' and min(shape) < 4:
        # no cell away from the outermost ones: outside the quantifier
        c['src_kind'] = 'random'
    c['api'] = 'solve_source' if (c['src_kind'] == 'dipole' and
                                  r.random() < 0.5) else 'solve'
    # supplied field
    u = r.random()
    c['supplied'] = (None if u < 0.7 else gen.choice(
        r, ['random', 'random_bnd', 'converged', 'zero']))
    if c['api'] == 'solve_source' and c['supplied'] == 'converged':
        c['supplied'] = 'random'
    return c, r, gs, ms


def make_source(r, c, grid, ref, dtype):
    """Return (sfield Field or None, source object or None)."""
    import emg3d
    freq = c['frequency']
    n = grid.n_edges
    if c['src_kind'] == 'zero':
        return emg3d.Field(grid, frequency=freq), None
    if c['src_kind'] in ('random', 'sparse'):
        v = gen.random_field(r, n, dtype == np.complex128)
        v[~ref.interior] = 0
        if c['src_kind'] == 'sparse':
            keep = np.zeros(n, bool)
            idx = np.flatnonzero(ref.interior)
            if idx.size:
                keep[r.choice(idx, min(3, idx.size), False)] = True
            v[~keep] = 0
        v = v*10.0**r.uniform(-8, 3)
        return emg3d.Field(grid, data=v.astype(dtype), frequency=freq), None
    # electric dipole / point / wire inside the inner region
    nx, ny, nz = grid.shape_cells

    def inner(nodes):
        # strictly inside the second to second-last cell
        lo, hi = nodes[1], nodes[-2]
        eps = 1e-6*(hi-lo)
        return float(r.uniform(lo+eps, hi-eps))

    def pt():
        return [inner(grid.nodes_x), inner(grid.nodes_y), inner(grid.nodes_z)]
    kind = gen.choice(r, ['point', 'dipole', 'wire'])
    strength = float(10.0**r.uniform(-1, 2))
    if kind == 'point':
        src = emg3d.TxElectricPoint(
            (*pt(), float(r.uniform(-180, 180)), float(r.uniform(-90, 90))),
            strength=strength)
    elif kind == 'dipole':
        p0, p1 = pt(), pt()
        if np.allclose(p0, p1):
            p1[0] = inner(grid.nodes_x)
        src = emg3d.TxElectricDipole(np.array([p0, p1]), strength=strength)
    else:
        pts = np.array([pt() for _ in range(int(r.integers(3, 6)))])
        src = emg3d.TxElectricWire(pts, strength=strength)
    return emg3d.get_source_field(grid, src, freq), src


class Capture:
    """Wrapper around solver.MGParameters that keeps the last instance."""
    last = None


def install_capture():
    import emg3d
    from emg3d import solver
    if getattr(solver.MGParameters, '_vf_wrapped', False):
        return
    orig = solver.MGParameters.__post_init__

    def post(self):
        orig(self)
        Capture.last = self
    solver.MGParameters.__post_init__ = post
    solver.MGParameters._vf_wrapped = True
    _ = emg3d


def stdout_status(kw, out):
    """What the user was told on the screen: 0 / 1 / None (nothing said)."""
    verb = kw['verb']
    log = kw.get('log', None)
    if kw.get('return_info') and log == -1:
        return None                       # log only, nothing printed
    if verb < 0:
        return None
    if verb == 0:
        return 1 if '* WARNING ::' in out else 0
    ok = ('CONVERGED' in out.replace('NOT CONVERGED', '') or
          'NOTHING DONE' in out or 'RETURN ZERO' in out)
    return 0 if ok else 1


def run_case(rec, seed, k, i, tier):
    import emg3d
    from emg3d import solver
    install_capture()
    c, r, gs, ms = gen_case(seed, k, i, tier)
    grid, model = gen.build_emg3d(gs, ms)
    ref = gen.build_refop(gs, ms, c['frequency'])
    dtype = np.complex128 if c['frequency'] > 0 else np.float64
    sfield, src = make_source(r, c, grid, ref, dtype)
    kw = dict(c['kw'])
    case = {'seed': seed, 'k': k, 'i': i, 'shape': c['shape'],
            'frequency': c['frequency'], 'model': {
                'case': ms['case'], 'mapping': ms['mapping'],
                'mu_r': ms['mu_r'] is not None, 'eps_r': ms['eps_r'] is not None},
            'kw': kw, 'src_kind': c['src_kind'], 'api': c['api'],
            'supplied': c['supplied'], 'grid': gen.summarize_grid(gs)}
    svec = np.array(sfield.field)
    refnorm = float(np.linalg.norm(svec))
    if np.count_nonzero(svec[~ref.interior]):
        # source touches the outermost cells: excluded by the property
        rec.event('skipped_source_on_boundary')
        return

    # supplied field
    supplied = None
    if c['supplied']:
        n = grid.n_edges
        if c['supplied'] == 'zero':
            v = np.zeros(n, dtype)
        elif c['supplied'] in ('random', 'random_bnd'):
            v = gen.random_field(r, n, dtype == np.complex128).astype(dtype)
            # scale to the size of a plausible solution
            dscale = np.abs(ref.A.diagonal()[ref.interior]).mean() if \
                ref.interior.any() else 1.0
            v *= (refnorm if refnorm > 0 else 1.0)/dscale
            if c['supplied'] == 'random':
                v[~ref.interior] = 0
        else:  # converged from a tighter solve
            with contextlib.redirect_stdout(io.StringIO()):
                e0 = emg3d.solve(model, sfield, tol=kw['tol']*1e-2, verb=-1)
            v = np.array(e0.field)
        supplied = emg3d.Field(grid, data=v.copy(), frequency=c['frequency'])
        if r.random() < 0.3:      # field without frequency information
            supplied = emg3d.Field(grid, data=v.copy())
        kw['efield'] = supplied

    # ---- the call, recorded at the client boundary
    Capture.last = None
    buf = io.StringIO()
    exc = None
    ret = None
    with contextlib.redirect_stdout(buf):
        try:
            if c['api'] == 'solve_source':
                ret = emg3d.solve_source(model, src, c['frequency'], **kw)
            else:
                ret = emg3d.solve(model, sfield, **kw)
        except Exception as e:  # noqa
            exc = e
    out = buf.getvalue()
    var = Capture.last
    rec.case()
    rec.event('solve_calls')
    if exc is not None:
        # A valid configuration must not raise.
        rec.inconclusive(f'solver raised {type(exc).__name__}: {exc}', case)
        return

    # ---- (f) return protocol
    want_info = bool(kw.get('return_info'))
    info = None
    efield = None
    if supplied is None:
        if want_info:
            ok = isinstance(ret, tuple) and len(ret) == 2
            if ok:
                efield, info = ret
        else:
            ok = isinstance(ret, emg3d.Field)
            efield = ret
    else:
        efield = supplied
        if want_info:
            ok = isinstance(ret, dict)
            info = ret
        else:
            ok = ret is None
    rec.event('return_protocol_checks')
    if not ok or (efield is not None and not isinstance(efield, emg3d.Field)):
        rec.violation('C01:return-protocol', f'unexpected return value '
                      f'{type(ret).__name__} for supplied={c["supplied"]} '
                      f'return_info={want_info}', case)
        return

    e = np.array(efield.field)
    # ---- status as reported
    st_info = None if info is None else int(info['exit'])
    st_out = stdout_status(c['kw'], out)
    st_var = None if var is None else int(var.exit_message != 'CONVERGED')
    status = st_info if st_info is not None else st_out
    if status is None:
        status = st_var          # verb=-1 & no info: internal observation only
        rec.event('status_from_wrapper_only')
    case['reported'] = {'info_exit': st_info, 'stdout': st_out, 'var': st_var,
                        'exit_message': None if var is None else
                        var.exit_message}
    # all channels must agree
    chans = [s for s in (st_info, st_out, st_var) if s is not None]
    rec.event('status_channel_checks')
    if len(set(chans)) > 1:
        rec.violation('C01:status-channels-disagree',
                      f'info/stdout/internal status disagree: {case["reported"]}'
                      f'; stdout tail: {out[-300:]!r}', case)

    # ---- (c) dtype
    rec.event('dtype_checks')
    if e.dtype != svec.dtype or (c['frequency'] < 0 and np.iscomplexobj(e)):
        rec.violation('C01:dtype', f'field dtype {e.dtype} for source dtype '
                      f'{svec.dtype} (frequency {c["frequency"]})', case)

    # ---- (b) PEC
    rec.event('pec_checks')
    nb = int(np.count_nonzero(e[~ref.interior]))
    if nb:
        rec.violation('C01:pec-boundary-nonzero', f'{nb} tangential boundary '
                      'entries of the returned/updated field are non-zero',
                      case)

    true = float(np.linalg.norm(ref.residual(svec, e))) if np.all(
        np.isfinite(e)) else float('nan')
    tol = kw['tol']
    case['true_residual'] = true
    case['ref_norm'] = refnorm
    exit_class = 'none' if var is None else var.exit_message.split(' (')[0][:22]

    # ---- (e) zero source
    if refnorm == 0.0:
        rec.event('zero_source_checks')
        if np.count_nonzero(e) or status != 0:
            which = ('caller-supplied field left non-zero' if supplied is not
                     None else 'returned field non-zero')
            key = ('C01:zero-source-supplied-field-not-zeroed'
                   if supplied is not None and np.count_nonzero(e)
                   else 'C01:zero-source')
            rec.violation(key, f'zero source: {which} (nnz='
                          f'{np.count_nonzero(e)}), status={status}', case)
        rec.distinct(('zero', str(kw['cycle']), str(kw['sslsolver']),
                      c['supplied'] is not None))
        return

    # rounding floor of forming s - A e at all (cancellation inside A e)
    floor = 50*np.finfo(float).eps*float(np.linalg.norm(
        abs(ref.A) @ np.abs(e) + np.abs(svec)))
    case['rounding_floor'] = floor
    bound = tol*refnorm*(1+1e-6) + floor
    # ---- (a) success => residual below tolerance
    if status == 0:
        rec.event('success_residual_checks')
        rec.margin('success_true_over_tol', true/(tol*refnorm))
        # (the ratio to tol alone exceeds 1 where forming s - A e is itself
        # limited by rounding: tol 1e-10 on badly scaled models; the verdict
        # uses the bound including that floor)
        rec.margin('success_true_over_bound', true/bound)
        if not (true <= bound):
            ssl = var.sslsolver if var is not None else kw['sslsolver']
            key = ('C01:success-above-tol-krylov' if ssl else
                   'C01:success-above-tol-mg')
            rec.violation(key, f'exit=0 but independent residual '
                          f'{true:.6e} > tol*ref = {tol*refnorm:.6e} '
                          f'(ratio {true/(tol*refnorm):.4f}); '
                          f'message={exit_class!r}', case)
    else:
        rec.event('failure_reports')
        # a failure must come with an explanatory message (and a warning)
        msg = var.exit_message if var is not None else None
        if info is not None:
            msg = info['exit_message']
        if not msg or msg == 'CONVERGED':
            rec.violation('C01:failure-without-message',
                          f'exit=1 with message {msg!r}', case)
        if (c['kw']['verb'] == 0 and not want_info and
                '* WARNING ::' not in out):
            rec.violation('C01:failure-without-warning',
                          'verb=0, no info requested, failure, but no warning '
                          'was printed', case)
    # contrapositive is the same statement; count both sides
    if not (true <= bound):
        rec.event('above_tol_runs')

    # ---- (d) reported figures describe this very field
    if info is not None:
        rec.event('info_checks')
        bad = []
        if not (abs(info['ref_error'] - refnorm) <= 1e-12*refnorm):
            bad.append(f"ref_error {info['ref_error']} != |s| {refnorm}")
        if info['tol'] != tol:
            bad.append(f"tol {info['tol']} != {tol}")
        if not (abs(info['rel_error'] - info['abs_error']/info['ref_error'])
                <= 1e-12*abs(info['rel_error'])) and np.isfinite(
                    info['abs_error']):
            bad.append('rel_error != abs_error/ref_error')
        if bad:
            rec.violation('C01:info-inconsistent', '; '.join(bad), case)
        if status == 0:
            rec.event('info_abs_error_checks')
            dev = abs(info['abs_error'] - true)
            rec.margin('abs_error_rel_dev', dev/max(true, 1e-300) if true > 0
                       else 0.0)
            if not (dev <= 1e-3*true + floor):
                ssl = var.sslsolver if var is not None else kw['sslsolver']
                key = ('C01:stale-abs-error-krylov' if ssl else
                       'C01:stale-abs-error-mg')
                rec.violation(key, f"success, but reported abs_error "
                              f"{info['abs_error']:.6e} (rel "
                              f"{info['rel_error']:.3e}) does not describe "
                              f"the returned field: true residual {true:.6e}"
                              f" (rel {true/refnorm:.3e}), tol {tol:.3e}",
                              case)
    # ---- every 8th fresh-field case: the same model / source objects are
    # used for a second solve; the inputs must not have been altered by the
    # first one (the second result is judged by the same residual oracle).
    if supplied is None and i % 8 == 3 and c['api'] == 'solve' and \
            not case.get('second_solve'):
        rec.event('input_reuse_checks')
        if not np.array_equal(np.array(sfield.field), svec):
            rec.violation('C01:solver-modifies-source-field', 'the source '
                          'field handed to solve() was changed by it', case)
        buf2 = io.StringIO()
        with contextlib.redirect_stdout(buf2):
            try:
                ret2 = emg3d.solve(model, sfield, **{**kw, 'return_info':
                                                      True, 'verb': -1})
            except Exception as e2:  # noqa
                ret2 = None
                rec.inconclusive(f'second solve raised {e2}', case)
        if ret2 is not None:
            e2, info2 = ret2
            t2 = float(np.linalg.norm(ref.residual(svec, np.array(e2.field))))
            fl2 = 50*np.finfo(float).eps*float(np.linalg.norm(
                abs(ref.A) @ np.abs(e2.field) + np.abs(svec)))
            if info2['exit'] == 0 and not (
                    t2 <= tol*refnorm*(1+1e-6) + fl2):
                rec.violation('C01:second-solve-with-same-objects',
                              f'a second solve with the same model/source '
                              f'objects reports success but the independent '
                              f'residual is {t2:.3e} > tol*ref '
                              f'{tol*refnorm:.3e} (first solve was fine)',
                              case)
    rec.distinct((str(kw['cycle']), str(kw['sslsolver']),
                  sc_class(kw['semicoarsening']),
                  sc_class(kw['linerelaxation']), c['supplied'] is not None,
                  exit_class, str(e.dtype)))
    rec.extra_set('exit_messages', [exit_class])
    if i < 2:
        rec.sample({**{kk: case[kk] for kk in ('shape', 'frequency', 'model',
                                               'kw', 'src_kind', 'supplied',
                                               'reported')},
                    'true_rel_residual': true/refnorm})
    _ = solver


def run_sim_case(rec, seed, k, i, tier):
    """The same implication where a Simulation drives the solver: every
    forward field a Simulation holds with status 'converged' satisfies the
    system to the forward tolerance the user asked for - at any point of a
    history of compute / gradient / jvec / clean calls on that object."""
    import warnings
    import emg3d
    from vf import simgen
    warnings.simplefilter('ignore')
    r = gen.rng(seed, 'C01', 'sim', k, i)
    ps = simgen.problem_spec(r, nan_frac=0.0)
    ms, gs = ps['ms'], ps['gs']
    tol = float(gen.choice(r, [1e-5, 1e-6, 1e-7]))
    so = {'tol': tol, 'maxit': 60}
    if r.random() < 0.7:
        so['tol_gradient'] = float(gen.choice(r, [1e-2, 1e-3]))
    if r.random() < 0.5:
        so.update(sslsolver=False, semicoarsening=False,
                  linerelaxation=False)
    obs = simgen.observed_from(ps, r, tol=1e-6)
    grid, model = simgen.build_model(ps)
    sv = simgen.build_survey(ps, data=obs.copy())
    kw = {}
    tmpd = None
    if r.random() < 0.2:
        import tempfile
        tmpd = tempfile.mkdtemp(prefix='vf-c01-')
        kw['file_dir'] = tmpd
    sim = simgen.simulation(sv, model, solver_opts=so, **kw)
    steps = [gen.choice(r, ['compute', 'gradient', 'misfit', 'jvec', 'clean',
                            'gradient', 'clean'])
             for _ in range(int(r.integers(3, 7)))] + ['clean', 'compute']
    case = {'mode': 'sim', 'seed': seed, 'k': k, 'i': i, 'tol': tol,
            'solver_opts': so, 'steps': steps, 'file_based': tmpd is not None,
            'problem': simgen.summarize(ps)}
    refs = {}
    rec.case()
    done = []
    try:
        for st in steps:
            if st == 'compute':
                sim.compute()
            elif st == 'gradient':
                _ = sim.gradient
            elif st == 'misfit':
                _ = sim.misfit
            elif st == 'jvec':
                v = r.standard_normal(sim.model.shape)
                if ms['case'] != 'isotropic':
                    n_ = {'HTI': 2, 'VTI': 2, 'triaxial': 3}[ms['case']]
                    v = r.standard_normal((n_, *sim.model.shape))
                try:
                    sim.jvec(v)
                except Exception:  # noqa - not the subject here
                    rec.event('sim_jvec_raised')
            elif st == 'clean':
                sim.clean('computed')
            done.append(st)
            rec.event('sim_history_steps')
            # ---- at every quiescent point: all stored forward fields
            for src, fname in sim._srcfreq:
                ef = sim._dict_efield[src][fname]
                if ef is None:
                    continue
                if isinstance(ef, str):
                    ef = sim.get_efield(src, fname)
                info = sim.get_efield_info(src, fname)
                freq = float(sim.survey.frequencies[fname])
                if freq not in refs:
                    refs[freq] = gen.build_refop(gs, ms, freq)
                ref = refs[freq]
                sf = emg3d.fields.get_source_field(
                    sim.model.grid, sim.survey.sources[src], freq)
                svec = np.array(sf.field)
                e = np.array(ef.field)
                if np.count_nonzero(svec[~ref.interior]):
                    rec.event('skipped_source_on_boundary')
                    continue
                res = (svec - ref.A @ e)[ref.interior]
                true = float(np.linalg.norm(res))
                refnorm = float(np.linalg.norm(svec))
                floor = 50*np.finfo(float).eps*float(np.linalg.norm(
                    abs(ref.A) @ np.abs(e) + np.abs(svec)))
                if info['exit'] == 0:
                    rec.event('sim_success_residual_checks')
                    rec.margin('sim_success_true_over_tol',
                               true/(tol*refnorm))
                    if not (true <= tol*refnorm*(1+1e-6) + floor):
                        rec.violation(
                            'C01:simulation-forward-field-above-requested-tol',
                            f'after {done}: forward field of ({src}, {fname})'
                            f' is reported converged (exit 0, '
                            f'{info["exit_message"]!r}) but its independent '
                            f'residual is {true/refnorm:.3e} of the source '
                            f'norm; requested forward tol {tol:.1e}', case)
                        return
                else:
                    rec.event('sim_failure_reports')
        rec.distinct(('sim', tuple(sorted(set(steps))), 'tol_gradient' in so,
                      so.get('sslsolver', True), tmpd is not None))
    finally:
        if tmpd:
            import shutil
            shutil.rmtree(tmpd, ignore_errors=True)


def run_batch(batch):
    rec = common.Rec(max_viol=12)
    only = batch.get('only')
    for i in range(batch['n']):
        if only is not None and i != only:
            continue
        try:
            if batch.get('mode') == 'sim':
                run_sim_case(rec, batch['seed'], batch['k'], i, batch['tier'])
                continue
            run_case(rec, batch['seed'], batch['k'], i, batch['tier'])
        except IndexError:
            raise
        except Exception as e:  # noqa - harness error => inconclusive
            import traceback
            rec.inconclusive('harness error: ' + traceback.format_exc()[-900:],
                             {'k': batch['k'], 'i': i})
            _ = e
    return rec.result()


def finalize(merged, tier):
    common.require_events(merged, {
        'solve_calls': 1000, 'success_residual_checks': 300,
        'failure_reports': 100, 'info_abs_error_checks': 100,
        'zero_source_checks': 20, 'pec_checks': 1000,
        'sim_success_residual_checks': 100})
