"""C15 - volume averaging between grids conserves the integrated property.

Observation points: every call of ``emg3d.maps.interpolate(method='volume')``,
``Model.interpolate_to_grid`` and ``maps._interp_volume_average_adj`` made by
the driver on generated grid pairs.  Oracle: my own overlap-length operator
(``w1d``/``RefAvg`` below: per direction the length of the intersection of an
output cell with the input cells, the first and last input cell being extended
to -inf/+inf, divided by the length of the output cell; 3-D = tensor product).
It is written from the definition of a volume average and shares no code with
emg3d.maps or discretize.

Clauses (numbers are used in the event names):
 1 result = W v (linear mode), = 10**(W log10 v) (log mode)
 2 same region => sum(out*V_new) = sum(v*V_old) (log mode: of log10)
 3 min v <= out <= max v
 4 equal grids => identity
 5 cells that see a single source cell (in particular cells outside the source
   grid) carry exactly that (nearest) value
 6 log mode: resistivity and conductivity inputs give reciprocal outputs
 7 the map is linear with matrix W (O(1) probe vector, complete basis on small
   grids) and maps._interp_volume_average_adj adds exactly W^T n to each of
   its three slots (random vectors, unit vectors, complete basis on small
   grids, and the pairing <F v, n> = <v, F^T n> with emg3d's own forward map)
   7s the same for the transpose as Simulation.gradient uses it: gradient =
   sum over source-frequency pairs of W_pair^T (cell-averaged field product
   of that pair), W_pair built from the grid of that pair (gridding 'dict'
   with per-source grids of equal shape, and 'input')
 8 Model.interpolate_to_grid: for the same conductivity handed over in each of
   the six mappings the interpolated model describes 10**(W log10 sigma),
   i.e. log mode for the linear mappings and plain averaging of the already
   logarithmic ones.
"""
import itertools
import numpy as np
from vf import common, gen

PROP = 'C15'
NEEDS_JIT = True
TIMEOUT = {'quick': 900, 'thorough': 3000}
RULE = ("grid pairs with 1..12 cells per direction; per direction one of the "
        "relations same-region / refined / coarsened / equal / inside / "
        "outside / shifted / partial overlap / disjoint (class = one relation "
        "for all directions, or mixed), uniform / stretched / jittered widths, "
        "extent 1..1e4 m, origin up to 10 extents away; plus the complete "
        "enumeration of all 1-D grid pairs with nodes on an integer lattice "
        "(quick {0..4}: 676 pairs x 3 directions, thorough {0..6}: 14400 x 3 "
        "and 3-D products); values positive over eight decades (random, "
        "homogeneous, blocks, spike, trend), six mappings x four anisotropy "
        "cases for the Model route; Simulation.gradient with per-pair "
        "computational grids (2-3 sources x 1-2 frequencies); distinct = (class, relation per "
        "direction, n_in>n_out?, value kind) that reached every oracle clause "
        "applicable to it, lattice pairs by (direction, node sets)")
ASSUMPTIONS = [
    "the volume average of a piecewise constant function over a box is the "
    "overlap-volume weighted mean; outside the source grid the function is "
    "continued with the nearest cell value (w1d/RefAvg in vf/c15.py)",
    "tolerances are rounding bounds: 1e-13 + 64 eps max|node|/min(width) "
    "(cell widths versus node differences), not calibrated thresholds",
    "grids that Model.interpolate_to_grid regards as equal (np.allclose, "
    "rtol 1e-5) but that are not identical are not generated",
    "sampled pairs; only the 1-D lattice pairs are enumerated completely",
    "discretize (third party) is the operator emg3d uses for the transpose; "
    "it is observed through maps._interp_volume_average_adj only",
]

EPS = float(np.finfo(float).eps)
MAPPINGS = gen.MAPPINGS
RELS = ['same', 'refine', 'coarsen', 'equal', 'inside', 'outside', 'shifted',
        'overlap', 'disjoint']
# 'nearequal' / 'nearshift': grids that differ by less than the 1e-5 relative
# tolerance of TensorMesh.__eq__ (np.allclose) but are NOT the same grid; the
# volume average between them is not the identity (added after a seeded
# "same grid" shortcut in maps.interpolate was missed).
CLASSES = RELS + ['mixed', 'mixed', 'same', 'outside', 'nearequal',
                  'nearshift']
SIZES = [1, 1, 2, 2, 3, 3, 4, 4, 5, 6, 7, 8, 9, 10, 11, 12]
VKINDS = ['random', 'random', 'random', 'homogeneous', 'blocks', 'spike',
          'trend']


# ------------------------------------------------------------------ plan
def lattice_grids(m):
    """All node sets (>= 2 nodes) on the integer lattice {0..m}."""
    out = []
    for mask in range(1, 2**(m+1)):
        nodes = [i for i in range(m+1) if mask >> i & 1]
        if len(nodes) >= 2:
            out.append(nodes)
    return out


def plan(tier, seed):
    if tier == 'quick':
        b = [{'id': f'r{k}', 'mode': 'rand', 'k': k, 'n': 250}
             for k in range(8)]                                   # 2000 pairs
        b += [{'id': f'l{k}', 'mode': 'lattice', 'm': 4, 'part': k, 'parts': 2}
              for k in range(2)]
        b += [{'id': f'g{k}', 'mode': 'simgrad', 'k': k, 'n': 8}
              for k in range(6)]
        return b
    # (sized on a machine shared with other jobs; the 48 x 1250 + 16 x 400 +
    # 20 bounds-checking batches variant was run once and was silent, too)
    b = [{'id': f'r{k}', 'mode': 'rand', 'k': k, 'n': 625}
         for k in range(32)]                                      # 20000 pairs
    b += [{'id': f'l{k}', 'mode': 'lattice', 'm': 6, 'part': k, 'parts': 32}
          for k in range(32)]
    b += [{'id': f'p{k}', 'mode': 'lattice3', 'm': 4, 'k': k, 'n': 400}
          for k in range(8)]
    b += [{'id': f'g{k}', 'mode': 'simgrad', 'k': k, 'n': 40}
          for k in range(16)]
    b += [{'id': f'bc{k}', 'mode': 'rand', 'k': 100000+k, 'n': 120,
           'boundscheck': True} for k in range(8)]
    b += [{'id': f'bcl{k}', 'mode': 'lattice', 'm': 4, 'part': k, 'parts': 2,
           'boundscheck': True} for k in range(2)]
    return b


# ------------------------------------------------------- reference model
def w1d(xi, xo, delta=0.0):
    """(n_out x n_in) fractions of each output cell covered by each input
    cell, the outermost input cells reaching to infinity.

    ``delta`` > 0 widens every output cell by delta on both sides (without
    changing the normalisation): the entrywise upper envelope of all operators
    whose node positions are uncertain by delta."""
    xi = np.asarray(xi, dtype=float)
    xo = np.asarray(xo, dtype=float)
    a = xo[:-1, None] - delta
    b = xo[1:, None] + delta
    c = xi[:-1].copy()
    d = xi[1:].copy()
    c[0] = -np.inf
    d[-1] = np.inf
    ov = np.minimum(b, d[None, :]) - np.maximum(a, c[None, :])
    ov = np.where(ov > 0, ov, 0.0)
    return ov/(xo[1:, None] - xo[:-1, None])


class RefAvg:
    """Reference volume-average operator between two tensor grids."""

    def __init__(self, nodes_in, nodes_out):
        self.w = [w1d(i, o) for i, o in zip(nodes_in, nodes_out)]
        # Envelope for node positions that are only defined up to rounding:
        # where two nodes of the two grids coincide to within an ulp, which of
        # the two neighbouring cells owns the sliver between them is not
        # defined by the property.  4 ulp of the largest coordinate.
        self.wp = [w1d(i, o, 4*EPS*max(np.abs(i).max(), np.abs(o).max()))
                   for i, o in zip(nodes_in, nodes_out)]
        self.shape_in = tuple(len(n)-1 for n in nodes_in)
        self.shape_out = tuple(len(n)-1 for n in nodes_out)

    def apply(self, v):
        return np.einsum('ai,bj,ck,ijk->abc', *self.w, v, optimize=True)

    def applyT(self, n):
        return np.einsum('ai,bj,ck,abc->ijk', *self.w, n, optimize=True)

    def slack(self, absv):
        """(W+ - W)|v|: what an ulp-sized sliver between nearly coincident
        nodes can move between neighbouring cells (>= 0)."""
        d = np.einsum('ai,bj,ck,ijk->abc', *self.wp, absv, optimize=True) - \
            np.einsum('ai,bj,ck,ijk->abc', *self.w, absv, optimize=True)
        return np.where(d > 0, d, 0.0)

    def slackT(self, absn):
        d = np.einsum('ai,bj,ck,abc->ijk', *self.wp, absn, optimize=True) - \
            np.einsum('ai,bj,ck,abc->ijk', *self.w, absn, optimize=True)
        return np.where(d > 0, d, 0.0)

    def matrix(self):
        """Dense (n_out x n_in), Fortran ordering of both index sets."""
        return np.kron(self.w[2], np.kron(self.w[1], self.w[0]))

    def single_source(self):
        """For every output cell: flat F-index of the only contributing input
        cell, or -1 if more than one contributes."""
        idx = []
        for w in self.w:
            one = (np.count_nonzero(w, axis=1) == 1)
            j = np.argmax(w, axis=1)
            idx.append(np.where(one, j, -1))
        ix, iy, iz = np.meshgrid(*idx, indexing='ij')
        ok = (ix >= 0) & (iy >= 0) & (iz >= 0)
        return ok, (ix, iy, iz)

    def outside(self, nodes_in, nodes_out):
        """Output cells that lie completely outside the source region in at
        least one direction."""
        m = []
        for ni, no in zip(nodes_in, nodes_out):
            m.append((no[1:] <= ni[0]) | (no[:-1] >= ni[-1]))
        mx, my, mz = np.meshgrid(*m, indexing='ij')
        return mx | my | mz


def from_sigma(sig, mapping):
    """My own forward maps conductivity -> mapped property."""
    if mapping == 'Conductivity':
        return sig.copy()
    if mapping == 'Resistivity':
        return 1.0/sig
    if mapping == 'LgConductivity':
        return np.log10(sig)
    if mapping == 'LgResistivity':
        return -np.log10(sig)
    if mapping == 'LnConductivity':
        return np.log(sig)
    if mapping == 'LnResistivity':
        return -np.log(sig)
    raise ValueError(mapping)


def lg_sigma(prop, mapping):
    """log10(conductivity) described by a mapped property."""
    if mapping == 'Conductivity':
        return np.log10(prop)
    if mapping == 'Resistivity':
        return -np.log10(prop)
    if mapping == 'LgConductivity':
        return np.array(prop, dtype=float)
    if mapping == 'LgResistivity':
        return -np.array(prop, dtype=float)
    if mapping == 'LnConductivity':
        return np.array(prop, dtype=float)/np.log(10.0)
    if mapping == 'LnResistivity':
        return -np.array(prop, dtype=float)/np.log(10.0)
    raise ValueError(mapping)


# ------------------------------------------------------------ generators
def nodes_random(r, n, lo, hi, kind=None):
    kind = kind or gen.choice(r, ['uniform', 'stretched', 'jitter'])
    if kind == 'uniform':
        h = np.ones(n)
    elif kind == 'stretched':
        h = r.uniform(1.05, 1.6)**np.arange(n)
        if r.random() < 0.5:
            h = h[::-1]
    else:
        h = r.uniform(0.3, 2.0, n)
    t = np.r_[0.0, np.cumsum(h)]/h.sum()
    x = lo + (hi - lo)*t
    x[0], x[-1] = lo, hi
    return x


def split_counts(r, n_coarse, n_max=12):
    """How many fine cells each coarse cell is split into (sum <= n_max)."""
    k = np.ones(n_coarse, dtype=int)
    budget = n_max - n_coarse
    for _ in range(int(r.integers(0, budget+1))):
        k[int(r.integers(n_coarse))] += 1
    return k


def refine_nodes(r, x, k):
    out = [x[0]]
    for i, ki in enumerate(k):
        a, b = x[i], x[i+1]
        if ki > 1:
            if r.random() < 0.5:
                t = np.arange(1, ki)/ki
            else:
                t = np.sort(r.uniform(0.1, 0.9, ki-1))
                t = t[np.r_[True, np.diff(t) > 0.02]]
            out.extend(list(a + (b - a)*t))
        out.append(b)
    return np.array(out)


def pair_1d(r, rel, L, a):
    """Node vectors (input, output) of one direction for relation ``rel``."""
    n_in = int(gen.choice(r, SIZES))
    n_out = int(gen.choice(r, SIZES))
    lo, hi = a, a + L
    if rel == 'same':
        xi = nodes_random(r, n_in, lo, hi)
        xo = nodes_random(r, n_out, lo, hi)
        if r.random() < 0.3 and n_in > 1 and n_out > 1:
            # share some interior nodes exactly
            take = xi[1:-1][r.random(n_in-1) < 0.5]
            xo = np.unique(np.r_[xo, take])
            while len(xo) - 1 > 12:
                xo = np.delete(xo, int(r.integers(1, len(xo)-1)))
    elif rel in ('refine', 'coarsen'):
        nc = int(r.integers(1, 9))
        xc = nodes_random(r, nc, lo, hi)
        xf = refine_nodes(r, xc, split_counts(r, nc))
        xi, xo = (xc, xf) if rel == 'refine' else (xf, xc)
    elif rel == 'equal':
        xi = nodes_random(r, n_in, lo, hi)
        xo = xi.copy()
    elif rel == 'inside':
        xi = nodes_random(r, n_in, lo, hi)
        f1 = r.uniform(0.0, 0.6)
        f2 = r.uniform(f1 + 0.1, 1.0)
        p, q = lo + f1*L, lo + f2*L
        if r.random() < 0.3 and n_in > 2:       # snap to source nodes
            j = np.sort(r.choice(n_in+1, 2, replace=False))
            p, q = xi[j[0]], xi[j[1]]
        xo = nodes_random(r, n_out, p, q)
    elif rel == 'outside':
        xi = nodes_random(r, n_in, lo, hi)
        g1, g2 = r.uniform(0.05, 2.0, 2)
        u = r.random()
        if u < 0.25:
            g1 = 0.0
        elif u < 0.5:
            g2 = 0.0
        xo = nodes_random(r, n_out, lo - g1*L, hi + g2*L)
        if r.random() < 0.4 and n_out >= 3:
            # keep the source boundaries as nodes: cells wholly outside
            xo = np.unique(np.r_[xo, lo, hi])
            while len(xo) - 1 > 12:
                xo = np.delete(xo, int(r.integers(1, len(xo)-1)))
    elif rel == 'nearequal':
        xi = nodes_random(r, n_in, lo, hi)
        xo = xi.copy()
        if n_in > 1:                      # jitter interior nodes, same ends
            h = np.diff(xi)
            xo[1:-1] += r.uniform(-4e-6, 4e-6, n_in-1)*np.minimum(h[:-1], h[1:])
    elif rel == 'nearshift':
        xi = nodes_random(r, n_in, lo, hi)
        xo = xi + r.uniform(-8e-6, 8e-6)*abs(xi[0])
    elif rel == 'shifted':
        xi = nodes_random(r, n_in, lo, hi)
        h0 = xi[1] - xi[0]
        s = gen.choice(r, [1.0, -1.0])*h0*float(gen.choice(
            r, [0.5, 1.0, 2.0, r.uniform(0.05, 0.95), r.uniform(1.1, 3.0)]))
        xo = xi + s
    elif rel == 'overlap':
        xi = nodes_random(r, n_in, lo, hi)
        f = r.uniform(0.1, 0.9)
        g = r.uniform(0.05, 1.5)
        if r.random() < 0.5:
            xo = nodes_random(r, n_out, lo + f*L, hi + g*L)
        else:
            xo = nodes_random(r, n_out, lo - g*L, lo + f*L)
    elif rel == 'disjoint':
        xi = nodes_random(r, n_in, lo, hi)
        gap = 0.0 if r.random() < 0.3 else r.uniform(0.01, 2.0)*L
        w = r.uniform(0.2, 2.0)*L
        if r.random() < 0.5:
            xo = nodes_random(r, n_out, hi + gap, hi + gap + w)
        else:
            xo = nodes_random(r, n_out, lo - gap - w, lo - gap)
    else:
        raise ValueError(rel)
    return np.asarray(xi, float), np.asarray(xo, float)


def gen_values(r, shape, kind, decades=8.0):
    half = decades/2
    if kind == 'homogeneous':
        return np.full(shape, 10.0**r.uniform(-half, half))
    if kind == 'blocks':
        lo, hi = 10.0**np.sort(r.uniform(-half, half, 2))
        return np.where(r.random(shape) < 0.5, lo, hi)
    if kind == 'spike':
        v = np.full(shape, 10.0**r.uniform(-half, 0.0))
        v.flat[int(r.integers(v.size))] = 10.0**r.uniform(0.0, half)
        return v
    if kind == 'trend':
        ex = [np.linspace(0, r.uniform(-1, 1), n) for n in shape]
        e = ex[0][:, None, None] + ex[1][None, :, None] + ex[2][None, None, :]
        e = e + r.uniform(-half+3, half-3)
        return 10.0**np.clip(e, -half, half)
    w = float(gen.choice(r, [half, half, 1.0, 0.1]))
    c0 = r.uniform(-(half-w), half-w) if w < half else 0.0
    return 10.0**(c0 + r.uniform(-w, w, shape))


def gen_pair(seed, k, i):
    """One random grid pair + values; everything from (seed, k, i)."""
    r = gen.rng(seed, 'C15', k, i)
    cls = CLASSES[(k*7 + i) % len(CLASSES)]
    if cls == 'mixed':
        rels = [gen.choice(r, RELS) for _ in range(3)]
    elif cls == 'disjoint':
        rels = [gen.choice(r, RELS) for _ in range(3)]
        rels[int(r.integers(3))] = 'disjoint'
    else:
        rels = [cls]*3
    L = 10.0**r.uniform(0, 4)
    nin, nout = [], []
    for d in range(3):
        Ld = L*float(gen.choice(r, [1.0, 1.0, r.uniform(0.2, 5.0)]))
        u = r.random()
        a = 0.0 if u < 0.3 else (Ld*r.uniform(-1, 1) if u < 0.7 else
                                 Ld*r.uniform(-10, 10))
        if rels[d] == 'nearshift':
            a = Ld*float(gen.choice(r, [-1, 1]))*r.uniform(50, 5000)
        xi, xo = pair_1d(r, rels[d], Ld, float(a))
        nin.append(xi)
        nout.append(xo)
    vkind = gen.choice(r, VKINDS)
    shape = tuple(len(x)-1 for x in nin)
    v = gen_values(r, shape, vkind)
    return {'cls': cls, 'rels': rels, 'nodes_in': nin, 'nodes_out': nout,
            'values': v, 'vkind': vkind, 'tag': f'rand:{k}:{i}'}, r


def make_grid(nodes):
    import emg3d
    return emg3d.TensorMesh([np.diff(n) for n in nodes],
                            origin=[float(n[0]) for n in nodes])


def describe(p):
    return {'tag': p['tag'], 'cls': p['cls'], 'rels': p['rels'],
            'vkind': p['vkind'],
            'in': {'h': [np.diff(n) for n in p['nodes_in']],
                   'origin': [float(n[0]) for n in p['nodes_in']]},
            'out': {'h': [np.diff(n) for n in p['nodes_out']],
                    'origin': [float(n[0]) for n in p['nodes_out']]},
            'values_F': np.ravel(p['values'], order='F')}


def allclose_equal(gi, go):
    """The comparison Model.interpolate_to_grid relies on (documented
    behaviour of TensorMesh.__eq__), re-stated so that pairs which are merely
    close can be kept out of clause 8."""
    if tuple(gi.shape_cells) != tuple(go.shape_cells):
        return False
    ok = all(np.allclose(a, b, atol=0) for a, b in zip(gi.h, go.h))
    return bool(ok and np.allclose(gi.origin, go.origin, atol=0))


# ------------------------------------------------------------ the checks
def finite(rec, arr, what, case):
    if not np.all(np.isfinite(arr)):
        rec.violation('C15:nonfinite-result', f'{what}: non-finite values in '
                      'the interpolated array', case)
        return False
    return True


def relerr(a, b, scale, slack=0.0):
    """max (|a-b| - slack)/scale, NaN if anything is not finite."""
    e = (np.abs(a - b) - slack)/scale
    m = float(np.max(e)) if e.size else 0.0
    return m if np.all(np.isfinite(e)) else float('nan')


def check_pair(rec, p, r, full_basis_max=216, models=True):
    import emg3d
    from emg3d import maps
    gi = make_grid(p['nodes_in'])
    go = make_grid(p['nodes_out'])
    # The nodes emg3d itself derives from (origin, widths) are the input of
    # the interpolation; my operator is built from the same public attributes.
    ni = [np.array(gi.nodes_x), np.array(gi.nodes_y), np.array(gi.nodes_z)]
    no = [np.array(go.nodes_x), np.array(go.nodes_y), np.array(go.nodes_z)]
    ref = RefAvg(ni, no)
    v = np.asfortranarray(p['values'])
    case = describe(p)
    shape_o = ref.shape_out
    Vi = np.array(gi.cell_volumes).reshape(gi.shape_cells, order='F')
    Vo = np.array(go.cell_volumes).reshape(go.shape_cells, order='F')

    allnodes = np.abs(np.concatenate(ni + no)).max()
    hmin = min(float(np.min(h)) for h in list(gi.h) + list(go.h))
    tol = 1e-13 + 64*EPS*allnodes/hmin
    case['tol'] = tol
    lv = np.log10(v)
    lscale = 1.0 + float(np.abs(lv).max())
    ltol = (tol + 32*EPS)*lscale
    same_region = all(x in ('same', 'refine', 'coarsen', 'equal', 'nearequal')
                      for x in p['rels'])
    rec.case()
    ok_all = True

    def interp(values, log):
        return maps.interpolate(gi, values, go, method='volume', log=log)

    # ---- the two calls the property is about
    v0 = v.copy()
    out_lin = np.asarray(interp(v, False))
    out_log = np.asarray(interp(v, True))
    rec.event('interpolate_calls', 2)
    if out_lin.shape != shape_o or out_log.shape != shape_o:
        rec.violation('C15:shape', f'result shape {out_lin.shape}/'
                      f'{out_log.shape}, new grid has {shape_o}', case)
        return
    if not (finite(rec, out_lin, 'linear mode', case) and
            finite(rec, out_log, 'log mode', case)):
        return
    if not np.array_equal(v, v0):
        rec.violation('C15:input-modified', 'interpolate() changed the '
                      'values it was given, so the conserved integral is not '
                      'the one of the input', case)
        return

    # ---- 1: result = W v
    want_lin = ref.apply(v)
    slack_lin = ref.slack(v)
    e1 = relerr(out_lin, want_lin, want_lin, slack_lin)
    rec.event('c1_linear_cells', out_lin.size)
    rec.margin('c1_linear_err_over_tol', e1/tol)
    rec.margin('c1_linear_rel_err', e1)
    if not (e1 <= tol):
        ok_all = False
        j = int(np.argmax((np.abs(out_lin - want_lin) - slack_lin)/want_lin))
        rec.violation('C15:value-mismatch-linear', f'linear mode differs from '
                      f'overlap-volume average: rel err {e1:.3e} (tol '
                      f'{tol:.1e}) at flat C-index {j}: emg3d '
                      f'{out_lin.flat[j]!r} ref {want_lin.flat[j]!r}', case)
    want_llog = ref.apply(lv)
    e1l = relerr(np.log10(out_log), want_llog, 1.0)
    rec.event('c1_log_cells', out_log.size)
    rec.margin('c1_log_err_over_tol', e1l/ltol)
    if not (e1l <= ltol):
        ok_all = False
        j = int(np.argmax(np.abs(np.log10(out_log) - want_llog)))
        rec.violation('C15:value-mismatch-log', f'log mode differs from '
                      f'10**(W log10 v): log10 error {e1l:.3e} (tol '
                      f'{ltol:.1e}) at flat C-index {j}: emg3d '
                      f'{out_log.flat[j]!r} ref {10**want_llog.flat[j]!r}',
                      case)

    # ---- 2: conservation (independent of my operator)
    if same_region:
        si, so = float(np.sum(v*Vi)), float(np.sum(out_lin*Vo))
        e2 = abs(so - si)/si
        rec.event('c2_conservation_linear')
        rec.margin('c2_linear_err_over_tol', e2/tol)
        if not (e2 <= tol):
            ok_all = False
            rec.violation('C15:integral-not-conserved-linear',
                          f'sum(out*V_new)={so!r} sum(v*V_old)={si!r} '
                          f'(rel {e2:.3e}, tol {tol:.1e})', case)
        sc = float(np.sum(np.abs(lv)*Vi)) + float(np.sum(Vi))
        si, so = float(np.sum(lv*Vi)), float(np.sum(np.log10(out_log)*Vo))
        e2 = abs(so - si)/sc
        rec.event('c2_conservation_log')
        rec.margin('c2_log_err_over_tol', e2/(tol + 32*EPS))
        if not (e2 <= tol + 32*EPS):
            ok_all = False
            rec.violation('C15:integral-not-conserved-log',
                          f'sum(log10(out)*V_new)={so!r} sum(log10(v)*V_old)='
                          f'{si!r} (scaled {e2:.3e}, tol {tol:.1e})', case)

    # ---- 3: range
    vmin, vmax = float(v.min()), float(v.max())
    rec.event('c3_range_checks', 2)
    lo, hi = float(out_lin.min()), float(out_lin.max())
    ex = max((vmin - lo)/vmin, (hi - vmax)/vmax)
    rec.margin('c3_linear_excess_over_tol', ex/tol)
    if not (ex <= tol):
        ok_all = False
        rec.violation('C15:out-of-range-linear', f'output [{lo!r}, {hi!r}] '
                      f'leaves input range [{vmin!r}, {vmax!r}] by {ex:.3e} '
                      '(relative)', case)
    llo, lhi = float(np.log10(out_log).min()), float(np.log10(out_log).max())
    ex = max(float(lv.min()) - llo, lhi - float(lv.max()))
    rec.margin('c3_log_excess_over_tol', ex/ltol)
    if not (ex <= ltol):
        ok_all = False
        rec.violation('C15:out-of-range-log', f'log-mode output '
                      f'[{out_log.min()!r}, {out_log.max()!r}] leaves input '
                      f'range [{vmin!r}, {vmax!r}] by {ex:.3e} (log10)', case)

    # ---- 4: identity on equal grids
    if all(x == 'equal' for x in p['rels']):
        rec.event('c4_identity_checks', 2)
        e4 = relerr(out_lin, v, v)
        e4l = relerr(np.log10(out_log), lv, 1.0)
        rec.margin('c4_identity_err_over_tol', max(e4/tol, e4l/ltol))
        if not (e4 <= tol and e4l <= ltol):
            ok_all = False
            rec.violation('C15:not-identity-on-equal-grids', f'equal grids: '
                          f'linear rel err {e4:.3e}, log10 err {e4l:.3e}', case)

    # ---- 5: nearest value where only one source cell contributes
    single, (ix, iy, iz) = ref.single_source()
    outside = ref.outside(ni, no)
    if single.any():
        src = v[ix[single], iy[single], iz[single]]
        e5 = relerr(out_lin[single], src, src, slack_lin[single])
        e5l = relerr(np.log10(out_log[single]), np.log10(src), 1.0)
        rec.event('c5_single_source_cells', int(single.sum()))
        rec.event('c5_cells_outside_source_grid', int((single & outside).sum()))
        rec.margin('c5_nearest_err_over_tol', max(e5/tol, e5l/ltol))
        if not (e5 <= tol and e5l <= ltol):
            ok_all = False
            badc = single & ~((np.abs(out_lin - want_lin) - slack_lin
                               <= tol*want_lin) &
                              (np.abs(np.log10(out_log) - want_llog) <= ltol))
            nout_bad = int(np.count_nonzero(badc & outside))
            key = ('C15:outside-not-nearest' if nout_bad else
                   'C15:single-source-cell-value')
            rec.violation(key, f'cells fed by exactly one source cell do not '
                          f'carry its value: rel {e5:.3e} / log10 {e5l:.3e}; '
                          f'{nout_bad} of them outside the source grid', case)

    # ---- 6: resistivity versus conductivity in log mode
    out_rec = np.asarray(interp(1.0/v, True))
    rec.event('interpolate_calls')
    rec.event('c6_reciprocity_checks')
    if finite(rec, out_rec, 'log mode (reciprocal input)', case):
        e6 = relerr(np.log10(out_rec), -np.log10(out_log), 1.0)
        rec.margin('c6_reciprocity_err_over_tol', e6/ltol)
        if not (e6 <= 2*ltol):
            ok_all = False
            rec.violation('C15:log-mode-not-reciprocal', f'log mode: result '
                          f'for 1/v is not the reciprocal of the result for v '
                          f'(log10 error {e6:.3e})', case)
        # (for contrast, recorded only: linear mode is not reciprocal)
    else:
        ok_all = False

    # ---- 7a: linearity / matrix of the forward map
    probe = np.asfortranarray(r.uniform(0.5, 1.5, v.shape))
    out_p = np.asarray(interp(probe, False))
    rec.event('interpolate_calls')
    e7 = relerr(out_p, ref.apply(probe), 1.0)
    rec.event('c7_forward_probe_checks')
    rec.margin('c7_forward_probe_err_over_tol', e7/tol)
    if not (e7 <= 2*tol):
        ok_all = False
        rec.violation('C15:forward-matrix-mismatch', f'O(1) probe vector: '
                      f'error {e7:.3e} (tol {tol:.1e})', case)
    n_in, n_out = int(v.size), int(np.prod(shape_o))
    F = None
    if n_in*n_out <= full_basis_max**2 and n_in <= full_basis_max:
        W = ref.matrix()
        F = np.empty((n_out, n_in))
        e = np.zeros(v.shape, order='F')
        for j in range(n_in):
            jj = np.unravel_index(j, v.shape, order='F')
            e[jj] = 1.0
            F[:, j] = np.asarray(interp(e, False)).ravel('F')
            e[jj] = 0.0
        rec.event('interpolate_calls', n_in)
        rec.event('c7_forward_basis_entries', F.size)
        e7b = relerr(F, W, 1.0)
        rec.margin('c7_forward_basis_err_over_tol', e7b/tol)
        if not (e7b <= 2*tol):
            ok_all = False
            j = np.unravel_index(int(np.argmax(np.abs(F - W))), F.shape)
            rec.violation('C15:forward-matrix-mismatch', f'matrix entry '
                          f'(out {j[0]}, in {j[1]}): emg3d {F[j]!r} ref '
                          f'{W[j]!r}', case)

    # ---- 7b: the transpose used by the gradient
    adj = getattr(maps, '_interp_volume_average_adj', None)
    if adj is None:
        rec.inconclusive('maps._interp_volume_average_adj not found', case)
        return
    sh_i = tuple(gi.shape_cells)
    nval = np.asfortranarray(r.standard_normal((3, *shape_o)))
    nval = np.array(nval, order='F')
    oval0 = np.array(r.standard_normal((3, *sh_i)), order='F')
    oval = oval0.copy(order='F')
    nkeep = nval.copy()
    adj(oval, gi, nval, go)
    rec.event('adjoint_calls')
    bad = []
    if not np.all(np.isfinite(oval)):
        rec.violation('C15:nonfinite-result', 'adjoint: non-finite', case)
        return
    if not np.array_equal(nval, nkeep):
        bad.append('nval modified')
    # scale: |W^T| |n| per entry (rows of W^T are not normalised)
    for c in range(3):
        want = oval0[c] + ref.applyT(nval[c])
        sc = np.abs(oval0[c]) + ref.applyT(np.abs(nval[c])) + 1e-300
        e = relerr(oval[c], want, sc, ref.slackT(np.abs(nval[c])))
        rec.margin('c7_adjoint_random_err_over_tol', e/tol)
        if not (e <= 2*tol):
            bad.append(f'slot {c}: oval != oval0 + W^T n (scaled err {e:.3e})')
    rec.event('c7_adjoint_random_checks', 3)
    # pairing with emg3d's own forward map (no reference operator involved)
    rec.event('c7_pairing_checks')
    lhs = float(np.sum(out_p*nval[1]))
    rhs = float(np.sum(probe*(oval[1] - oval0[1])))
    sc = float(np.sum(np.abs(out_p*nval[1]))) + \
        float(np.sum(np.abs(probe*oval0[1]))) + 1e-300
    ep = abs(lhs - rhs)/sc
    rec.margin('c7_pairing_err_over_tol', ep/tol)
    if not (ep <= 4*tol):
        bad.append(f'<F v, n> = {lhs!r} but <v, F^T n> = {rhs!r} '
                   f'(scaled {ep:.3e})')
    # unit vectors, three at a time through the three slots
    if F is not None or n_out <= 3*24:
        cols = list(range(n_out))
    else:
        cols = [int(c) for c in r.choice(n_out, 24, replace=False)]
    Wm = ref.matrix() if n_in*n_out <= 1728*64 else None
    worst = 0.0
    for s in range(0, len(cols), 3):
        trio = cols[s:s+3]
        nv = np.zeros((3, *shape_o), order='F')
        for c, col in enumerate(trio):
            nv[(c, *np.unravel_index(col, shape_o, order='F'))] = 1.0
        ov = np.zeros((3, *sh_i), order='F')
        adj(ov, gi, nv, go)
        for c in range(3):
            if c < len(trio):
                if Wm is not None:
                    want = Wm[trio[c], :].reshape(sh_i, order='F')
                else:
                    want = ref.applyT(nv[c])
            else:
                want = np.zeros(sh_i)
            e = relerr(ov[c], want, 1.0)
            worst = max(worst, e) if e == e and worst == worst else \
                float('nan')
    rec.event('adjoint_calls', (len(cols) + 2)//3)
    rec.event('c7_adjoint_unit_vectors', len(cols))
    rec.margin('c7_adjoint_unit_err_over_tol', worst/tol)
    if not (worst <= 2*tol):
        bad.append(f'unit vectors: rows of the operator used for the '
                   f'gradient differ from W by {worst:.3e}')
    if F is not None and len(cols) == n_out:
        rec.event('c7_complete_operator_pairs')
    if bad:
        ok_all = False
        rec.violation('C15:adjoint-is-not-transpose', '; '.join(bad)[:900],
                      case)

    # ---- 7d: the same output-grid OBJECT with a second, different input
    # grid of the same shape (nothing remembered from the first pair, on the
    # grid objects or in the module, may leak into the second)
    try:
        idx = int(p['tag'].split(':')[-1])
    except ValueError:
        idx = 1
    if gi.n_cells > 1 and idx % 3 == 0:
        ni2 = []
        for n_ in ni:
            n2 = np.array(n_, dtype=float)
            if n2.size > 2:
                h_ = np.diff(n2)
                n2[1:-1] += r.uniform(-0.3, 0.3, n2.size-2)*np.minimum(
                    h_[:-1], h_[1:])
            else:
                n2 = n2 + r.uniform(-0.2, 0.2)*(n2[-1]-n2[0])
            ni2.append(n2)
        gi2 = make_grid(ni2)
        ref2 = RefAvg([np.array(gi2.nodes_x), np.array(gi2.nodes_y),
                       np.array(gi2.nodes_z)], no)
        nv2 = np.array(r.standard_normal((3, *shape_o)), order='F')
        ov0 = np.array(r.standard_normal((3, *sh_i)), order='F')
        ov2 = ov0.copy(order='F')
        adj(ov2, gi2, nv2, go)           # same `go` object as above
        rec.event('adjoint_calls')
        hmin2 = min(hmin, min(float(np.min(h)) for h in gi2.h))
        tol2 = 1e-13 + 64*EPS*max(allnodes, float(np.abs(
            np.concatenate(ni2)).max()))/hmin2
        e2 = 0.0
        for c in range(3):
            want = ov0[c] + ref2.applyT(nv2[c])
            sc = np.abs(ov0[c]) + ref2.applyT(np.abs(nv2[c])) + 1e-300
            e = relerr(ov2[c], want, sc, ref2.slackT(np.abs(nv2[c])))
            e2 = max(e2, e) if e == e and e2 == e2 else float('nan')
        rec.event('c7_adjoint_reused_output_grid_checks')
        rec.margin('c7_adjoint_reused_err_over_tol', e2/tol2)
        if not (e2 <= 2*tol2):
            ok_all = False
            rec.violation('C15:adjoint-is-not-transpose', f'second input grid '
                          f'of the same shape used with the SAME output-grid '
                          f'object: adjoint deviates from oval0 + W^T n by '
                          f'{e2:.3e} (scaled; tol {tol2:.1e})', case)

    # ---- 8: Model.interpolate_to_grid
    if models:
        ok_all = check_models(rec, p, r, gi, go, ref, tol, case) and ok_all

    rec.distinct((p['cls'], '/'.join(p['rels']), n_in > n_out, p['vkind']))
    _ = ok_all
    if p['tag'].endswith(':0') or p['tag'].endswith(':1'):
        rec.sample({'tag': p['tag'], 'cls': p['cls'], 'rels': p['rels'],
                    'shape_in': list(v.shape), 'shape_out': list(shape_o),
                    'vkind': p['vkind'], 'tol': tol,
                    'linear_rel_err': e1, 'log10_err': e1l,
                    'nodes_in_x': ni[0], 'nodes_out_x': no[0]})


def check_models(rec, p, r, gi, go, ref, tol, case):
    """Clause 8 on one grid pair: six mappings of the same conductivity."""
    import emg3d
    ok_all = True
    if allclose_equal(gi, go) and not all(x == 'equal' for x in p['rels']):
        rec.event('c8_skipped_allclose_grids')
        return True
    equal = all(x == 'equal' for x in p['rels'])
    shape = tuple(gi.shape_cells)
    mcase = gen.choice(r, gen.CASES)
    # conductivities: sometimes a range in which the logarithmic mappings are
    # all positive (then a wrong mode is not masked by a NaN -> ValueError)
    style = gen.choice(r, ['full', 'full', 'gt1', 'lt1'])
    sig = {}
    for d in 'xyz':
        s = gen_values(r, shape, gen.choice(r, VKINDS))
        if style == 'gt1':
            s = 10.0**(0.2 + 0.45*(np.log10(s) + 4.0))      # 1.6 .. 6e3
        elif style == 'lt1':
            s = 10.0**(-0.2 - 0.45*(np.log10(s) + 4.0))
        sig[d] = np.asfortranarray(s)
    use = {'x': True, 'y': mcase in ('HTI', 'triaxial'),
           'z': mcase in ('VTI', 'triaxial')}
    mu = np.asfortranarray(r.uniform(0.5, 3.0, shape)) \
        if r.random() < 0.3 else None
    ep = np.asfortranarray(r.uniform(1.0, 10.0, shape)) \
        if r.random() < 0.3 else None
    results = {}
    for mapping in MAPPINGS:
        kw = {f'property_{d}': from_sigma(sig[d], mapping)
              for d in 'xyz' if use[d]}
        if mu is not None:
            kw['mu_r'] = mu.copy()
        if ep is not None:
            kw['epsilon_r'] = ep.copy()
        mc = dict(case, mapping=mapping, model_case=mcase, style=style,
                  sigma_x_F=np.ravel(sig['x'], order='F'))
        model = emg3d.Model(gi, mapping=mapping, **kw)
        try:
            new = model.interpolate_to_grid(go)
        except IndexError:
            raise
        except Exception as e:  # noqa
            rec.inconclusive(f'Model.interpolate_to_grid raised '
                             f'{type(e).__name__}: {e}', mc)
            rec.event('c8_raised')
            ok_all = False
            continue
        rec.event('model_interpolations')
        if tuple(new.shape) != ref.shape_out or \
                getattr(new.map, 'name', None) != mapping:
            rec.violation('C15:model-wrong-grid-or-mapping', f'interpolated '
                          f'model has shape {new.shape} / mapping '
                          f'{getattr(new.map, "name", None)}; wanted '
                          f'{ref.shape_out} / {mapping}', mc)
            return False
        for d in 'xyz':
            got = getattr(new, f'property_{d}')
            if not use[d]:
                if got is not None:
                    rec.violation('C15:model-case-changed', f'property_{d} '
                                  'appeared in the interpolated model', mc)
                    ok_all = False
                continue
            if got is None or not np.all(np.isfinite(got)):
                rec.violation('C15:nonfinite-result', f'model route, '
                              f'{mapping}, property_{d}: missing/non-finite',
                              mc)
                return False
            lg = lg_sigma(np.asarray(got), mapping)
            lsig = np.log10(sig[d])
            want = ref.apply(lsig)
            lt = (tol + 64*EPS)*(1.0 + float(np.abs(lsig).max()))
            if not np.all(np.isfinite(lg)):
                e8 = float('nan')
            else:
                e8 = relerr(lg, want, 1.0)
            rec.event('c8_model_property_checks')
            rec.margin('c8_model_err_over_tol', e8/lt)
            results[(mapping, d)] = lg
            if not (e8 <= lt):
                ok_all = False
                lin = lg_sigma(ref_linear(ref, from_sigma(sig[d], mapping)),
                               mapping) if not mapping.startswith('L') else \
                    None
                hint = ''
                if lin is not None and np.all(np.isfinite(lin)) and \
                        relerr(lg, lin, 1.0) <= lt:
                    hint = ' (it equals the plain average of the property)'
                rec.violation(
                    'C15:model-route-not-log-average', f'{mapping}, '
                    f'property_{d}: interpolated model is not the log-average'
                    f' of the conductivity: log10 error {e8:.3e} (tol '
                    f'{lt:.1e}){hint}', mc)
            if equal:
                rec.event('c4_identity_checks')
                ei = relerr(lg, lsig, 1.0)
                if not (ei <= lt):
                    ok_all = False
                    rec.violation('C15:not-identity-on-equal-grids',
                                  f'model route {mapping}: {ei:.3e}', mc)
        # mu_r / epsilon_r: a volume average in either mode, inside the range
        for name, arr in (('mu_r', mu), ('epsilon_r', ep)):
            got = getattr(new, name)
            if arr is None:
                continue
            if got is None or not np.all(np.isfinite(got)):
                rec.violation('C15:nonfinite-result', f'model route: {name} '
                              'missing/non-finite', mc)
                return False
            rec.event('c8_mu_eps_checks')
            a = relerr(np.asarray(got), ref.apply(arr), 1.0)
            b = relerr(np.log10(got), ref.apply(np.log10(arr)), 1.0)
            if not (min(a, b) <= 16*(tol + 64*EPS)):
                ok_all = False
                rec.violation('C15:model-mu-eps-not-volume-average',
                              f'{name} ({mapping}): neither the linear '
                              f'({a:.3e}) nor the log ({b:.3e}) volume '
                              'average', mc)
    # the six mappings must describe the same physical model
    for d in 'xyz':
        if not use[d]:
            continue
        base = results.get(('Conductivity', d))
        if base is None:
            continue
        for mapping in MAPPINGS[:]:
            other = results.get((mapping, d))
            if other is None:
                continue
            lt = 4*(tol + 64*EPS)*(1.0 + float(np.abs(base).max()))
            e = relerr(other, base, 1.0)
            rec.event('c8_mapping_agreement_checks')
            rec.margin('c8_mapping_agreement_over_tol', e/lt)
            if not (e <= lt):
                ok_all = False
                rec.violation('C15:mappings-disagree', f'same conductivity '
                              f'given as {mapping} and as Conductivity '
                              f'interpolates to different models (log10 '
                              f'difference {e:.3e})', dict(
                                  case, mapping=mapping, model_case=mcase))
    rec.extra_set('model_cases', [f'{mcase}:{style}'])
    return ok_all


def ref_linear(ref, prop):
    return ref.apply(prop)


# ---------------------------------------------------------------- lattice
def lattice_pair(nodes_in, nodes_out, direction, r, scale=1.0, origin=0.0):
    """1-D lattice grids embedded in 3-D along ``direction``."""
    one_i = np.array([0.0, 1.0])
    nin = [one_i.copy(), one_i.copy(), one_i.copy()]
    nout = [one_i.copy(), one_i.copy(), one_i.copy()]
    nin[direction] = origin + scale*np.array(nodes_in, dtype=float)
    nout[direction] = origin + scale*np.array(nodes_out, dtype=float)
    shape = tuple(len(x)-1 for x in nin)
    v = gen_values(r, shape, 'random')
    return {'cls': 'lattice', 'rels': ['lattice']*3, 'nodes_in': nin,
            'nodes_out': nout, 'values': v, 'vkind': 'random'}


def run_lattice(rec, batch):
    seed = batch['seed']
    grids = lattice_grids(batch['m'])
    pairs = list(itertools.product(range(len(grids)), repeat=2))
    pairs = pairs[batch['part']::batch['parts']]
    for (a, b) in pairs:
        for d in range(3):
            r = gen.rng(seed, 'C15', 'lat', batch['m'], a, b, d)
            p = lattice_pair(grids[a], grids[b], d, r)
            p['tag'] = f'lat{batch["m"]}:{a}:{b}:{d}'
            same = (grids[a][0] == grids[b][0] and
                    grids[a][-1] == grids[b][-1])
            p['rels'] = ['same' if same else 'lattice']*3
            if grids[a] == grids[b]:
                p['rels'] = ['equal']*3
            guarded(rec, batch, p, r, models=(d == 2 and (a + b) % 4 == 0))
            rec.extra_add('lattice_pairs')


def run_lattice3(rec, batch):
    """3-D products of lattice grids (all three directions non-trivial)."""
    seed = batch['seed']
    grids = lattice_grids(batch['m'])
    for i in range(batch['n']):
        r = gen.rng(seed, 'C15', 'lat3', batch['k'], i)
        idx = r.integers(0, len(grids), 6)
        sc = [1.0, float(gen.choice(r, [1.0, 0.1, 3.0])),
              float(gen.choice(r, [1.0, 7.0]))]
        nin = [sc[d]*np.array(grids[idx[d]], float) for d in range(3)]
        nout = [sc[d]*np.array(grids[idx[3+d]], float) for d in range(3)]
        rels = []
        for d in range(3):
            gi_, go_ = grids[idx[d]], grids[idx[3+d]]
            rels.append('equal' if gi_ == go_ else 'same' if
                        (gi_[0] == go_[0] and gi_[-1] == go_[-1])
                        else 'lattice')
        shape = tuple(len(x)-1 for x in nin)
        vk = gen.choice(r, VKINDS)
        p = {'cls': 'lattice3', 'rels': rels, 'nodes_in': nin,
             'nodes_out': nout, 'values': gen_values(r, shape, vk),
             'vkind': vk, 'tag': f'lat3:{batch["k"]}:{i}'}
        guarded(rec, batch, p, r, models=(i % 3 == 0))


# ------------------------------------------------- gradient of a Simulation
def run_simgrad(rec, batch):
    """Clause 7 at the place where the transpose is used: the gradient of a
    Simulation whose computational grids differ from the model grid equals
    the sum over the source-frequency pairs of W_pair^T applied to the
    cell-averaged product of the stored forward and back-propagated fields,
    W_pair being the reference volume-average operator between the model grid
    and the grid *of that pair*.  (The fields are taken as stored; whether
    they are good solutions does not matter for this identity.)"""
    import warnings
    import emg3d
    from emg3d import maps
    for i in range(batch['n']):
        r = gen.rng(batch['seed'], 'C15', 'simgrad', batch['k'], i)
        shape = tuple(int(x) for x in r.integers(3, 7, 3))
        L = [float(10**r.uniform(2.5, 3.5)) for _ in range(3)]
        org = [float(r.uniform(-1, 1)*l_) for l_ in L]
        nodes_m = [nodes_random(r, n, o, o + l_)
                   for n, o, l_ in zip(shape, org, L)]
        mgrid = make_grid(nodes_m)
        case_ = gen.choice(r, gen.CASES)
        mapping = gen.choice(r, MAPPINGS)
        sig = {d: 10**r.uniform(-1.5, 0.5, shape) for d in 'xyz'}
        kw = {'property_x': from_sigma(sig['x'], mapping)}
        if case_ in ('HTI', 'triaxial'):
            kw['property_y'] = from_sigma(sig['y'], mapping)
        if case_ in ('VTI', 'triaxial'):
            kw['property_z'] = from_sigma(sig['z'], mapping)
        model = emg3d.Model(mgrid, mapping=mapping, **kw)
        nsrc = int(r.integers(2, 4))
        nfreq = int(r.integers(1, 3))
        gridding = gen.choice(r, ['dict', 'dict', 'dict', 'input'])

        def cgrid(shift):
            nn = []
            for a in range(3):
                lo = org[a] - (0.1 + 0.2*shift[a])*L[a]
                hi = org[a] + (1.1 + 0.2*shift[a])*L[a]
                nn.append(np.linspace(lo, hi, 9))
            return nn
        def inner(f=0.3):
            return [float(org[a] + L[a]*r.uniform(0.5-f/2, 0.5+f/2))
                    for a in range(3)]
        srcs = {f'Tx{j}': emg3d.TxElectricDipole(
            (*inner(), float(r.uniform(-180, 180)), float(r.uniform(-30, 30))))
            for j in range(nsrc)}
        recs = {f'Rx{j}': emg3d.RxElectricPoint(
            (*inner(0.5), float(r.uniform(-180, 180)), 0.0))
            for j in range(3)}
        freqs = {f'f{j}': float(10**r.uniform(-0.5, 0.5))
                 for j in range(nfreq)}
        survey = emg3d.surveys.Survey(srcs, recs, freqs, noise_floor=1e-15,
                                      relative_error=0.05)
        # per-source grids: same shape, different position (what re-centring
        # a grid on every source produces)
        cn = {}
        if gridding == 'dict':
            gd = {}
            for s_ in srcs:
                sh = r.uniform(-1, 1, 3)
                gd[s_] = {}
                for f_ in freqs:
                    if r.random() < 0.3:
                        sh = r.uniform(-1, 1, 3)
                    cn[(s_, f_)] = cgrid(sh)
                    gd[s_][f_] = make_grid(cn[(s_, f_)])
            gopts = gd
        else:
            one = cgrid(r.uniform(-1, 1, 3))
            for s_ in srcs:
                for f_ in freqs:
                    cn[(s_, f_)] = one
            gopts = make_grid(one)
        case = {'mode': 'simgrad', 'k': batch['k'], 'i': i, 'shape': shape,
                'case': case_, 'mapping': mapping, 'gridding': gridding,
                'nsrc': nsrc, 'nfreq': nfreq}
        rec.case()
        try:
            with warnings.catch_warnings():
                warnings.simplefilter('ignore')
                sim = emg3d.Simulation(
                    survey, model, max_workers=1, gridding=gridding,
                    gridding_opts=gopts, receiver_interpolation='linear',
                    solver_opts={'maxit': 3, 'sslsolver': False,
                                 'semicoarsening': False,
                                 'linerelaxation': False, 'verb': 0},
                    tqdm_opts=False, verb=-1)
                sim.compute()
                d = np.array(sim.data.synthetic.data)
                survey.data.observed[...] = d*(1 + 0.1*r.standard_normal(
                    d.shape) + 0.1j*r.standard_normal(d.shape))
                sim.clean('computed')
                g = np.array(sim.gradient)
                pairs = list(sim._srcfreq)
                fld = {sf: (sim.get_efield(*sf), sim._dict_bfield[sf[0]][sf[1]])
                       for sf in pairs}
        except Exception:  # noqa
            import traceback
            rec.inconclusive('simgrad: ' + traceback.format_exc()[-900:], case)
            continue
        rec.event('simulation_gradients')
        ref = np.zeros((3, *shape))
        slack = np.zeros((3, *shape))
        for sf in pairs:
            ef, bf = fld[sf]
            gnodes = [np.array(ef.grid.nodes_x), np.array(ef.grid.nodes_y),
                      np.array(ef.grid.nodes_z)]
            if any(a.shape != b.shape or not np.allclose(a, b, rtol=1e-12,
                                                         atol=1e-9)
                   for a, b in zip(gnodes, cn[sf])):
                rec.violation('C15:simulation-field-on-wrong-grid',
                              f'the field of pair {sf} is not on the grid '
                              f'provided for it', case)
                break
            gf = emg3d.Field(ef.grid, data=np.real(
                bf.field*ef.smu0*ef.field))
            csh = ef.grid.shape_cells
            cg = np.zeros((3, *csh), order='F')
            maps.interp_edges_to_vol_averages(
                ex=gf.fx, ey=gf.fy, ez=gf.fz,
                volumes=ef.grid.cell_volumes.reshape(csh, order='F'),
                ox=cg[0], oy=cg[1], oz=cg[2])
            W = RefAvg(nodes_m, gnodes)
            for c in range(3):
                ref[c] += W.applyT(cg[c])
                slack[c] += W.slackT(np.abs(cg[c])) + 64*EPS*W.applyT(
                    np.abs(cg[c]))
            rec.event('simgrad_pairs')
        else:
            idx = [0]
            if case_ in ('HTI', 'triaxial'):
                idx.append(1)
            else:
                ref[0] += ref[1]
                slack[0] += slack[1]
            if case_ in ('VTI', 'triaxial'):
                idx.append(2)
            else:
                ref[0] += ref[2]
                slack[0] += slack[2]
            props = {0: model.property_x, 1: model.property_y,
                     2: model.property_z}
            for c in idx:
                fac = np.ones(shape)
                model.map.derivative_chain(fac, props[c])
                ref[c] *= fac
                slack[c] *= np.abs(fac)
            ref, slack = ref[idx].squeeze(), slack[idx].squeeze()
            scale = float(np.max(np.abs(ref)))
            rec.event('c7_simulation_gradient_checks')
            if g.shape != ref.shape or not np.all(np.isfinite(g)):
                rec.violation('C15:simulation-gradient-not-transpose',
                              f'gradient shape {g.shape} / non-finite', case)
                continue
            err = np.abs(g - ref)
            bound = slack + 1e-12*scale
            q = float(np.max(err/bound))
            rec.margin('simgrad_err_over_bound', q)
            if not (q <= 1.0):
                j = np.unravel_index(int(np.argmax(err/bound)), err.shape)
                rec.violation(
                    'C15:simulation-gradient-not-transpose',
                    f'Simulation.gradient (gridding={gridding!r}, {nsrc} '
                    f'sources x {nfreq} frequencies) differs from sum_pairs '
                    f'W_pair^T (cell-averaged field product of that pair): '
                    f'entry {j}: {g[j]!r} vs {ref[j]!r} (max |ref| {scale:.3e})',
                    case)
                continue
            rec.distinct(('simgrad', gridding, case_, mapping, nsrc, nfreq))
            rec.sample({'mode': 'simgrad', 'gridding': gridding,
                        'case': case_, 'mapping': mapping, 'pairs': len(pairs),
                        'err_over_bound': q})


def guarded(rec, batch, p, r, **kw):
    try:
        check_pair(rec, p, r, **kw)
    except IndexError:
        if batch.get('boundscheck'):
            raise            # worker turns it into C15:boundscheck-indexerror
        import traceback
        rec.inconclusive('IndexError: ' + traceback.format_exc()[-900:],
                         describe(p))
    except Exception:  # noqa - emg3d raised on a valid input, or harness bug
        import traceback
        rec.inconclusive('exception: ' + traceback.format_exc()[-900:],
                         describe(p))


def run_batch(batch):
    rec = common.Rec(max_viol=12)
    if batch['mode'] == 'rand':
        only = batch.get('only')
        for i in range(batch['n']):
            if only is not None and i != only:
                continue
            p, r = gen_pair(batch['seed'], batch['k'], i)
            big = batch['tier'] == 'thorough'
            guarded(rec, batch, p, r, full_basis_max=(343 if big else 216),
                    models=True)
    elif batch['mode'] == 'lattice':
        run_lattice(rec, batch)
    elif batch['mode'] == 'lattice3':
        run_lattice3(rec, batch)
    elif batch['mode'] == 'simgrad':
        run_simgrad(rec, batch)
    return rec.result()


def finalize(merged, tier):
    k = 1 if tier == 'quick' else 10
    common.require_events(merged, {
        'interpolate_calls': 40000*k,
        'c1_linear_cells': 150000*k, 'c1_log_cells': 150000*k,
        'c2_conservation_linear': 500*k, 'c2_conservation_log': 500*k,
        'c3_range_checks': 4000*k, 'c4_identity_checks': 1000*k,
        'c5_single_source_cells': 80000*k,
        'c5_cells_outside_source_grid': 25000*k,
        'c6_reciprocity_checks': 2000*k,
        'c7_forward_probe_checks': 2000*k,
        'c7_forward_basis_entries': 4000000*k,
        'c7_adjoint_random_checks': 6000*k,
        'c7_adjoint_unit_vectors': 80000*k,
        'c7_complete_operator_pairs': 1500*k,
        'c7_pairing_checks': 2000*k,
        'c7_simulation_gradient_checks': 30*k,
        'model_interpolations': 6000*k,
        'c8_model_property_checks': 10000*k,
        'c8_mapping_agreement_checks': 10000*k})
    if merged['extra'].get('lattice_pairs'):
        merged['extra']['lattice_enumeration'] = (
            'all ordered pairs of 1-D node sets on the integer lattice, in '
            'each of the three directions')
