"""Compile (and cache) the numba kernels once, for both dtypes."""
import time
import numpy as np
from vf import worker
worker.bootstrap()
import emg3d  # noqa: E402

t0 = time.time()
hx = np.array([1., 1.2, 1.5, 1.1, 1., 1.3, 1., 0.9])
grid = emg3d.TensorMesh([hx, hx[:4], hx], origin=(0, 0, 0))
for freq in (1.0, -1.0):
    for kw in ({}, {'property_y': 2., 'property_z': 3., 'mu_r': 1.5,
                    'epsilon_r': 2.}):
        model = emg3d.Model(grid, property_x=1.5, **kw)
        sf = emg3d.get_source_field(grid, (3.3, 2.2, 4.1, 10, 20), freq)
        for lr in (0, 7):
            for sc in (0, 1, 2, 3):
                emg3d.solve(model, sf, sslsolver=False, semicoarsening=sc,
                            linerelaxation=lr, maxit=1, verb=-1)
        ef = emg3d.solve(model, sf, sslsolver=True, semicoarsening=True,
                         linerelaxation=True, maxit=2, verb=-1)
        emg3d.get_magnetic_field(model, ef)
g2 = emg3d.TensorMesh([hx[:4]*2, hx[:4], hx[:4]*2], origin=(0, 0, 0))
emg3d.maps.interpolate(grid, np.ones(grid.shape_cells), g2, method='volume')
print(f'warm: {time.time()-t0:.1f}s')
