"""C02 - matrix-free operator == assembled finite-integration operator.

Monitor: every call of core.amat_x (compiled and .py_func) made by the driver
on the complete interior edge basis of a grid; oracle: vf.refop (R1).
"""
import itertools
import numpy as np
from vf import common, gen

PROP = 'C02'
NEEDS_JIT = True
TIMEOUT = {'quick': 900, 'thorough': 3000}
RULE = ("all shapes in {2..5}^3 x 4 anisotropy cases x mu_r on/off x eps_r "
        "on/off x real/complex s x 3 width kinds (quick: a seeded quarter; "
        "thorough: all + random shapes up to 9x7x6 + bounds-checking build); "
        "per operator the full interior edge basis is pushed through "
        "core.amat_x; distinct = (shape, case, mu?, eps?, dtype, width kind) "
        "whose complete basis reached the oracle; plus in situ: every 3rd "
        "amat_x call of live solves judged on the level it happens on")
ASSUMPTIONS = [
    "reference operator vf/refop.py is correct (cross-checked against "
    "discretize edge_curl in thorough tier)",
    "mu_0/epsilon_0 from scipy.constants are physical constants, not code",
    "grids beyond 5 cells per direction are sampled, not enumerated",
]
TOL = 1e-12


def plan(tier, seed):
    combos = []
    shapes = list(itertools.product(range(2, 6), repeat=3))
    for shape in shapes:
        for case in gen.CASES:
            for mu in (False, True):
                for eps in (False, True):
                    for lap in (False, True):
                        for kind in ('uniform', 'stretched', 'jitter'):
                            combos.append({'shape': shape, 'case': case,
                                           'mu': mu, 'eps': eps, 'lap': lap,
                                           'kind': kind})
    for i, c in enumerate(combos):
        c['i'] = i
    if tier == 'quick':
        # seeded quarter, stratified so that every shape still occurs
        r = gen.rng(seed, 'C02', 'plan')
        off = r.integers(0, 4, size=len(combos))
        combos = [c for c in combos if (c['i'] + off[c['i'] // 4 * 4]) % 4 == 0]
    nb = 48 if tier == 'quick' else 96
    batches = [{'id': f'enum{k}', 'mode': 'enum', 'combos': combos[k::nb]}
               for k in range(nb)]
    if tier == 'thorough':
        for k in range(32):
            batches.append({'id': f'rand{k}', 'mode': 'rand', 'n': 8, 'k': k})
        for k in range(16):
            batches.append({'id': f'bc{k}', 'mode': 'enum', 'boundscheck': True,
                            'combos': combos[k*7::320][:20]})
        batches.append({'id': 'discretize', 'mode': 'xcheck', 'n': 20})
    else:
        batches.append({'id': 'rand', 'mode': 'rand', 'n': 6, 'k': 0})
    nin = 8 if tier == 'quick' else 48
    for k in range(nin):
        batches.append({'id': f'insitu{k}', 'mode': 'insitu', 'k': k,
                        'n': 6 if tier == 'quick' else 20})
    if tier == 'thorough':
        for k in range(8):
            batches.append({'id': f'insitubc{k}', 'mode': 'insitu',
                            'k': 500+k, 'n': 6, 'boundscheck': True})
    return batches


PROPS = ('property_x', 'property_y', 'property_z', 'mu_r', 'epsilon_r')


def extract_matrix(fn, grid, vm, dtype, cols):
    """Columns of the operator applied by kernel ``fn`` (A e = -(r_out))."""
    import emg3d
    n = grid.n_edges
    A = np.zeros((n, len(cols)), dtype=dtype)
    e = emg3d.Field(grid, dtype=dtype)
    for k, j in enumerate(cols):
        e.field[:] = 0
        e.field[j] = 1.0
        r = emg3d.Field(grid, dtype=dtype)
        fn(r.fx, r.fy, r.fz, e.fx, e.fy, e.fz, vm.eta_x, vm.eta_y, vm.eta_z,
           vm.zeta, grid.h[0], grid.h[1], grid.h[2])
        A[:, k] = -r.field
    return A


def check_operator(rec, gs, ms, freq, tag, use_pyfunc_cols=4, r=None):
    import emg3d
    from emg3d import core, models
    grid, model = gen.build_emg3d(gs, ms)
    ref = gen.build_refop(gs, ms, freq)
    sf = emg3d.Field(grid, frequency=freq)
    props0 = {n_: None if getattr(model, n_) is None else
              np.array(getattr(model, n_)) for n_ in PROPS}
    vm = models.VolumeModel(model, sf)
    dtype = sf.field.dtype
    interior = np.flatnonzero(ref.interior)
    case = {'tag': tag, 'grid': gen.summarize_grid(gs), 'frequency': freq,
            'case': ms['case'], 'mapping': ms['mapping'],
            'mu_r': ms['mu_r'] is not None, 'eps_r': ms['eps_r'] is not None}
    rec.case()
    if interior.size == 0:
        rec.event('no_interior_edges')
        return
    A = extract_matrix(core.amat_x, grid, vm, dtype, interior)
    rec.event('amat_x_calls', len(interior))
    Aref = ref.A[:, interior].toarray()
    if not np.all(np.isfinite(A)):
        rec.violation('C02:nonfinite-operator', 'non-finite operator entry', case)
        return

    # (1) entries on interior rows
    Ai = A[interior, :]
    Ar = Aref[interior, :]
    rowscale = np.abs(Ar).max(axis=1, keepdims=True)
    err = np.abs(Ai - Ar)/(np.abs(Ar) + rowscale)
    worst = float(err.max())
    rec.margin('entry_rel_err', worst)
    rec.event('entries_compared', int(Ai.size))
    if not (worst <= TOL):
        i, j = np.unravel_index(np.argmax(err), err.shape)
        rec.violation('C02:entry-mismatch',
                      f'operator entry differs from assembled FIT operator: '
                      f'rel err {worst:.3e} at row {interior[i]} col '
                      f'{interior[j]}: emg3d {Ai[i, j]} ref {Ar[i, j]}', case)
    # structural zeros exact
    zmask = (Ar == 0)
    nzbad = int(np.count_nonzero(Ai[zmask]))
    rec.event('structural_zeros_checked', int(zmask.sum()))
    if nzbad:
        rec.violation('C02:structural-zero', f'{nzbad} entries that are '
                      'structurally zero in the FIT operator are non-zero', case)
    # boundary rows: the operator must not produce anything on PEC edges
    bnd = np.flatnonzero(~ref.interior)
    if bnd.size and np.count_nonzero(A[bnd, :]):
        rec.violation('C02:boundary-row', 'operator writes to tangential '
                      'boundary edges for a field that vanishes there', case)
    # (2) symmetry
    sym = np.abs(Ai - Ai.T)/(np.abs(Ai) + np.abs(Ai).max(axis=1, keepdims=True))
    rec.margin('symmetry_rel_err', float(sym.max()))
    rec.event('symmetry_checks')
    if not (sym.max() <= TOL):
        rec.violation('C02:asymmetric', f'operator not complex-symmetric: '
                      f'{sym.max():.3e}', case)

    # (3) curl-curl part annihilates discrete gradients (eta == 0)
    nx, ny, nz = grid.shape_cells
    nin = (nx-1)*(ny-1)*(nz-1)
    if nin > 0:
        class Z:
            pass
        z = Z()
        z.eta_x = z.eta_y = z.eta_z = np.zeros(grid.shape_cells, dtype=dtype,
                                               order='F')
        z.zeta = vm.zeta
        Gn = ref.grad_nodes()
        le = ref.le
        phi = np.zeros(grid.shape_nodes, order='F')
        nodes = list(itertools.product(range(1, nx), range(1, ny),
                                       range(1, nz)))
        if len(nodes) > 64:
            rr = gen.rng(len(nodes), nx, ny)
            nodes = [nodes[i] for i in rr.choice(len(nodes), 64, False)]
        cscale = float(np.abs(ref.C.diagonal()).max())
        worstg = 0.0
        for (i, j, k) in nodes:
            phi[:] = 0
            phi[i, j, k] = 1.0
            ef = (Gn @ phi.ravel('F'))/le
            e = emg3d.Field(grid, data=ef.astype(dtype))
            rr_ = emg3d.Field(grid, dtype=dtype)
            core.amat_x(rr_.fx, rr_.fy, rr_.fz, e.fx, e.fy, e.fz, z.eta_x,
                        z.eta_y, z.eta_z, z.zeta, *grid.h)
            g = float(np.abs(rr_.field).max()/(cscale*np.abs(ef).max()))
            worstg = max(worstg, g) if g == g else float('nan')
        rec.event('gradient_null_checks', len(nodes))
        rec.margin('gradient_null_rel', worstg)
        if not (worstg <= 1e-12):
            rec.violation('C02:gradient-not-annihilated',
                          f'curl-curl part maps a discrete gradient to '
                          f'{worstg:.3e} (relative)', case)

    # (4) compiled vs py_func (sampled columns + one random field)
    r = r or gen.rng(7, tag)
    cols = interior[r.choice(len(interior), min(use_pyfunc_cols,
                                                  len(interior)), False)]
    Ap = extract_matrix(core.amat_x.py_func, grid, vm, dtype, cols)
    Ac = A[:, np.searchsorted(interior, cols)]
    d = float(np.abs(Ap - Ac).max()/max(np.abs(Ac).max(), 1e-300))
    rec.margin('jit_vs_pyfunc_rel', d)
    rec.event('pyfunc_columns', len(cols))
    if not (d <= 1e-12):
        rec.violation('C02:jit-differs-from-source', f'compiled kernel and '
                      f'its Python source differ by {d:.3e}', case)
    # random PEC-consistent field through both, and against ref
    ev = gen.random_field(r, grid.n_edges, np.iscomplexobj(sf.field))
    ev = ev.astype(dtype)
    ev[~ref.interior] = 0
    outs = []
    for fn in (core.amat_x, core.amat_x.py_func):
        e = emg3d.Field(grid, data=ev.copy())
        rf = emg3d.Field(grid, dtype=dtype)
        fn(rf.fx, rf.fy, rf.fz, e.fx, e.fy, e.fz, vm.eta_x, vm.eta_y,
           vm.eta_z, vm.zeta, *grid.h)
        outs.append(-np.array(rf.field))
    want = ref.A @ ev
    sc = float(np.abs(want).max())
    d1 = float(np.abs(outs[0] - outs[1]).max()/sc)
    d2 = float(np.abs(outs[0][ref.interior] - want[ref.interior]).max()/sc)
    rec.margin('jit_vs_pyfunc_rel', d1)
    rec.margin('random_field_rel_err', d2)
    rec.event('random_field_checks')
    if not (d1 <= 1e-12):
        rec.violation('C02:jit-differs-from-source', f'compiled kernel and '
                      f'its Python source differ by {d1:.3e} (random field)',
                      case)
    if not (d2 <= 1e-11):
        rec.violation('C02:entry-mismatch', f'A e differs from reference on '
                      f'a random field: {d2:.3e}', case)
    # (5) the same Model object serves a second operator (another frequency
    # or Laplace value, as in a survey with several frequencies): the model
    # the user handed over is unchanged and the second operator is the FIT
    # operator of that model, too
    props_now = {n_: None if getattr(model, n_) is None else
                 np.array(getattr(model, n_)) for n_ in PROPS}
    rec.event('model_untouched_checks')
    for n_ in PROPS:
        a, b = props0[n_], props_now[n_]
        if (a is None) != (b is None) or (a is not None and not
                                          np.array_equal(a, b)):
            rec.violation('C02:volume-model-modifies-model',
                          f'building the operator coefficients changed '
                          f'model.{n_} (mapping {ms["mapping"]})', case)
            return
    freq2 = -freq*1.7 if r.random() < 0.3 else freq*2.3
    sf2 = emg3d.Field(grid, frequency=freq2)
    vm2 = models.VolumeModel(model, sf2)
    ref2 = gen.build_refop(gs, ms, freq2)
    dtype2 = sf2.field.dtype
    ev2 = gen.random_field(r, grid.n_edges, np.iscomplexobj(sf2.field))
    ev2 = ev2.astype(dtype2)
    ev2[~ref.interior] = 0
    e = emg3d.Field(grid, data=ev2.copy())
    rf = emg3d.Field(grid, dtype=dtype2)
    core.amat_x(rf.fx, rf.fy, rf.fz, e.fx, e.fy, e.fz, vm2.eta_x, vm2.eta_y,
                vm2.eta_z, vm2.zeta, *grid.h)
    want2 = ref2.A @ ev2
    d3 = float(np.abs(-np.array(rf.field)[ref.interior] -
                      want2[ref.interior]).max()/np.abs(want2).max())
    rec.margin('second_operator_rel_err', d3)
    rec.event('second_operator_checks')
    if not (d3 <= 1e-11):
        rec.violation('C02:second-operator-from-same-model',
                      f'second operator built from the same Model object '
                      f'(frequency {freq2}) differs from the FIT operator of '
                      f'that model: {d3:.3e} (mapping {ms["mapping"]})', case)
        return
    rec.distinct((tuple(grid.shape_cells), ms['case'], case['mu_r'],
                  case['eps_r'], str(dtype), tag.split(':')[0]))
    rec.sample({'shape': list(grid.shape_cells), 'case': ms['case'],
                'mu_r': case['mu_r'], 'eps_r': case['eps_r'],
                'frequency': freq, 'hx': gs['hx'], 'interior_edges':
                int(len(interior)), 'entry_rel_err': worst})


def xcheck_discretize(rec, r):
    """Guard my own assembly against discretize (framework self-check)."""
    import discretize
    import scipy.sparse as sp
    from scipy.constants import mu_0
    shape = tuple(int(x) for x in r.integers(2, 6, 3))
    gs = gen.grid_spec(r, shape)
    ms = gen.model_spec(r, shape, eps=False)
    freq = gen.frequency(r)
    ref = gen.build_refop(gs, ms, freq)
    mesh = discretize.TensorMesh([gs['hx'], gs['hy'], gs['hz']],
                                 origin=gs['origin'])
    sx, sy, sz = gen.sig_xyz(ms)
    mui = 1.0/(ms['mu_r'] if ms['mu_r'] is not None else np.ones(shape))
    C = mesh.edge_curl
    curl = C          # discretize: circulation / face area
    d = abs(curl - ref.curl).max()
    rec.event('discretize_crosschecks')
    rec.margin('refop_vs_discretize_curl', float(d/abs(ref.curl).max()))
    if not (d <= 1e-12*abs(ref.curl).max()):
        rec.inconclusive('framework self-check: refop curl != discretize '
                         f'edge_curl ({d:.3e})', {'shape': shape})
    # edge mass: discretize's edge inner product with per-direction sigma is
    # the same 4-cell volume average for a diagonally anisotropic tensor.
    sig = np.c_[sx.ravel('F'), sy.ravel('F'), sz.ravel('F')]
    Me = mesh.get_edge_inner_product(sig).diagonal()
    d2 = np.abs(Me[ref.interior] - ref.Me[ref.interior].real).max()
    rec.margin('refop_vs_discretize_Me',
               float(d2/np.abs(ref.Me).max()))
    if not (d2 <= 1e-12*np.abs(ref.Me).max()):
        rec.inconclusive('framework self-check: refop edge mass != discretize '
                         f'edge inner product ({d2:.3e})', {'shape': shape})
    _ = (mui, mu_0)


def insitu(rec, seed, k, i, tier):
    """Judge every 3rd call of core.amat_x made by a live solve, on whatever
    multigrid level it happens (coarse models, aliased anisotropy arrays)."""
    import contextlib
    import io
    import emg3d
    from emg3d import core
    from vf import refop
    r = gen.rng(seed, 'C02', 'insitu', k, i)
    sizes = [4, 6, 8, 8, 12, 16] if tier == 'quick' else [4, 6, 8, 12, 16, 20,
                                                          24, 32]
    shape = tuple(int(gen.choice(r, sizes)) for _ in range(3))
    gs = gen.grid_spec(r, shape)
    ms = gen.model_spec(r, shape)
    freq = gen.frequency(r)
    grid, model = gen.build_emg3d(gs, ms)
    src = (float(np.mean(grid.nodes_x[1:-1])), float(np.mean(grid.nodes_y[1:-1])),
           float(np.mean(grid.nodes_z[1:-1])), 30.0, 20.0)
    sf = emg3d.get_source_field(grid, src, freq)
    kw = {'sslsolver': gen.choice(r, [False, True, 'gcrotmk']),
          'semicoarsening': gen.choice(r, [False, True, 1, 2, 3, 123]),
          'linerelaxation': gen.choice(r, [False, True, 4, 7]),
          'cycle': gen.choice(r, ['F', 'V', 'W']), 'maxit': 3, 'verb': -1}
    case = {'k': k, 'i': i, 'shape': shape, 'kw': kw, 'frequency': freq,
            'case': ms['case']}
    orig = core.amat_x
    state = {'n': 0}
    cache = {}

    def w_amat(rx, ry, rz, ex, ey, ez, eta_x, eta_y, eta_z, zeta, hx, hy, hz):
        state['n'] += 1
        if state['n'] % 3 != 1:
            return orig(rx, ry, rz, ex, ey, ez, eta_x, eta_y, eta_z, zeta, hx,
                        hy, hz)
        r0 = np.r_[rx.ravel('F'), ry.ravel('F'), rz.ravel('F')]
        ev = np.r_[ex.ravel('F'), ey.ravel('F'), ez.ravel('F')]
        orig(rx, ry, rz, ex, ey, ez, eta_x, eta_y, eta_z, zeta, hx, hy, hz)
        r1 = np.r_[rx.ravel('F'), ry.ravel('F'), rz.ravel('F')]
        key = (len(hx), len(hy), len(hz), id(eta_x), id(zeta))
        if key not in cache:
            cache.clear()
            cache[key] = refop.RefOp(hx, hy, hz, None, None, None, 1.0,
                                     volume_arrays={'eta_x': eta_x,
                                                    'eta_y': eta_y,
                                                    'eta_z': eta_z,
                                                    'zeta': zeta})
        ref = cache[key]
        want = -(ref.A @ ev)
        got = r1 - r0
        inn = ref.interior
        # rounding of forming r0 - A e (cancellation) bounds the comparison
        scale = float((abs(ref.A) @ np.abs(ev) + np.abs(r0)).max()) + 1e-300
        d = float(np.abs(got[inn] - want[inn]).max()/scale) if inn.any() else 0.
        rec.event('insitu_amat_x_calls')
        rec.margin('insitu_rel_err', d)
        lvl = (len(hx), len(hy), len(hz))
        rec.distinct(('insitu', lvl, ms['case'], str(ev.dtype),
                      eta_y is eta_x, eta_z is eta_x))
        if not (d <= 1e-12):
            rec.violation('C02:entry-mismatch', f'in situ: amat_x on level '
                          f'grid {lvl} differs from the assembled operator by '
                          f'{d:.3e} (relative to the terms of the sum)', case)

    core.amat_x = w_amat
    try:
        with contextlib.redirect_stdout(io.StringIO()):
            emg3d.solve(model, sf, **kw)
    finally:
        core.amat_x = orig
    rec.case()
    rec.event('insitu_solves')


def run_batch(batch):
    rec = common.Rec()
    seed = batch['seed']
    if batch['mode'] == 'insitu':
        for i in range(batch['n']):
            insitu(rec, seed, batch['k'], i, batch['tier'])
        return rec.result()
    if batch['mode'] == 'enum':
        for c in batch['combos']:
            r = gen.rng(seed, 'C02', c['i'])
            shape = tuple(c['shape'])
            gs = gen.grid_spec(r, shape, kind=c['kind'])
            ms = gen.model_spec(r, shape, case=c['case'], mu=c['mu'],
                                eps=c['eps'], homogeneous=False)
            freq = gen.frequency(r, laplace=c['lap'])
            check_operator(rec, gs, ms, freq, f"{c['kind']}:{c['i']}", r=r)
    elif batch['mode'] == 'rand':
        for k in range(batch['n']):
            r = gen.rng(seed, 'C02', 'rand', batch['k'], k)
            shape = (int(r.integers(2, 10)), int(r.integers(2, 8)),
                     int(r.integers(2, 7)))
            gs = gen.grid_spec(r, shape)
            ms = gen.model_spec(r, shape)
            freq = gen.frequency(r)
            check_operator(rec, gs, ms, freq, f"rand:{batch['k']}:{k}", r=r)
    elif batch['mode'] == 'xcheck':
        for k in range(batch['n']):
            xcheck_discretize(rec, gen.rng(seed, 'C02', 'x', k))
    return rec.result()


def finalize(merged, tier):
    common.require_events(merged, {
        'amat_x_calls': 5000, 'entries_compared': 100000,
        'symmetry_checks': 50, 'gradient_null_checks': 200,
        'pyfunc_columns': 100, 'insitu_amat_x_calls': 150,
        'model_untouched_checks': 50, 'second_operator_checks': 50})
