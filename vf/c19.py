"""C19 - layered (1D) mode agrees with the 1D reference modeller.

Monitor: client boundary of ``Simulation(layered=True)`` (``compute``,
``data.synthetic``, ``misfit``, ``gradient``) and of ``Model.extract_1d``.

Oracle: the model is *generated from a layer table* (one row per z-cell,
neighbouring rows may be equal), so the layering is known without looking at
``extract_1d``.  The expected datum of every source-receiver-frequency triple
is a direct ``empymod.bipole`` call assembled in this file from that table and
from the *physical description* of the source and receiver I generated
(electrode positions, moment = strength x length, loop sources carry the
factor i w mu, relative receivers are positioned relative to the source
centre).  Nothing of ``emg3d._multiprocessing`` / ``Model.extract_1d`` /
``emg3d.maps`` is used by the oracle.

Clauses: (1) data of all five extraction methods (random ellipse settings,
merge flag) equal the reference for every triple with finite observation (all
if there is none or only NaN); (2) ``extract_1d(return_imat=True)``: weights
finite, >= 0, sum 1, and the extracted layering equals the table; (3) layered
gradient summed per z-cell x dp equals the change of ``Simulation.misfit``
under a uniform perturbation of that z-cell (fresh layered simulations).

Input classes.  'regular' (75 %) plus five labelled classes (5 % each) that
exercise one documented input form each and carry their own mechanism key *if
and only if* the data equal the specific wrong alternative named by the key:
  ptlen    TxElectricDipole((x,y,z,azm,elev), length=L != 1)
           -> C19:point-format-dipole-length-ignored
  magdip   TxMagneticDipole (loop, I^m = i w mu A I^e)
           -> C19:magnetic-dipole-source-without-iwmu
  relrec   Rx*Point(..., relative=True)
           -> C19:relative-receiver-taken-as-absolute
  dip2x3   TxElectricDipole([[x1,y1,z1],[x2,y2,z2]])
           -> C19:dipole-2x3-format-rejected (ValueError out of compute())
  mergem1  log10 mapping, bottom layer value exactly -1.0, merge=True
           -> C19:merge-drops-bottom-layer-of-value-minus-one
None of these forms occurs in the 'regular' class; any other disagreement in
any class is keyed C19:data-differ-from-1d-reference etc.
"""
import warnings
import numpy as np
from vf import common, gen

PROP = 'C19'
NEEDS_JIT = False
TIMEOUT = {'quick': 2400, 'thorough': 3400}
RULE = ("seeded layer tables (1..8 z-cells, thorough to 14; isotropic / VTI; "
        "optional air top layer, mu_r, eps_r; six property mappings) put on "
        "stretched/jittered grids of 1..9 x 1..9 cells; 1-3 sources "
        "(Tx{Electric,Magnetic}{Point,Dipole}; flat, 2x3 and "
        "(x,y,z,azm,elev)+length formats) x 1-4 receivers (Rx{Electric,"
        "Magnetic}Point, absolute/relative) x 1-3 frequencies; every case is "
        "run through all five extraction methods with random ellipse "
        "parameters / merge flag, without data, with full data, with NaN gaps "
        "(elementwise, whole receiver, whole source) and with all-NaN data; a "
        "third of the cases with data also checks the FD gradient layer by "
        "layer; distinct = (input class, anisotropy case, mapping, source "
        "type:format, receiver type, method, merge, data mode) tuples whose "
        "data reached the empymod oracle")
ASSUMPTIONS = [
    "empymod.bipole (pinned wheel, default Hankel filter, srcpts=recpts=1) is "
    "the 1D reference modeller the property refers to; it is trusted",
    "the expected source/receiver semantics are those documented for the "
    "emg3d electrode classes (moment = strength*length, TxMagneticDipole = "
    "loop with I^m = i w mu A I^e, relative receivers are offsets from the "
    "source centre) and realised by the 3D code path",
    "offsets are limited to <= 8 skin depths of the most conductive layer so "
    "that the digital-filter result is not rounding noise",
    "gradient clause: one-sided FD with the documented relative step 1e-4 in "
    "conductivity; tolerance 5e-3 (1e-6 for the Conductivity mapping where "
    "my difference quotient and the implementation's coincide)",
    "sampled configurations only",
]

# Tolerances -----------------------------------------------------------------
# Data: the only legitimate differences between emg3d's empymod call and mine
# are few-ulp roundings of the layer parameters (property map forth and back,
# 10**mean(log10) in the cylinder/prism average).  They perturb a datum by
# (few 1e-16) x (log-sensitivity <= ~8 skin depths) of the *total* field at the
# receiver, hence the error is measured against |ref| + FLOOR*|field vector|.
# TOL_DATA is a screening threshold (DESIGN: 1e-12, prototype 3e-16 for
# bit-identical input; on the pinned tree 99 % of the runs are below 1e-11,
# the tail up to 1e-10 is quantised cancellation noise of empymod under 1-3 ulp
# changes of a conductivity): a datum above
# it is not yet a violation but is judged against the *measured* resolution of
# the reference for that case (conditioning(): receivers in a very resistive
# air layer make empymod's digital-filter output move by 1e-7 for a 1e-14
# change of a layer parameter); ~1 % of the runs need that, they are counted
# in 'runs_judged_at_reduced_resolution'.
TOL_DATA = 1e-10
FLOOR = 1e-2
TOL_IMAT = 1e-12
TOL_PROP = 1e-12          # extracted layer conductivity vs table (relative)
TOL_GRAD = 5e-3
TOL_GRAD_COND = 1e-6
REL_DIFF = 1e-4           # documented FD step of the layered gradient

METHODS = ['midpoint', 'source', 'receiver', 'prism', 'cylinder']
CLASSES = ['regular', 'ptlen', 'magdip', 'relrec', 'dip2x3', 'mergem1']
MU0 = 4e-7*np.pi   # only used to limit the induction number of a case


# --------------------------------------------------------------------------
# Plan
def plan(tier, seed):
    if tier == 'quick':
        nb, per = 16, 48           # 768 configurations x 5 methods
    else:
        nb, per = 64, 160          # 10 240 configurations x 5 methods
    return [{'id': f'{tier[0]}{k}', 'k': k, 'n': per} for k in range(nb)]


# --------------------------------------------------------------------------
# Case generation (pure numpy; JSON-able result)
def _rot(azm, elev):
    a, e = np.deg2rad(azm), np.deg2rad(elev)
    return np.array([np.cos(a)*np.cos(e), np.sin(a)*np.cos(e), np.sin(e)])


def _angles(r):
    u = r.random()
    if u < 0.15:
        return (float(gen.choice(r, [0.0, 90.0, 180.0, -90.0, 45.0])),
                float(gen.choice(r, [0.0, 0.0, 90.0, -90.0, 30.0])))
    return (float(np.round(r.uniform(-180, 180), 2)),
            float(np.round(r.uniform(-90, 90), 2)))


def gen_case(seed, k, i, tier):
    r = gen.rng(seed, 'C19', k, i)
    u = r.random()
    cls = 'regular' if u < 0.75 else CLASSES[1 + int((u - 0.75)/0.05)]
    big = tier == 'thorough'

    # ---- layer table ------------------------------------------------------
    nzmax = 14 if big else 8
    nz = 1 if r.random() < 0.04 else int(r.integers(2, nzmax + 1))
    if cls == 'mergem1':
        nz = max(nz, 3)
    nx = 1 if r.random() < 0.05 else int(r.integers(2, 10))
    ny = 1 if r.random() < 0.05 else int(r.integers(2, 10))
    mapping = gen.choice(r, gen.MAPPINGS)
    vti = bool(r.random() < 0.5)
    has_mu = bool(r.random() < 0.25)
    has_eps = bool(r.random() < 0.25)
    air = bool(r.random() < 0.3) and nz > 1
    if cls == 'mergem1':
        mapping = gen.choice(r, ['LgConductivity', 'LgResistivity'])
        has_mu = has_eps = False
    # distinct layers, replicated over neighbouring cells with prob. 0.3
    grp = np.zeros(nz, dtype=int)
    for j in range(1, nz):
        grp[j] = grp[j-1] + (0 if r.random() < 0.3 else 1)
    if cls == 'mergem1':
        grp[1] = 1 if nz > 1 else 0     # bottom layer is a single cell
        grp[2:] = np.maximum(grp[2:], 1)
        for j in range(2, nz):
            grp[j] = max(grp[j], grp[j-1])
    ng = int(grp.max()) + 1
    sg_h = 10.0**r.uniform(-2.5, 0.5, ng)
    lam2 = 10.0**r.uniform(-0.6, 1.0, ng)
    sg_v = sg_h/lam2
    mu_g = r.uniform(0.8, 3.0, ng)
    eps_g = r.uniform(1.0, 20.0, ng)
    if air:
        sg_h[-1] = 10.0**r.uniform(-14, -8)
        sg_v[-1] = sg_h[-1]
        mu_g[-1] = 1.0
        eps_g[-1] = 1.0
    # round-trip through the mapping so that the table *is* what the model
    # stores (my own maps, not emg3d.maps)
    from vf import refop
    p_h = refop.from_conductivity(sg_h, mapping)
    p_v = refop.from_conductivity(sg_v, mapping)
    if cls == 'mergem1':
        p_h[0] = -1.0
        p_v[0] = -1.0
    tab = {
        'p_h': [float(p_h[g]) for g in grp],
        'p_v': [float(p_v[g]) for g in grp] if vti else None,
        'mu': [float(mu_g[g]) for g in grp] if has_mu else None,
        'eps': [float(eps_g[g]) for g in grp] if has_eps else None,
    }
    sig_all = refop.conductivity(np.array(tab['p_h']), mapping)
    sig_max = float(sig_all.max())
    if vti:
        sig_max = max(sig_max, float(refop.conductivity(
            np.array(tab['p_v']), mapping).max()))

    # ---- grid ---------------------------------------------------------------
    hx = gen.widths(r, nx, base=10.0**r.uniform(2.0, 3.0))
    hy = gen.widths(r, ny, base=10.0**r.uniform(2.0, 3.0))
    hz = gen.widths(r, nz, base=10.0**r.uniform(1.5, 2.5))
    Lx, Ly, Lz = float(hx.sum()), float(hy.sum()), float(hz.sum())
    origin = [float(np.round(r.uniform(-5000, 5000), 2)),
              float(np.round(r.uniform(-5000, 5000), 2)),
              float(np.round(-Lz*r.uniform(0.2, 1.1), 2))]

    # ---- survey ---------------------------------------------------------------
    # survey centre in the (slightly enlarged) horizontal extent of the grid
    cx = origin[0] + Lx*r.uniform(-0.15, 1.15)
    cy = origin[1] + Ly*r.uniform(-0.15, 1.15)

    def zpos():
        return float(np.round(origin[2] + Lz*r.uniform(-0.2, 1.2), 2))

    ns = int(gen.choice(r, [1, 1, 2, 3]))
    nr = int(gen.choice(r, [1, 2, 3, 4]))
    nf = int(gen.choice(r, [1, 2, 2, 3]))
    sources = []
    for j in range(ns):
        typ = gen.choice(r, ['TxElectricPoint', 'TxMagneticPoint',
                             'TxElectricDipole', 'TxElectricDipole'])
        special = (j == 0)
        if cls == 'magdip' and special:
            typ = 'TxMagneticDipole'
        if cls in ('ptlen', 'dip2x3') and special:
            typ = 'TxElectricDipole'
        c = [float(np.round(cx + r.uniform(-500, 500), 2)),
             float(np.round(cy + r.uniform(-500, 500), 2)), zpos()]
        azm, elev = _angles(r)
        strength = 1.0 if r.random() < 0.3 else float(
            np.round(10.0**r.uniform(-0.5, 2), 3))
        s = {'type': typ, 'strength': strength, 'center': c,
             'azm': azm, 'elev': elev}
        if 'Dipole' in typ:
            fmt = gen.choice(r, ['flat', 'point5'])
            length = 1.0
            if fmt == 'flat':
                length = float(np.round(10.0**r.uniform(0, 2.7), 2))
            if cls == 'ptlen' and special:
                fmt = 'point5'
                length = float(np.round(10.0**r.uniform(0.5, 2.5), 2))
            if cls == 'dip2x3' and special:
                fmt = '2x3'
                length = float(np.round(10.0**r.uniform(0, 2.7), 2))
            d = _rot(azm, elev)
            e0 = [float(x) for x in np.round(np.array(c) - d*length/2, 3)]
            e1 = [float(x) for x in np.round(np.array(c) + d*length/2, 3)]
            s.update(fmt=fmt, length=length, e0=e0, e1=e1)
            if fmt != 'point5':
                # the electrodes are the definition, centre follows from them
                s['center'] = [(a + b)/2 for a, b in zip(e0, e1)]
        else:
            s['fmt'] = 'point5'
        sources.append(s)
    receivers = []
    for j in range(nr):
        typ = gen.choice(r, ['RxElectricPoint', 'RxElectricPoint',
                             'RxMagneticPoint'])
        rel = bool(cls == 'relrec' and (j == 0 or r.random() < 0.3))
        for _ in range(50):
            off = 10.0**r.uniform(2.0, 3.6)
            ang = r.uniform(0, 2*np.pi)
            base = sources[int(r.integers(ns))]['center']
            x = float(np.round(base[0] + off*np.cos(ang), 2))
            y = float(np.round(base[1] + off*np.sin(ang), 2))
            dmin = min(np.hypot(x - s['center'][0], y - s['center'][1])
                       for s in sources)
            if dmin >= 60.0:
                break
        azm, elev = _angles(r)
        q = {'type': typ, 'relative': rel, 'azm': azm, 'elev': elev}
        if rel:
            # offset from the centre of *every* source; keep it away from all
            q['coords'] = [float(np.round(off*np.cos(ang), 2)),
                           float(np.round(off*np.sin(ang), 2)),
                           float(np.round(r.uniform(-0.2, 0.2)*Lz, 2))]
            if np.hypot(q['coords'][0], q['coords'][1]) < 60.0:
                q['coords'][0] += 100.0
        else:
            q['coords'] = [x, y, zpos()]
        receivers.append(q)

    # frequencies, limited to <= 8 skin depths over the largest distance
    rmax = 0.0
    for s in sources:
        for q in receivers:
            p = np.array(q['coords'])
            sc = np.array(s['center'])
            rmax = max(rmax, float(np.linalg.norm(p - sc)))
            if q['relative']:
                # (both readings of the coordinates stay well conditioned, so
                # that a mismatch can be attributed)
                rmax = max(rmax, float(np.linalg.norm(p)))
    fcap = (8.0/rmax)**2/(np.pi*MU0*sig_max*(3.0 if has_mu else 1.0))
    freqs = sorted({float(f'{min(10.0**r.uniform(-2, 1), fcap):.4g}')
                    for _ in range(nf)})

    pts = [s['center'] for s in sources]
    for q in receivers:
        if q['relative']:
            pts += [[a + b for a, b in zip(q['coords'], s['center'])]
                    for s in sources]
        else:
            pts.append(q['coords'])
    inside = min(nx, ny, nz) > 1 and all(
        origin[0] + 1 < p[0] < origin[0] + Lx - 1 and
        origin[1] + 1 < p[1] < origin[1] + Ly - 1 and
        origin[2] + 1 < p[2] < origin[2] + Lz - 1 for p in pts)

    # ---- extraction settings: all five methods ---------------------------------
    runs = []
    for m in METHODS:
        lo = {'method': m}
        if m in ('prism', 'cylinder'):
            if r.random() < 0.15:
                if r.random() < 0.5:
                    lo['ellipse'] = {'factor': float(np.round(
                        r.uniform(0.5, 3), 3))}
                if m == 'cylinder' and r.random() < 0.3:
                    lo.pop('method')        # default method is 'cylinder'
            else:
                el = {'radius': float(f'{10.0**r.uniform(0, 4.3):.4g}')}
                if r.random() < 0.6:
                    el['factor'] = float(np.round(r.uniform(0.5, 3.0), 3))
                if r.random() < 0.6:
                    el['minor'] = float(np.round(r.uniform(0.05, 1.5), 3))
                if r.random() < 0.3:
                    el['check_foci'] = bool(r.random() < 0.5)
                lo['ellipse'] = el
        u = r.random()
        if cls == 'mergem1':
            lo['merge'] = True
        elif u < 0.25:
            lo['merge'] = True
        elif u < 0.4:
            lo['merge'] = False
        # automatic gridding looks the model up at survey positions, so it
        # is only a valid request if the whole survey lies inside the grid
        runs.append({'lopts': lo, 'gridding': 'single' if (
            r.random() < 0.4 and inside) else 'same'})

    # ---- observed data ----------------------------------------------------------
    u = r.random()
    obsmode = ('none' if u < 0.35 else 'full' if u < 0.5 else
               'gaps' if u < 0.9 else 'allnan')
    obs = None
    if obsmode == 'gaps' and ns*nr*len(freqs) == 1:
        obsmode = 'full'        # a single datum cannot have a gap
    if obsmode != 'none':
        shape = (ns, nr, len(freqs))
        obs = {'fac_re': (1 + 0.25*r.standard_normal(shape)).tolist(),
               'fac_im': (0.25*r.standard_normal(shape)).tolist(),
               'relative_error': float(np.round(r.uniform(0.01, 0.1), 4)),
               'noise_floor_rel': (None if r.random() < 0.4 else
                                   float(10.0**r.uniform(-3, -1)))}
        mask = np.zeros(shape, dtype=bool)     # True = NaN
        if obsmode == 'allnan':
            mask[:] = True
        elif obsmode == 'gaps':
            mask |= r.random(shape) < r.uniform(0.1, 0.5)
            if r.random() < 0.5:
                mask[int(r.integers(ns)), int(r.integers(nr)), :] = True
            if ns > 1 and r.random() < 0.4:
                mask[int(r.integers(ns)), :, :] = True
            if mask.all():
                mask[0, 0, 0] = False
            if not mask.any():
                mask[-1, -1, -1] = True
        obs['nan'] = mask.tolist()
    # (merge=True is not combined with the gradient: the layered gradient
    # raises a broadcasting ValueError for merged layers - an exception, not a
    # wrong value; merge is not part of the property's quantifier)
    grad = None
    nomerge = [j for j, rn in enumerate(runs) if not rn['lopts'].get('merge')]
    if obsmode in ('full', 'gaps') and r.random() < 0.6 and nomerge:
        grad = {'run': int(gen.choice(r, nomerge))}

    # ---- direct extract_1d calls ---------------------------------------------------
    ext = []
    for _ in range(6):
        m = gen.choice(r, ['midpoint', 'prism', 'cylinder'])
        kw = {'method': m,
              'p0': [float(origin[0] + Lx*r.uniform(-0.2, 1.2)),
                     float(origin[1] + Ly*r.uniform(-0.2, 1.2))]}
        if r.random() < 0.8:
            kw['p1'] = [float(origin[0] + Lx*r.uniform(-0.2, 1.2)),
                        float(origin[1] + Ly*r.uniform(-0.2, 1.2))]
        if m != 'midpoint' or r.random() < 0.2:
            el = {'radius': float(10.0**r.uniform(0, 4.3))}
            if r.random() < 0.6:
                el['factor'] = float(r.uniform(0.5, 3.0))
            if r.random() < 0.6:
                el['minor'] = float(r.uniform(0.05, 1.5))
            if r.random() < 0.3:
                el['check_foci'] = bool(r.random() < 0.5)
            kw['ellipse'] = el
        if cls == 'mergem1':
            kw['merge'] = True
        elif r.random() < 0.4:
            kw['merge'] = bool(r.random() < 0.6)
        ext.append(kw)

    return {'seed': seed, 'k': k, 'i': i, 'cls': cls, 'mapping': mapping, 'vti': vti,
            'hx': hx.tolist(), 'hy': hy.tolist(), 'hz': hz.tolist(),
            'origin': origin, 'table': tab, 'sources': sources,
            'receivers': receivers, 'freqs': freqs, 'runs': runs,
            'obsmode': obsmode, 'obs': obs, 'grad': grad, 'extract': ext}


# --------------------------------------------------------------------------
# Reference model: the layer table and the empymod call
class Table:
    """Layering known from the generator: interfaces + layer parameters."""

    def __init__(self, c, p_h=None, p_v=None):
        from vf import refop
        t = c['table']
        self.mapping = c['mapping']
        z = c['origin'][2] + np.r_[0.0, np.cumsum(np.array(c['hz']))]
        self.nodes = z
        self.p_h = np.array(t['p_h'] if p_h is None else p_h, dtype=float)
        self.vti = t['p_v'] is not None
        self.p_v = None
        if self.vti:
            self.p_v = np.array(t['p_v'] if p_v is None else p_v, dtype=float)
        self.sig_h = refop.conductivity(self.p_h, self.mapping)
        self.sig_v = (refop.conductivity(self.p_v, self.mapping)
                      if self.vti else None)
        self.mu = None if t['mu'] is None else np.array(t['mu'])
        self.eps = None if t['eps'] is None else np.array(t['eps'])

    def columns(self):
        cols = [self.p_h]
        for v in (self.p_v, self.mu, self.eps):
            if v is not None:
                cols.append(v)
        return np.array(cols)

    def merged_index(self):
        """First cell of every run of cells with identical parameters."""
        cols = self.columns()
        keep = [0]
        for j in range(1, cols.shape[1]):
            if not np.array_equal(cols[:, j], cols[:, j-1]):
                keep.append(j)
        return np.array(keep)

    def empymod_model(self, merged=False):
        idx = self.merged_index() if merged else np.arange(self.p_h.size)
        # written top-down (decreasing z), i.e. in the other order than emg3d
        # hands it over; empymod accepts both
        # (with a single interface the order is ambiguous and empymod reads
        # it bottom-up, so that case stays bottom-up)
        if idx.size > 2:
            idx = idx[::-1]
            depth = self.nodes[idx[:-1]]    # lower interface of upper layers
        else:
            depth = self.nodes[idx[1:]]
        out = {'depth': depth, 'res': 1.0/self.sig_h[idx]}
        if self.vti:
            out['aniso'] = np.sqrt(self.sig_h[idx]/self.sig_v[idx])
        if self.mu is not None:
            out['mpermH'] = self.mu[idx]
            out['mpermV'] = self.mu[idx]
        if self.eps is not None:
            out['epermH'] = self.eps[idx]
            out['epermV'] = self.eps[idx]
        return out


def src_semantics(s, variant='documented'):
    """empymod description of a generated source.

    'documented': what the electrode classes document and the 3D code does.
    'as-coordinates': the input tuple taken at face value (used only to
    *classify* a mismatch, never as the expectation).
    """
    typ = s['type']
    c, azm, elev = s['center'], s['azm'], s['elev']
    msrc = 'Magnetic' in typ
    if 'Point' in typ:
        return {'src': [c[0], c[1], c[2], azm, elev], 'msrc': msrc,
                'strength': s['strength']}
    if s['fmt'] == 'point5':
        # dipole of length L centred at c == point dipole with moment I*L
        # (empymod's default srcpts=1 collapses every dipole to its centre)
        moment = s['strength']*s['length']
        if variant == 'as-coordinates':
            moment = s['strength']
        out = {'src': [c[0], c[1], c[2], azm, elev], 'msrc': msrc,
               'strength': moment}
    else:
        e0, e1 = s['e0'], s['e1']
        out = {'src': [e0[0], e1[0], e0[1], e1[1], e0[2], e1[2]],
               'msrc': msrc, 'strength': s['strength']}
    if typ == 'TxMagneticDipole' and variant == 'documented':
        out['msrc'] = 'b'       # loop: I^m = i w mu A I^e
    return out


def rec_semantics(q, s, variant='documented'):
    p = list(q['coords'])
    if q['relative'] and variant == 'documented':
        p = [a + b for a, b in zip(p, s['center'])]
    return {'rec': [p[0], p[1], p[2], q['azm'], q['elev']],
            'mrec': 'Magnetic' in q['type']}


def ref_data(c, table, merged=False, svariant='documented',
             rvariant='documented', with_norm=True):
    """(ns, nr, nf) reference data and the norm of the field vector."""
    from empymod import bipole
    mod = table.empymod_model(merged)
    ns, nr, nf = len(c['sources']), len(c['receivers']), len(c['freqs'])
    out = np.zeros((ns, nr, nf), dtype=complex)
    nrm = np.zeros((ns, nr, nf))
    for a, s in enumerate(c['sources']):
        si = src_semantics(s, svariant)
        for b, q in enumerate(c['receivers']):
            ri = rec_semantics(q, s, rvariant)
            kw = dict(depth=mod['depth'], res=mod['res'],
                      aniso=mod.get('aniso'), epermH=mod.get('epermH'),
                      epermV=mod.get('epermV'), mpermH=mod.get('mpermH'),
                      mpermV=mod.get('mpermV'), freqtime=c['freqs'],
                      src=si['src'], msrc=si['msrc'], strength=si['strength'],
                      mrec=ri['mrec'], verb=0)
            out[a, b, :] = np.atleast_1d(bipole(rec=ri['rec'], **kw))
            if with_norm:
                p = ri['rec'][:3]
                tot = np.zeros(nf)
                for ang in ((0.0, 0.0), (90.0, 0.0), (0.0, 90.0)):
                    v = np.atleast_1d(bipole(rec=[*p, *ang], **kw))
                    tot += np.abs(v)**2
                nrm[a, b, :] = np.sqrt(tot)
    return out, nrm


# --------------------------------------------------------------------------
# Building the emg3d objects
def build_model(c, table):
    import emg3d
    grid = emg3d.TensorMesh([np.array(c['hx']), np.array(c['hy']),
                             np.array(c['hz'])], origin=np.array(c['origin']))
    shape = grid.shape_cells
    kw = {'property_x': np.ones(shape)*table.p_h[None, None, :]}
    if table.vti:
        kw['property_z'] = np.ones(shape)*table.p_v[None, None, :]
    if table.mu is not None:
        kw['mu_r'] = np.ones(shape)*table.mu[None, None, :]
    if table.eps is not None:
        kw['epsilon_r'] = np.ones(shape)*table.eps[None, None, :]
    return emg3d.Model(grid, mapping=c['mapping'], **kw)


def build_survey(c, obs=None, std_inp=None):
    import emg3d
    srcs = []
    for s in c['sources']:
        cls = getattr(emg3d, s['type'])
        ctr = s['center']
        if 'Point' in s['type']:
            srcs.append(cls((ctr[0], ctr[1], ctr[2], s['azm'], s['elev']),
                            strength=s['strength']))
        elif s['fmt'] == 'point5':
            kw = {} if s['length'] == 1.0 else {'length': s['length']}
            srcs.append(cls((ctr[0], ctr[1], ctr[2], s['azm'], s['elev']),
                            strength=s['strength'], **kw))
        elif s['fmt'] == 'flat':
            e0, e1 = s['e0'], s['e1']
            srcs.append(cls((e0[0], e1[0], e0[1], e1[1], e0[2], e1[2]),
                            strength=s['strength']))
        else:
            srcs.append(cls([list(s['e0']), list(s['e1'])],
                            strength=s['strength']))
    recs = []
    for q in c['receivers']:
        cls = getattr(emg3d, q['type'])
        p = q['coords']
        recs.append(cls((p[0], p[1], p[2], q['azm'], q['elev']),
                        relative=q['relative']))
    kw = {}
    if obs is not None:
        kw['data'] = obs
        kw.update(std_inp or {})
    return emg3d.Survey(srcs, recs, c['freqs'], **kw)


def build_sim(c, model, survey, run, rec=None):
    import emg3d
    kw = dict(max_workers=1, layered=True, layered_opts=run['lopts'],
              tqdm_opts=False)
    if run['gridding'] == 'single':
        # The estimate of the automatic-gridding options (not used by the
        # layered mode, C16's subject) raises IndexError if the survey centre
        # is closest to the last node of a direction; fall back to 'same'.
        try:
            return emg3d.Simulation(survey, model, gridding='single', **kw)
        except IndexError:
            if rec is not None:
                rec.extra_add('auto_gridding_estimate_raised_indexerror')
    return emg3d.Simulation(survey, model, gridding='same', **kw)


def observed(c, ref, nrm):
    """Observed data (with NaN gaps) and the standard-deviation input."""
    o = c['obs']
    if o is None:
        return None, None
    fac = np.array(o['fac_re']) + 1j*np.array(o['fac_im'])
    # (the second term keeps a datum that is exactly zero by symmetry, e.g.
    # an in-line Ey, away from zero: a zero observation has zero standard
    # deviation under a purely relative error)
    obs = ref*fac + 0.02*nrm*(fac - 1.0)
    obs[np.array(o['nan'], dtype=bool)] = np.nan + 1j*np.nan
    std = {'relative_error': o['relative_error']}
    if o['noise_floor_rel'] is not None:
        std['noise_floor'] = float(o['noise_floor_rel']*nrm.min())
    return obs, std


# --------------------------------------------------------------------------
# Checks
def _err(d, ref, nrm):
    """NaN-propagating error measure of a data block (see TOL_DATA)."""
    with np.errstate(invalid='ignore', divide='ignore'):
        return np.abs(d - ref)/(np.abs(ref) + FLOOR*nrm)


def _brief(c):
    return {'seed': c['seed'], 'k': c['k'], 'i': c['i'], 'cls': c['cls'],
            'mapping': c['mapping'], 'vti': c['vti'], 'hx': c['hx'],
            'hy': c['hy'], 'hz': c['hz'], 'origin': c['origin'],
            'table': c['table'], 'sources': c['sources'],
            'receivers': c['receivers'], 'freqs': c['freqs'],
            'obsmode': c['obsmode'], 'obs': c['obs']}


def classify_data_mismatch(c, table, d, want, merged, first_layer_dropped,
                           allow, cache):
    """Deterministic mechanism key of a data mismatch.

    A labelled input class gets its own key only if the data equal the
    specific alternative that defines the mechanism (to the resolution of the
    reference); everything else is the generic key, so a labelled class cannot
    hide another defect.
    """
    def close(**variant):
        ck = ('alt', merged, tuple(sorted(variant.items())))
        if ck not in cache:
            alt, nrm = ref_data(c, table, merged, **variant)
            # resolution of the alternative itself (its geometry differs)
            res = conditioning(c, table, merged, alt, nrm, **variant)
            cache[ck] = (alt, nrm, res)
        alt, nrm, res = cache[ck]
        if not (np.all(np.isfinite(d[want])) and np.all(np.isfinite(alt))):
            return False
        e = _err(d, alt, nrm) - np.maximum(allow, res)
        return bool(np.all(e[want] <= 1e-9))

    cls = c['cls']
    try:
        # 'as-coordinates': the constructor's coordinate tuple handed to the
        # 1D modeller as it is (drops a dipole's length, the loop factor of a
        # TxMagneticDipole, or the 'relative' flag of a receiver)
        if cls == 'ptlen' and close(svariant='as-coordinates'):
            return 'C19:point-format-dipole-length-ignored'
        if cls == 'magdip' and close(svariant='as-coordinates'):
            return 'C19:magnetic-dipole-source-without-iwmu'
        if cls == 'relrec' and close(rvariant='as-coordinates'):
            return 'C19:relative-receiver-taken-as-absolute'
        if cls == 'mergem1' and merged and first_layer_dropped:
            return 'C19:merge-drops-bottom-layer-of-value-minus-one'
    except Exception:  # noqa - classification must never mask the finding
        pass
    return 'C19:data-differ-from-1d-reference'


def conditioning(c, table, merged, ref, nrm, **variant):
    """Resolution of the reference modeller for this case.

    50 x the largest change of a datum (same error measure as the check)
    under twelve random relative perturbations (log-uniform size 2e-16..1e-14,
    random sign, independent per layer and parameter) of all layer parameters,
    i.e. of the size of the legitimate rounding differences (|p| <= 32 in a
    log mapping times a few ulp).  Where cancellation inside the 1D modeller
    dominates, its output is *quantised* noise (a 2-ulp change of one
    conductivity moves a datum by 1e-11, a 10-ulp change by 3e-15): hence
    many small probes instead of one, and the factor.
    """
    r = gen.rng(c['seed'], 'C19', 'probe', c['k'], c['i'], int(merged))
    out = np.zeros(ref.shape)
    for _ in range(12):
        t2 = Table(c)
        for name in ('sig_h', 'sig_v', 'mu', 'eps'):
            v = getattr(t2, name)
            if v is not None:
                eps = 10.0**r.uniform(-15.7, -14.0, v.size)
                setattr(t2, name, v*(1 + eps*r.choice([-1.0, 1.0], v.size)))
        r2, _ = ref_data(c, t2, merged, with_norm=False, **variant)
        ch = _err(r2, ref, nrm)
        out = np.maximum(out, np.where(np.isfinite(ch), ch, np.inf))
    return 50.0*out


def first_layer_dropped(model, table):
    """Signature of the merge defect, looked up directly on extract_1d."""
    try:
        lay = model.extract_1d('midpoint', p0=[0.0, 0.0], merge=True)
        nref = table.merged_index().size
        return bool(lay.shape[2] < nref and
                    lay.property_x[0, 0, 0] != table.p_h[0])
    except Exception:  # noqa
        return False


def check_forward(rec, c, table, model, ref, nrm, ref_m, nrm_m, allow):
    """Clause 1/2: data of every method equal the reference."""
    obs, std = observed(c, ref, nrm)
    if obs is not None and np.isfinite(obs).any():
        want = np.isfinite(obs)
    else:
        want = np.ones(ref.shape, dtype=bool)
    dropped = None
    passed = []
    for irun, run in enumerate(c['runs']):
        lo = run['lopts']
        merged = bool(lo.get('merge', False))
        info = {'case': _brief(c), 'run': run}
        try:
            survey = build_survey(c, obs, std)
            sim = build_sim(c, model, survey, run, rec)
        except Exception as e:  # noqa
            rec.inconclusive(f'building the simulation raised '
                             f'{type(e).__name__}: {e}', info)
            continue
        rec.case()
        try:
            sim.compute()
        except Exception as e:  # noqa
            msg = f'{type(e).__name__}: {e}'
            if (c['cls'] == 'dip2x3' and isinstance(e, ValueError)
                    and 'wrong length' in str(e)):
                rec.event('layered_runs')
                rec.violation(
                    'C19:dipole-2x3-format-rejected',
                    'layered compute() raises for a dipole source given as '
                    f'[[x1,y1,z1],[x2,y2,z2]]: {msg}', info)
            else:
                rec.inconclusive(f'compute() raised {msg}', info)
            continue
        d = np.array(sim.data.synthetic.data)
        rec.event('layered_runs')
        r_, n_ = (ref_m, nrm_m) if merged else (ref, nrm)
        e = _err(d, r_, n_)
        nwant = int(want.sum())
        rec.event('data_compared', nwant)
        ok = bool(np.all(np.isfinite(d[want])))
        worst = float(np.max(e[want])) if ok else float('nan')
        if c['cls'] == 'regular' and worst <= TOL_DATA:
            rec.margin('data_rel_err', worst)
        if not (worst <= TOL_DATA):
            # Only now ask how well the reference itself is determined (a
            # receiver in a very resistive air layer makes the digital-filter
            # result jump by 1e-7 for a 1e-14 change of a layer parameter):
            # the data cannot be required to agree better than that.
            if merged not in allow:
                allow[merged] = conditioning(c, table, merged, r_, n_)
                rec.event('conditioning_probes')
            ex = np.where(np.isfinite(e), e, np.inf) - allow[merged]
            worst2 = float(np.max(ex[want])) if ok else float('nan')
            if worst2 <= TOL_DATA:
                rec.extra_add('runs_judged_at_reduced_resolution')
                rec.margin('reference_resolution_used',
                           float(np.max(allow[merged][want])))
                worst = worst2
        if not (worst <= TOL_DATA):
            if dropped is None:
                dropped = first_layer_dropped(model, table)
            key = classify_data_mismatch(c, table, d, want, merged, dropped,
                                         allow[merged], allow)
            j = np.unravel_index(np.nanargmax(np.where(want, np.where(
                np.isfinite(e), e, np.inf), -1.0)), e.shape)
            rec.violation(
                key, f'layered datum differs from the direct empymod call: '
                f'err {worst:.3e} (tol {TOL_DATA}) at [src,rec,freq]={j}: '
                f'emg3d {d[j]} reference {r_[j]}; method '
                f'{lo.get("method", "<default>")}, layered_opts {lo}',
                {**info, 'emg3d': d, 'reference': r_})
        else:
            passed.append(irun)
            # History step: the observations are removed again on the same
            # survey object (in place); a recompute must then return the
            # reference for ALL triples ("or all, if there is none").
            if irun == 0 and obs is not None and np.isfinite(obs).any() and \
                    c['cls'] == 'regular':
                try:
                    survey.data.observed[...] = np.nan + 1j*np.nan
                    sim.clean('computed')
                    sim.compute()
                    d2 = np.array(sim.data.synthetic.data)
                except Exception as e2:  # noqa
                    rec.inconclusive(f'recompute after removing the '
                                     f'observations raised '
                                     f'{type(e2).__name__}: {e2}', info)
                    d2 = None
                if d2 is not None:
                    rec.event('recompute_without_observations')
                    e2 = _err(d2, r_, n_)
                    fin = bool(np.all(np.isfinite(d2)))
                    w2 = float(np.max(e2)) if fin else float('nan')
                    lim = TOL_DATA + (float(np.max(allow[merged]))
                                      if merged in allow else 0.0)
                    if not fin or not (w2 <= max(lim, 10*max(worst, 0.0))):
                        rec.violation(
                            'C19:stale-observation-pattern-after-data-removed',
                            f'after the observed data were set to NaN in '
                            f'place and the simulation cleaned, compute() '
                            f'returned {int(np.sum(~np.isfinite(d2)))} '
                            f'non-finite of {d2.size} wanted responses '
                            f'(max err {w2:.3e})', info)
        # what is stored where nothing was asked for (informative only)
        if not want.all():
            rest = ~want
            rec.event('unobserved_triples', int(rest.sum()))
            rec.extra_add('unobserved_left_nan', int(np.isnan(d[rest]).sum()))
        srct = sorted({f"{s['type']}:{s['fmt']}" for s in c['sources']})
        rect = sorted({q['type'] + ('(rel)' if q['relative'] else '')
                       for q in c['receivers']})
        for st in srct:
            for rt in rect:
                rec.distinct((c['cls'], 'VTI' if c['vti'] else 'iso',
                              c['mapping'], st, rt,
                              lo.get('method', 'default'), merged,
                              c['obsmode']))
        rec.extra_set('methods', [lo.get('method', 'default')])
        rec.extra_set('obsmodes', [c['obsmode']])
        rec.extra_set('source_kinds', srct)
        rec.extra_set('receiver_kinds', rect)
        if lo.get('ellipse', {}).get('radius') is None and \
                lo.get('method', 'cylinder') in ('prism', 'cylinder'):
            rec.extra_add('default_radius_runs')
    return obs, std, passed


def check_extract(rec, c, table, model):
    """Clause 3: weights >= 0, sum 1; extracted layering equals the table."""
    from vf import refop
    nodes_full = table.nodes
    for kw in c['extract']:
        info = {'case': _brief(c), 'extract_1d': kw}
        kw2 = dict(kw)
        try:
            lay, imat = model.extract_1d(return_imat=True, **kw2)
        except Exception as e:  # noqa
            rec.inconclusive(f'extract_1d raised {type(e).__name__}: {e}',
                             info)
            continue
        rec.event('extract_1d_calls')
        imat = np.asarray(imat, dtype=float)
        good = (imat.shape == tuple(model.shape[:2]) and
                bool(np.all(np.isfinite(imat))))
        neg = float(-imat.min()) if good else float('nan')
        tot = float(abs(imat.sum() - 1.0)) if good else float('nan')
        rec.margin('imat_negative_part', max(neg, 0.0) if neg == neg else neg)
        rec.margin('imat_sum_minus_one', tot)
        if not (neg <= 0.0) or not (tot <= TOL_IMAT):
            rec.violation('C19:extraction-weights-not-a-partition',
                          f'imat shape {imat.shape}, min {imat.min()}, '
                          f'sum {imat.sum()!r}', {**info, 'imat': imat})
        rec.extra_add('imat_multi_cell', int(np.count_nonzero(imat) > 1))
        # extracted layering against the table, as a piecewise-constant
        # function of z: every returned layer must span whole z-cells of the
        # grid and carry the table's parameters on each of them.  (merge=True
        # is not required to merge *maximally*: unmerged equal layers describe
        # the same layering; merge=False must return one layer per z-cell.)
        merged = bool(kw.get('merge', False))
        idx = table.merged_index() if merged else np.arange(table.p_h.size)
        nzc = table.p_h.size
        zn = np.asarray(lay.grid.nodes_z, dtype=float)
        ext = max(1.0, float(np.ptp(nodes_full)))
        bad = None
        cell0 = None
        if lay.shape[2] < 1 or zn.size != lay.shape[2] + 1 or \
                not np.all(np.isfinite(zn)):
            bad = f'malformed layered grid: nodes_z {zn}'
        elif not merged and lay.shape[2] != nzc:
            bad = (f'{lay.shape[2]} layers returned without merge, the grid '
                   f'has {nzc} z-cells')
        else:
            pos = np.array([int(np.argmin(np.abs(nodes_full - z)))
                            for z in zn])
            dz = float(np.max(np.abs(nodes_full[pos] - zn)))
            if not (dz <= 1e-9*ext):
                bad = f'interfaces are not grid nodes (off by {dz:.3e} m)'
            elif pos[0] != 0 or pos[-1] != nzc or np.any(np.diff(pos) < 1):
                bad = (f'returned interfaces {zn} do not tile the column '
                       f'{nodes_full[0]}..{nodes_full[-1]}')
            else:
                cell0 = pos[:-1]
                ncell = np.diff(pos)
        if bad is None:
            pairs = [('property_x', table.sig_h, True)]
            if table.vti:
                pairs.append(('property_z', table.sig_v, True))
            if table.mu is not None:
                pairs.append(('mu_r', table.mu, False))
            if table.eps is not None:
                pairs.append(('epsilon_r', table.eps, False))
            worst = 0.0
            for name, tv, is_prop in pairs:
                got = getattr(lay, name)
                if got is None:
                    bad = f'{name} missing in the layered model'
                    break
                got = np.asarray(got)[0, 0, :]
                if is_prop:
                    got = refop.conductivity(got, c['mapping'])
                if not np.all(np.isfinite(got)):
                    worst = float('nan')
                    break
                full = np.repeat(got, ncell)        # back onto the z-cells
                worst = max(worst, float(np.max(np.abs(full/tv - 1.0))))
            rec.margin('extracted_layer_rel_err', worst)
            if bad is None and not (worst <= TOL_PROP):
                bad = f'layer parameters differ from the table by {worst:.3e}'
            if bad is None and lay.case != model.case:
                bad = f'anisotropy case changed: {lay.case}'
            if merged:
                rec.extra_add('merge_calls')
                rec.extra_add('merge_calls_maximally_merged',
                              int(lay.shape[2] == idx.size))
        rec.event('extracted_layerings_compared')
        if bad:
            key = 'C19:extracted-layering-differs-from-table'
            if (c['cls'] == 'mergem1' and merged and
                    lay.shape[2] < idx.size and
                    lay.property_x[0, 0, 0] != table.p_h[0]):
                key = 'C19:merge-drops-bottom-layer-of-value-minus-one'
            rec.violation(key, f'extract_1d on a laterally invariant model: '
                          f'{bad}; call {kw}',
                          {**info, 'returned_nodes_z': lay.grid.nodes_z,
                           'returned_property_x': lay.property_x[0, 0, :]})


def check_gradient(rec, c, table, model, ref, nrm, obs, std, allow):
    """Clause 4: FD gradient summed per layer vs. change of the misfit."""
    from vf import refop
    run = c['runs'][c['grad']['run']]
    info = {'case': _brief(c), 'run': run}
    mapping = c['mapping']
    try:
        sim = build_sim(c, model, build_survey(c, obs, std), run)
        phi0 = float(sim.misfit)
        g = np.array(sim.gradient)
    except Exception as e:  # noqa
        rec.inconclusive(f'misfit/gradient raised {type(e).__name__}: {e}',
                         info)
        return
    rec.case()
    nx, ny, nz = model.shape
    ncomp = 2 if table.vti else 1
    if g.size != ncomp*nx*ny*nz or not np.all(np.isfinite(g)) or \
            not np.isfinite(phi0):
        rec.event('gradients')
        rec.violation('C19:gradient-malformed', f'gradient shape {g.shape} '
                      f'for model {model.shape} ({model.case}), finite: '
                      f'{bool(np.all(np.isfinite(g)))}, misfit {phi0}', info)
        return
    g = g.reshape(ncomp, nx, ny, nz)
    G = g.sum(axis=(1, 2))
    # misfit from my own data and noise model (informative cross-check only)
    fin = np.isfinite(obs)
    s2 = (std['relative_error']*np.abs(obs[fin]))**2
    if 'noise_floor' in std:
        s2 = s2 + std['noise_floor']**2
    merged = bool(run['lopts'].get('merge', False))
    rme, _ = ref_data(c, table, merged, with_norm=False) if merged else (
        ref, None)
    phi_ref = float(np.sum(np.abs(rme[fin] - obs[fin])**2/s2)/2)
    if c['cls'] == 'regular':
        rec.margin('misfit_vs_own_formula_rel',
                   abs(phi0 - phi_ref)/max(abs(phi_ref), 1e-300))

    pred = np.zeros((ncomp, nz))
    act = np.zeros((ncomp, nz))
    for comp in range(ncomp):
        sig = table.sig_h if comp == 0 else table.sig_v
        p = table.p_h if comp == 0 else table.p_v
        for kk in range(nz):
            delta = sig[kk]*REL_DIFF
            p2 = p.copy()
            p2[kk] = refop.from_conductivity(sig[kk] + delta, mapping)
            dp = p2[kk] - p[kk]
            t2 = Table(c, p_h=p2 if comp == 0 else None,
                       p_v=p2 if comp == 1 else None)
            try:
                sim2 = build_sim(c, build_model(c, t2),
                                 build_survey(c, obs, std), run)
                phi = float(sim2.misfit)
            except Exception as e:  # noqa
                rec.inconclusive(f'perturbed misfit raised '
                                 f'{type(e).__name__}: {e}', info)
                return
            rec.case()
            pred[comp, kk] = G[comp, kk]*dp
            act[comp, kk] = phi - phi0
    rec.event('gradients')
    rec.event('gradient_layers_compared', int(pred.size))
    tol = TOL_GRAD_COND if mapping == 'Conductivity' else TOL_GRAD
    S = float(np.max(np.abs(act)))
    # What a difference of two misfits cannot resolve: rounding of the sums,
    # and the resolution of the reference modeller itself (10 x the largest
    # change of each datum under 1e-14 perturbations of the layer parameters,
    # see conditioning(); matters for receivers in a very resistive layer)
    # propagated through d(phi) = sum w |r| |d(datum)|.
    if False not in allow:
        allow[False] = conditioning(c, table, False, ref, nrm)
        rec.event('conditioning_probes')
    dsim = np.array(sim.data.synthetic.data)[fin]    # emg3d's own data
    dd = (allow[False][fin]/5.0)*(np.abs(dsim) + np.abs(ref[fin]) +
                                  FLOOR*nrm[fin])
    floor = 1e-10*abs(phi0) + float(np.sum(np.abs(dsim - obs[fin])*dd/s2))
    if not (floor <= 0.1*S):
        rec.extra_add('gradients_judged_at_reduced_resolution')
    num = np.abs(pred - act) - floor
    with np.errstate(invalid='ignore', divide='ignore'):
        # (pred == act == 0 exactly, e.g. Hz of a vertical electric dipole as
        # the only datum, is agreement; NaN stays NaN)
        err = np.where(num <= 0, 0.0,
                       num/np.maximum(np.abs(act) + 0.05*S, 1e-300))
    worst = float(np.max(err)) if np.all(np.isfinite(err)) else float('nan')
    worst = max(worst, 0.0) if worst == worst else worst
    rec.margin('gradient_rel_err_cond' if mapping == 'Conductivity'
               else 'gradient_rel_err', worst)
    rec.extra_add('gradient_layers_sensitive',
                  int(np.count_nonzero(np.abs(act) > 1e-6*abs(phi0))))
    if not (worst <= tol):
        j = np.unravel_index(np.argmax(np.where(np.isfinite(err), err,
                                                np.inf)), err.shape)
        rec.violation(
            'C19:gradient-differs-from-misfit-change',
            f'sum over layer of the layered gradient x dp = {pred[j]:.6e} but '
            f'the misfit changes by {act[j]:.6e} (component {j[0]}, z-cell '
            f'{j[1]}; err {worst:.3e}, tol {tol}); mapping {mapping}, '
            f'misfit {phi0:.6e}', {**info, 'predicted': pred, 'actual': act})
    rec.distinct(('gradient', c['cls'], 'VTI' if c['vti'] else 'iso',
                  mapping, run['lopts'].get('method', 'default'),
                  c['obsmode']))


def run_case(rec, c):
    table = Table(c)
    model = build_model(c, table)
    ref, nrm = ref_data(c, table)
    need_merged = any(r['lopts'].get('merge') for r in c['runs'])
    same = table.merged_index().size == table.p_h.size
    if need_merged and not same:
        ref_m, nrm_m = ref_data(c, table, merged=True)
    else:
        ref_m, nrm_m = ref, nrm
    if not (np.all(np.isfinite(ref)) and np.all(np.isfinite(ref_m)) and
            np.all(nrm > 0)):
        rec.inconclusive('reference modeller returned non-finite/zero data',
                         _brief(c))
        return
    # resolution of the oracle itself: merged vs. unmerged table
    rec.margin('oracle_merged_vs_unmerged', float(np.max(
        _err(ref_m, ref, nrm))))
    allow = {}      # resolution of the reference, computed when needed
    obs, std, passed = check_forward(rec, c, table, model, ref, nrm, ref_m,
                                     nrm_m, allow)
    check_extract(rec, c, table, model)
    if c['grad'] is not None:
        # The gradient clause needs to know how well the data of *this* run
        # are determined; if they already disagree with the reference (reported
        # above) that is not known, e.g. because the data were computed for
        # another geometry.
        if c['grad']['run'] in passed:
            check_gradient(rec, c, table, model, ref, nrm, obs, std, allow)
        else:
            rec.extra_add('gradients_skipped_after_data_mismatch')
    rec.extra_add('cases_' + c['cls'])
    rec.sample({'cls': c['cls'], 'mapping': c['mapping'], 'vti': c['vti'],
                'shape': [len(c['hx']), len(c['hy']), len(c['hz'])],
                'table': c['table'], 'freqs': c['freqs'],
                'sources': [f"{s['type']}:{s['fmt']}" for s in c['sources']],
                'receivers': [q['type'] for q in c['receivers']],
                'runs': [r['lopts'] for r in c['runs']],
                'obsmode': c['obsmode'], 'gradient': c['grad'] is not None})


def run_batch(batch):
    rec = common.Rec(max_viol=30)
    seed, tier = batch['seed'], batch['tier']
    with warnings.catch_warnings():
        warnings.simplefilter('ignore')
        for i in range(batch['n']):
            c = gen_case(seed, batch['k'], i, tier)
            try:
                run_case(rec, c)
            except Exception as e:  # noqa - harness problem, not a verdict
                import traceback
                rec.inconclusive(f'harness: {type(e).__name__}: {e}: '
                                 + traceback.format_exc()[-600:],
                                 {'k': batch['k'], 'i': i})
    return rec.result()


def finalize(merged, tier):
    q = tier == 'quick'
    common.require_events(merged, {
        'layered_runs': 1000 if q else 30000,
        'data_compared': 5000 if q else 150000,
        'extract_1d_calls': 1000 if q else 30000,
        'extracted_layerings_compared': 1000 if q else 30000,
        'gradients': 40 if q else 1500,
        'gradient_layers_compared': 200 if q else 8000,
        'unobserved_triples': 300 if q else 10000,
    })
    ex = merged['extra']
    for m in METHODS:
        if m not in ex.get('set:methods', []):
            merged['inconclusive'].append(
                {'reason': f'method {m!r} never reached the oracle',
                 'case': None})
    for kind, name in (('source_kinds', 'TxElectricPoint:point5'),
                       ('source_kinds', 'TxMagneticPoint:point5'),
                       ('source_kinds', 'TxElectricDipole:flat'),
                       ('source_kinds', 'TxElectricDipole:point5'),
                       ('receiver_kinds', 'RxElectricPoint'),
                       ('receiver_kinds', 'RxMagneticPoint')):
        if name not in ex.get('set:' + kind, []):
            merged['inconclusive'].append(
                {'reason': f'{name!r} never reached the oracle',
                 'case': None})
    for o in ('none', 'full', 'gaps', 'allnan'):
        if o not in ex.get('set:obsmodes', []):
            merged['inconclusive'].append(
                {'reason': f'data mode {o!r} never reached the oracle',
                 'case': None})
