"""C12 - simulation results are a function of (model, survey), not of history.

A logged random sequence of public operations is applied to live Simulation
objects; after every operation the observables are compared with those of a
freshly created simulation of the model/survey/options current at that point
(memoised).  Copies / reloaded simulations are then driven independently.
"""
import os
import shutil
import tempfile
import warnings
import numpy as np
from vf import common, gen, simgen

PROP = 'C12'
NEEDS_JIT = True
TIMEOUT = {'quick': 2400, 'thorough': 3500}
RULE = ("random operation sequences (length <= 8, thorough <= 12) over "
        "{compute, misfit, gradient, jvec, jtvec, get_efield, get_hfield, "
        "clean(computed|keepresults|all), copy(what), to_dict/from_dict, "
        "to_file/from_file (h5, npz, json; every what), model update + clean, "
        "observed data replaced in place (other values, other pattern of "
        "missing entries) + clean} "
        "on 8^3 isotropic and VTI problems, gridding 'same' and 'single' "
        "(fully specified gridding_opts), in memory and file_dir, 40 % with a "
        "relaxed tol_gradient (1e-4/1e-5 vs tol 1e-9); up to three "
        "live objects (original, copies, reloads) driven independently; the "
        "first two sequences of a batch start with one of four scripted "
        "histories; "
        "distinct = operation bigrams (previous op, op) followed by an "
        "observation that reached the fresh-simulation oracle")
ASSUMPTIONS = [
    "model = 'a fresh Simulation with the same model, survey and options, "
    "evaluated once'; agreement to 1e-6 relative (solver tol 1e-9; a "
    "recompute legitimately restarts from the previous field)",
    "to_dict(copy=False) legitimately shares arrays: after that operation the "
    "original is retired and only the new object is driven",
    "violations in sequences whose object shares a file_dir with a sibling "
    "that has written/cleaned since are keyed to that one mechanism",
]
RT = 1e-6
WHATS = ['computed', 'results', 'all', 'plain']


def plan(tier, seed):
    if tier == 'quick':
        return [{'id': f'h{k}', 'k': k, 'n': 10, 'maxlen': 8}
                for k in range(16)]
    return [{'id': f'h{k}', 'k': k, 'n': 30, 'maxlen': 12} for k in range(96)]


class Live:
    def __init__(self, sim, ver, fdir):
        self.sim = sim
        self.ver = ver                 # model version
        self.dver = 1                  # version of the observed data
        self.fdir = fdir
        self.jtvec_pending = None      # last jtvec result still cached?
        self.dirty = False             # sibling wrote into shared file_dir
        self.prev = 'init'
        self.retired = False


class Env:
    def __init__(self, rec, r, ps, obs, gridding, file_based, tmp, case,
                 tolg=None):
        self.rec, self.r, self.ps, self.obs = rec, r, ps, obs
        self.tolg = tolg
        # gradient-type results are only as good as tol_gradient
        self.rtg = RT if tolg is None else 2e-3
        self.gridding, self.file_based, self.tmp = gridding, file_based, tmp
        self.case = case
        self.fresh_cache = {}
        self.models = {}
        self.obs_versions = {1: obs}
        self.log = []
        nk = sum(ps['ms'][kk] is not None for kk in ('sigx', 'sigy', 'sigz'))
        shp = tuple(ps['shape'])
        self.v = r.standard_normal((nk,) + shp) if nk > 1 else \
            r.standard_normal(shp)
        shape = (len(ps['sources']), len(ps['receivers']),
                 len(ps['frequencies']))
        self.w = r.standard_normal(shape) + 1j*r.standard_normal(shape)
        self.w[~np.isfinite(obs)] = np.nan + 1j*np.nan
        self.nfile = 0

    # -- construction
    def model(self, ver):
        if ver not in self.models:
            over = None
            if ver > 1:
                rr = gen.rng(int(self.r.integers(2**31)), 'model', ver)
                ms = self.ps['ms']
                over = {k: ms[k]*10.0**rr.uniform(-0.2, 0.2, ms[k].shape)
                        for k in ('sigx', 'sigy', 'sigz') if ms[k] is not None}
            self.models[ver] = over
        return simgen.build_model(self.ps, self.models[ver])

    def gkw(self, grid):
        if self.gridding == 'same':
            return {}
        base = float(grid.h[0].min())
        ext = [[float(getattr(grid, 'nodes_'+a)[1]),
                float(getattr(grid, 'nodes_'+a)[-2])] for a in 'xyz']
        return {'gridding': 'single', 'gridding_opts': {
            'domain': {'x': ext[0], 'y': ext[1], 'z': ext[2]},
            'min_width_limits': [base*0.8, base*1.5],
            'cell_numbers': [8, 12, 16, 20, 24, 32], 'lambda_factor': 0.25,
            'max_buffer': 1500., 'stretching': [1.0, 1.6],
            'center_on_edge': False, 'frequency': 1.0,
            'center': [0.0, 0.0, 0.0],
            'properties': [1.0, 1.0, 1.0, 1.0],
            'mapping': 'Conductivity'}}

    def obs_v(self, dver):
        """Observed data, version ``dver``: same values up to 5 %, another
        pattern of missing entries (none / a whole source-frequency pair /
        random gaps)."""
        if dver not in self.obs_versions:
            rr = gen.rng(int(self.r.integers(2**31)), 'obs', dver)
            base = self.obs.copy()
            fill = simgen.observed_from(self.ps, rr, tol=1e-8) if not \
                np.isfinite(base).all() else base
            base[~np.isfinite(base)] = fill[~np.isfinite(base)]
            base[~np.isfinite(base)] = np.nanmedian(np.abs(fill))
            new = base*(1 + 0.05*rr.standard_normal(base.shape))
            kind = gen.choice(rr, ['full', 'blank-pair', 'gaps'])
            if kind == 'blank-pair' and new.shape[0]*new.shape[2] > 1:
                new[int(rr.integers(new.shape[0])), :,
                    int(rr.integers(new.shape[2]))] = np.nan + 1j*np.nan
            elif kind == 'gaps' and new.size > 1:
                m = rr.random(new.shape) < 0.3
                if not m.all():
                    new[m] = np.nan + 1j*np.nan
            self.obs_versions[dver] = new
        return self.obs_versions[dver]

    def new_sim(self, ver, fdir=None, dver=1):
        grid, model = self.model(ver)
        # (noise parameters always derive from version 1, as they do for an
        # object whose data are replaced in place later)
        sv = simgen.build_survey(self.ps, data=self.obs.copy())
        if dver > 1:
            sv.data.observed[...] = self.obs_v(dver)
        kw = self.gkw(grid)
        if fdir:
            kw['file_dir'] = fdir
        if self.tolg is not None:
            kw['solver_opts'] = {'tol_gradient': self.tolg}
        return simgen.simulation(sv, model, tol=1e-9, **kw)

    def fresh(self, ver, what, dver=1):
        key = (ver, dver, what)
        if key not in self.fresh_cache:
            sim = self.new_sim(ver, dver=dver)
            if what == 'basic':
                sim.compute()
                syn = np.array(sim.data.synthetic.data)
                mis = float(sim.misfit)
                grad = np.array(sim.gradient)
                ef = {sf: np.array(sim.get_efield(*sf).field)
                      for sf in sim._srcfreq}
                hf = {sf: np.array(sim.get_hfield(*sf).field)
                      for sf in sim._srcfreq}
                out = {'synthetic': syn, 'misfit': mis, 'gradient': grad,
                       'efield': ef, 'hfield': hf,
                       'ok': simgen.all_converged(sim)}
            elif what == 'jvec':
                out = np.array(sim.jvec(self.v))
            else:
                out = np.array(sim.jtvec(self.w))
            self.fresh_cache[key] = out
        return self.fresh_cache[key]


def close(a, b, rt=RT):
    """Relative agreement of finite entries; NaN patterns must match."""
    a, b = np.asarray(a), np.asarray(b)
    if a.shape != b.shape:
        return False, float('nan')
    fa, fb = np.isfinite(a), np.isfinite(b)
    if not np.array_equal(fa, fb):
        return False, float('nan')
    if not fa.any():
        return True, 0.0
    sc = float(np.abs(b[fb]).max())
    d = float(np.abs(a[fa]-b[fb]).max()/sc) if sc > 0 else float(
        np.abs(a[fa]).max())
    return d <= rt, d


def run_sequence(rec, seed, k, i, maxlen):
    import emg3d
    warnings.simplefilter('ignore')
    r = gen.rng(seed, 'C12', k, i)
    ps = simgen.problem_spec(
        r, shape=(8, 8, 8),
        case=gen.choice(r, ['isotropic', 'VTI']),
        nsrc=int(gen.choice(r, [1, 2])), nfreq=int(gen.choice(r, [1, 2])),
        nrec=int(gen.choice(r, [2, 3])),
        src_kinds=['TxElectricDipole', 'TxElectricPoint'])
    obs = simgen.observed_from(ps, r, tol=1e-8)
    gridding = gen.choice(r, ['same', 'same', 'single'])
    # the first two sequences of every batch start with a scripted history
    # (replace model or data, clean('computed') only, then observe) on the
    # gridding it is most delicate for; random operations follow
    script = []
    if i < 2:
        gridding, script = SCRIPTS[(2*k + i) % len(SCRIPTS)]
    file_based = bool(r.random() < 0.2)
    # a relaxed gradient tolerance, as the documentation suggests
    tolg = float(gen.choice(r, [1e-4, 1e-5])) if r.random() < 0.4 else None
    tmp = tempfile.mkdtemp(prefix='vf-c12-')
    case = {'seed': seed, 'k': k, 'i': i, 'gridding': gridding,
            'file_based': file_based, 'tol_gradient': tolg,
            'problem': simgen.summarize(ps)}
    env = Env(rec, r, ps, obs, gridding, file_based, tmp, case, tolg)
    rec.case()
    try:
        try:
            base = env.fresh(1, 'basic')
        except RuntimeError as e:
            if 'No suitable grid' in str(e):      # legitimate (C16): skip
                rec.event('skipped_no_suitable_grid')
                return
            raise
        if not base['ok']:
            rec.event('skipped_solver_not_converged')
            return
        fdir = os.path.join(tmp, 'fd0') if file_based else None
        lives = [Live(env.new_sim(1, fdir), 1, fdir)]
        n = int(r.integers(3, maxlen+1))
        for step, fop in enumerate(script):
            if not do_op(env, lives, lives[0], step, force=fop):
                return
            rec.event('scripted_operations')
        for step in range(len(script), max(n, len(script) + 1)):
            act = [L for L in lives if not L.retired]
            L = act[int(r.integers(len(act)))]
            if not do_op(env, lives, L, step):
                return
        # final observation on every live object
        for L in lives:
            if L.retired:
                continue
            for op in ('misfit', 'gradient'):
                if not do_op(env, lives, L, 'final', force=op):
                    return
        rec.sample({'gridding': gridding, 'file_based': file_based,
                    'ops': env.log, 'problem': simgen.summarize(ps)})
    finally:
        shutil.rmtree(tmp, ignore_errors=True)
    _ = emg3d


SCRIPTS = [
    ('single', ['compute', 'model_update:computed', 'get_hfield', 'misfit',
                'gradient']),
    ('same', ['gradient', 'data_update:computed', 'misfit', 'gradient']),
    ('single', ['gradient', 'model_update:computed', 'jvec', 'jtvec',
                'data_update:computed', 'gradient']),
    ('same', ['misfit', 'clean:computed', 'compute', 'copy:computed',
              'model_update:computed', 'gradient']),
]
OPS = ['compute', 'misfit', 'gradient', 'jvec', 'jtvec', 'get_efield',
       'get_hfield', 'clean', 'clean', 'copy', 'dict', 'file', 'file',
       'model_update', 'data_update']


def violation(env, L, op, msg, exc=None):
    rec = env.rec
    case = dict(env.case, ops=list(env.log), failing_op=op)
    if L.dirty:
        key = 'C12:file-copy-shares-field-files'
        msg = ('object shares its file_dir with a copy that has '
               'computed/cleaned since: ' + msg)
    elif exc is not None:
        key = f'C12:{op.split(":")[0]}-raises-{type(exc).__name__}'
    else:
        key = 'C12:history-dependent-' + op.split(':')[0]
    rec.violation(key, msg, case)


def do_op(env, lives, L, step, force=None):
    """Apply one operation; return False to stop the sequence."""
    import emg3d
    r, rec = env.r, env.rec
    sim = L.sim
    fwhat = None
    if force and ':' in force:
        force, fwhat = force.split(':', 1)
    op = force or gen.choice(r, OPS)
    what = None
    name = op
    writes = False
    try:
        fr = env.fresh(L.ver, 'basic', L.dver)
        if not fr['ok']:
            rec.event('skipped_solver_not_converged')
            return False
        if op == 'compute':
            sim.compute()
            writes = True
        elif op == 'misfit':
            val = float(sim.misfit)
            writes = True
            ok, d = close(val, fr['misfit'])
            rec.event('misfit_observations')
            rec.margin('misfit_rel_dev', d)
            if not ok:
                violation(env, L, op, f'misfit {val!r} != fresh '
                          f'{fr["misfit"]!r} after {env.log}')
                return False
        elif op == 'gradient':
            val = np.array(sim.gradient)
            writes = True
            ok, d = close(val, fr['gradient'], env.rtg)
            rec.event('gradient_observations')
            rec.margin('gradient_rel_dev' if env.tolg is None else
                       'gradient_rel_dev_relaxed_tol', d)
            if not ok:
                if L.jtvec_pending is not None and close(
                        val, L.jtvec_pending, env.rtg)[0] and not L.dirty:
                    rec.violation(
                        'C12:gradient-after-jtvec',
                        f'gradient after jtvec(w) returns the cached J^T w, '
                        f'not the misfit gradient (rel dev {d:.3e}); ops '
                        f'{env.log}', dict(env.case, ops=list(env.log)))
                else:
                    violation(env, L, op, f'gradient differs from fresh '
                              f'simulation by {d:.3e} after {env.log}')
                return False
        elif op == 'jvec':
            val = np.array(sim.jvec(env.v))
            writes = True
            ok, d = close(val, env.fresh(L.ver, 'jvec', L.dver), env.rtg)
            rec.event('jvec_observations')
            if not ok:
                violation(env, L, op, f'jvec differs from fresh simulation '
                          f'by {d:.3e} after {env.log}')
                return False
        elif op == 'jtvec':
            val = np.array(sim.jtvec(env.w))
            writes = True
            ok, d = close(val, env.fresh(L.ver, 'jtvec', L.dver), env.rtg)
            rec.event('jtvec_observations')
            L.jtvec_pending = val
            if not ok:
                violation(env, L, op, f'jtvec differs from fresh simulation '
                          f'by {d:.3e} after {env.log}')
                return False
        elif op in ('get_efield', 'get_hfield'):
            sf = sim._srcfreq[int(r.integers(len(sim._srcfreq)))]
            name = f'{op}:{sf[0]}:{sf[1]}'
            f = getattr(sim, op)(*sf)
            writes = True
            ok, d = close(np.array(f.field), fr[op[4:]][sf])
            rec.event('field_observations')
            if not ok:
                violation(env, L, op, f'{op}{sf} differs from fresh '
                          f'simulation by {d:.3e} after {env.log}')
                return False
        elif op == 'clean':
            what = fwhat or gen.choice(r, ['computed', 'keepresults', 'all'])
            name = f'clean:{what}'
            sim.clean(what)
            writes = True
            if what in ('computed', 'all'):
                L.jtvec_pending = None
        elif op == 'copy':
            what = fwhat or gen.choice(r, WHATS)
            name = f'copy:{what}'
            new = sim.copy(what)
            add_live(env, lives, L, new, what)
        elif op == 'dict':
            what = gen.choice(r, WHATS)
            name = f'dict:{what}'
            new = emg3d.Simulation.from_dict(sim.to_dict(what))
            add_live(env, lives, L, new, what)
            L.retired = True       # to_dict(copy=False) shares arrays
        elif op == 'file':
            what = gen.choice(r, WHATS)
            fmt = gen.choice(r, ['h5', 'npz', 'json'])
            name = f'file:{fmt}:{what}'
            env.nfile += 1
            path = os.path.join(env.tmp, f's{env.nfile}.{fmt}')
            sim.to_file(path, what=what, verb=0)
            new = emg3d.Simulation.from_file(path, verb=0)
            add_live(env, lives, L, new, what)
        elif op == 'data_update':
            # new observations written in place into the survey of this
            # object, then clean: results must be those of the new data
            what = fwhat or gen.choice(r, ['computed', 'all'])
            name = f'data_update+clean:{what}'
            L.dver += 1
            sim.survey.data.observed[...] = env.obs_v(L.dver)
            sim.clean(what)
            writes = True
            L.jtvec_pending = None
        elif op == 'model_update':
            what = fwhat or gen.choice(r, ['computed', 'all'])
            name = f'model_update+clean:{what}'
            L.ver += 1
            _, model = env.model(L.ver)
            sim.model = model
            sim.clean(what)
            writes = True
            L.jtvec_pending = None
    except Exception as e:  # noqa - the property promises a result
        import traceback
        env.log.append(name)
        violation(env, L, name, f'{type(e).__name__}: {e} in {name} after '
                  f'{env.log[:-1]}; {traceback.format_exc()[-400:]}', exc=e)
        return False
    env.log.append(name)
    if writes and L.fdir:
        for o in lives:
            if o is not L and o.fdir == L.fdir:
                o.dirty = True
    # passive observation: whatever synthetic data exist must be the fresh ones
    fr = env.fresh(L.ver, 'basic', L.dver)
    for o in [L] + ([lives[-1]] if lives[-1] is not L else []):
        if o.retired:
            continue
        try:
            syn = np.array(o.sim.data.synthetic.data)
        except Exception as e:  # noqa
            violation(env, o, name, f'data.synthetic not accessible: {e}',
                      exc=e)
            return False
        fro = env.fresh(o.ver, 'basic', o.dver)
        fin = np.isfinite(syn)
        rec.event('synthetic_observations')
        if fin.any():
            sc = float(np.abs(fro['synthetic'][np.isfinite(
                fro['synthetic'])]).max())
            bad = (~np.isfinite(fro['synthetic'][fin])).any()
            d = float(np.nanmax(np.abs(syn[fin]-fro['synthetic'][fin]))/sc)
            rec.margin('synthetic_rel_dev', d)
            if bad or not (d <= RT):
                violation(env, o, 'synthetic', f'data.synthetic differs from '
                          f'fresh simulation by {d:.3e} after {env.log}')
                return False
    rec.distinct((L.prev.split(':')[0], name.split(':')[0]))
    if env.tolg is not None:
        rec.event('operations_with_relaxed_tol_gradient')
    rec.extra_set('operations_seen', [name.split(':')[0] + (
        ':'+name.split(':')[-1] if ':' in name and name.split(':')[0] in
        ('clean', 'copy', 'dict') else '')])
    L.prev = name
    rec.event('operations')
    _ = fr
    return True


def add_live(env, lives, L, new, what):
    n = Live(new, L.ver, L.fdir if new.file_dir else None)
    n.dver = L.dver
    n.prev = L.prev
    if what != 'plain' and L.jtvec_pending is not None:
        n.jtvec_pending = L.jtvec_pending
    n.dirty = L.dirty
    if len([x for x in lives if not x.retired]) >= 3:
        # retire the oldest active one
        for x in lives:
            if not x.retired and x is not L:
                x.retired = True
                break
    lives.append(n)


def run_batch(batch):
    rec = common.Rec(max_samples=2)
    for i in range(batch['n']):
        try:
            run_sequence(rec, batch['seed'], batch['k'], i, batch['maxlen'])
        except IndexError:
            raise
        except Exception:  # noqa
            import traceback
            rec.inconclusive('harness exception: ' +
                             traceback.format_exc()[-900:],
                             {'k': batch['k'], 'i': i})
    return rec.result()


def finalize(merged, tier):
    common.require_events(merged, {'operations': 500,
                                   'misfit_observations': 100,
                                   'gradient_observations': 100,
                                   'synthetic_observations': 500,
                                   'scripted_operations': 60})
