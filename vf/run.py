"""Entry point used by ./check."""
import argparse
import importlib
import os
import sys


def main():
    ap = argparse.ArgumentParser()
    ap.add_argument('prop')
    ap.add_argument('--tier', default=os.environ.get('VERIF_TIER', 'quick'),
                    choices=['quick', 'thorough'])
    ap.add_argument('--seed', type=int,
                    default=int(os.environ.get('VERIF_SEED', '0') or 0))
    ap.add_argument('--replay', default=None)
    a = ap.parse_args()
    from vf import common
    mod = importlib.import_module('vf.' + a.prop.lower())
    rc = common.run_property(mod, a.tier, a.seed, replay=a.replay)
    sys.exit(rc)


if __name__ == '__main__':
    main()
